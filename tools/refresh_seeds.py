#!/usr/bin/env python3
"""Re-measures, for every change under /verif/seeded (and /verif/benign), which rules report it on a scratch copy of
the current tree, and rewrites the detected_by / expect fields of its meta.json (benign: writes benign/RESULTS.json)."""
import json, os, re, subprocess, sys
from concurrent.futures import ThreadPoolExecutor
def measure(patch):
    out = subprocess.run(['/verif/tools/try_patch.sh', patch, 'all'], capture_output=True, text=True).stdout
    det = {}
    for l in out.splitlines():
        m = re.match(r'^(VIOLATED|UNDECIDED) (C\d+)/(\S+) ', l)
        if m:
            r = m.group(2) + '/' + m.group(3)
            det.setdefault(m.group(2), [])
            if r not in det[m.group(2)]:
                det[m.group(2)].append(r)
    return det, ('INAPPLICABLE' in out)
def seed(d):
    mf = d + '/meta.json'
    meta = json.load(open(mf))
    det, inapp = measure(d + '/patch.diff')
    if inapp:
        return os.path.basename(d), 'inapplicable'
    prop = meta['property']
    meta['detected_by'] = det
    meta['also_checked_by'] = sorted(p for p in det if p != prop)
    meta['detected_by_rules'] = det.get(prop, [])
    meta['expect'] = 'detected' if prop in det else 'missed'
    json.dump(meta, open(mf, 'w'), indent=1, ensure_ascii=False)
    return os.path.basename(d), meta['expect'] + ' ' + ','.join(sorted(det))
def benign(d):
    det, inapp = measure(d + '/patch.diff')
    return os.path.basename(d), ('inapplicable' if inapp else ('silent' if not det else 'ALARM ' + json.dumps(det)))
with ThreadPoolExecutor(6) as ex:
    S = sorted(os.path.join('/verif/seeded', x) for x in os.listdir('/verif/seeded') if os.path.exists('/verif/seeded/%s/meta.json' % x))
    for n, r in ex.map(seed, S):
        print('seeded', n, r)
    B = sorted(os.path.join('/verif/benign', x) for x in os.listdir('/verif/benign') if os.path.isdir('/verif/benign/' + x))
    res = {}
    for n, r in ex.map(benign, B):
        print('benign', n, r)
        res[n] = r
    json.dump(res, open('/verif/benign/RESULTS.json', 'w'), indent=1)
