#!/usr/bin/env python3
"""usage: add_seed.py <src dir> <name> <property> <demo dest> <confirm RESULT line or '-'> -- <go test args>
Copies a confirmed seeded change into /verif/seeded/<name>/ (patch.diff, demo, README) and writes meta.json:
which property it breaks, what it needs to manifest (from the author's README), what was run, and which
rules of which properties report it on a scratch copy of the current tree (measured now with try_patch.sh)."""
import json, os, re, shutil, subprocess, sys
src, name, prop, dest, confirm = sys.argv[1:6]
args = sys.argv[7:] if len(sys.argv) > 6 and sys.argv[6] == '--' else []
dst = '/verif/seeded/' + name
os.makedirs(dst, exist_ok=True)
shutil.copy(src + '/patch.diff', dst + '/patch.diff')
demo = [f for f in os.listdir(src) if f not in ('patch.diff', 'README.md')]
for f in demo:
    shutil.copy(src + '/' + f, dst + '/' + (f if not f.endswith('_test.go') else f.replace('_test.go', '_test.go.txt')))
readme = open(src + '/README.md').read() if os.path.exists(src + '/README.md') else ''
open(dst + '/AUTHOR_README.md', 'w').write(readme)
out = subprocess.run(['/verif/tools/try_patch.sh', dst + '/patch.diff', 'all'], capture_output=True, text=True).stdout
det = {}
for l in out.splitlines():
    m = re.match(r'^(VIOLATED|UNDECIDED) (C\d+)/(\S+) ', l)
    if m:
        det.setdefault(m.group(2), [])
        r = m.group(2) + '/' + m.group(3)
        if r not in det[m.group(2)]:
            det[m.group(2)].append(r)
first = ''
for para in readme.split('\n\n'):
    if len(para.strip()) > 80:
        first = ' '.join(para.split())[:600]
        break
meta = {
    'property': prop,
    'title': name,
    'origin': 'independent sub-agent given only the property text and a scratch worktree' if not name.startswith('rev-') else 'reverted fix: commit of /repo',
    'summary': first,
    'demo': {'file': [f for f in demo], 'place_at': dest, 'command': 'go test -vet=off -count=1 ' + ' '.join(args)},
    'confirmed': confirm,
    'detected_by': det,
    'also_checked_by': sorted(p for p in det if p != prop),
    'detected_by_rules': det.get(prop, []),
    'expect': 'detected' if prop in det else 'missed',
}
json.dump(meta, open(dst + '/meta.json', 'w'), indent=1, ensure_ascii=False)
print(name, prop, meta['expect'], det)
