#!/bin/bash
# usage: run_corpus.sh <dir with */patch.diff> [props]   -> one line per change: which properties report it
D="${1:?dir}"; P="${2:-all}"
ls -d "$D"/*/ | xargs -P 6 -I{} bash -c 'n=$(basename {}); r=$(/verif/tools/try_patch.sh {}patch.diff '"$P"' 2>&1 | tail -1 | sed "s/---- properties reporting: //"); echo "$n: $r"' | sort
