#!/bin/bash
# usage: confirm_seed.sh <seed dir with patch.diff + demo file> <demo file name> <dest path in repo> <go test args...>
# Confirms a seeded change in a scratch worktree of /repo's HEAD: demo passes without the change, fails with it,
# the change builds and the repository's stable baseline still passes. Prints one RESULT line. Removes the worktree.
set -u
D="$(readlink -f "$1")"; DEMO="$2"; DEST="$3"; shift 3
export GOFLAGS=-mod=mod GOPROXY=off GOSUMDB=off GOTOOLCHAIN=local; unset GOWORK
W=$(mktemp -d /tmp/confirm-XXXXXX); rmdir "$W"
git -C /repo worktree add --detach -q "$W" HEAD || exit 2
trap 'git -C /repo worktree remove --force "$W" 2>/dev/null; rm -rf "$W"' EXIT
mkdir -p "$(dirname "$W/$DEST")"; cp "$D/$DEMO" "$W/$DEST"
(cd "$W" && go test -vet=off -count=1 "$@") > "$W.clean.log" 2>&1; CLEAN=$?
(cd "$W" && git apply --whitespace=nowarn "$D/patch.diff") || { echo "RESULT $D apply-failed"; exit 1; }
(cd "$W" && go build ./...) > "$W.build.log" 2>&1; BUILD=$?
(cd "$W" && go test -vet=off -count=1 "$@") > "$W.mut.log" 2>&1; MUT=$?
rm -f "$W/$DEST"; rmdir "$(dirname "$W/$DEST")" 2>/dev/null
BASE=$(/verif/tools/baseline.sh "$W" 2>&1 | tail -3 | tr '\n' ' ')
echo "RESULT $(basename $(dirname $D))/$(basename $D) demo-clean-exit=$CLEAN build=$BUILD demo-mutant-exit=$MUT baseline: $BASE"
tail -3 "$W.mut.log" | cut -c1-200
rm -f "$W.clean.log" "$W.build.log" "$W.mut.log"
