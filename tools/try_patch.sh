#!/bin/bash
# usage: try_patch.sh <patch.diff> [prop-list|all]
# Applies a change to a scratch copy of /repo's current working tree (outside /repo and /verif), runs the
# checker on the copy (evidence goes to the scratch directory, /verif/evidence is untouched) and prints
# which properties report a violation. The scratch copy is removed afterwards.
set -u
PATCH="$(readlink -f "${1:?patch}")"; PROPS="${2:-all}"
HERE="$(cd "$(dirname "$0")/.." && pwd)"
export GOFLAGS=-mod=mod GOPROXY=off GOSUMDB=off GOTOOLCHAIN=local; unset GOWORK
T=$(mktemp -d "${TMPDIR:-/tmp}/trypatch-XXXXXX")
trap 'rm -rf "$T"' EXIT
mkdir -p "$T/repo" && rsync -a --exclude .git "${VERIF_REPO:-/repo}/" "$T/repo/"
if ! (cd "$T/repo" && git apply --whitespace=nowarn "$PATCH"); then echo "INAPPLICABLE $PATCH"; exit 3; fi
if ! (cd "$T/repo" && go build ./... 2>"$T/build.err"); then echo "DOES-NOT-BUILD"; head -5 "$T/build.err"; fi
"$HERE/bin/gomqttcheck" -repo "$T/repo" -verif "$HERE" -out "$T/out" -prop "$PROPS" -tier quick -summary > "$T/log" 2>&1
grep -E "^(VIOLATED|UNDECIDED)" "$T/log" | sed "s#$T/repo/##g" | cut -c1-400
echo "---- properties reporting: $(grep '^VIOLATION' "$T/log" | sed 's/.*property=\([A-Z0-9]*\).*/\1/' | sort -u | tr '\n' ' ')"
