#!/bin/bash
# Runs the repository's test suite (guard off; there are no hooks) and compares with /root/.vp/BASELINE.json.
# usage: baseline.sh [repo dir]   -> prints pass/fail counts and the missing stable tests; exit 0 iff all stable tests pass
REPO="${1:-/repo}"
export GOFLAGS=-mod=mod GOPROXY=off GOSUMDB=off GOTOOLCHAIN=local
unset GOWORK
OUT=$(mktemp)
(cd "$REPO" && go test -json -vet=off -count=1 -timeout 25m ./... > "$OUT" 2>/dev/null)
python3 - "$OUT" <<'PY'
import json,sys
base=json.load(open('/root/.vp/BASELINE.json'))
stable=set(base['stable_pass'])
passed=set(); failed=set()
for l in open(sys.argv[1]):
    try: e=json.loads(l)
    except: continue
    if e.get('Test') and e.get('Action') in('pass','fail'):
        k=e['Package']+'::'+e['Test']
        (passed if e['Action']=='pass' else failed).add(k)
missing=sorted(stable-passed)
print("passed %d failed %d; stable %d; stable missing %d"%(len(passed),len(failed),len(stable),len(missing)))
for m in missing[:20]: print("  MISSING",m)
sys.exit(1 if missing else 0)
PY
RC=$?
rm -f "$OUT"
exit $RC
