#!/usr/bin/env python3
"""Regenerates MANIFEST.json from the table below (kept in one place so it stays valid)."""
import json, sys

BASELINE = "for m in $(cat /w/out/gomods.txt); do MF=$(cd /repo/$m && . /w/out/goenv.sh && gomodflag); (cd /repo/$m && go test $MF -json -vet=off -count=1 -timeout 25m ./...); done"

# id -> dict(claimed, text, note, technique, design_ref, na_reason)
P = {}
def claim(i, technique, text, note, ref):
    P[i] = dict(claimed=True, technique=technique, text=text, note=note, ref=ref)
def na(i, reason):
    P[i] = dict(claimed=False, reason=reason)

TECH = {
 "C01": "static analysis: symbolic byte-count summaries of Encode paths vs Len() per guard valuation (SIZE), header/type/constant table extraction (TABLE), relational interval analysis with Fourier-Motzkin refutation for the varint / detection-window / length-prefix limits (LIN), field-use and field-mix path rules, header-bound rule",
 "C02": "static analysis: relational bounds analysis of every index/slice expression and loop of the decode side (LIN: BOUNDS, CONSUMED, TERMINATES), SSA value-origin tracing for ownership (ORIGIN), decision-table comparison decoder-admits vs encoder-admits (ADMIT), extent confinement of reads after decodeHeader, pooled-buffer lifetime (POOL)",
 "C03": "static path analysis of Decoder.Read / Encoder.Write / BaseConn.Receive / wsStream.Read: limit-before-buffering, error implies nil packet, whole-packet read before Decode, shipped slice == encoded slice of Len() bytes (with the SIZE agreement of C01), pooled-buffer lifetime, no per-message limit on the WebSocket carrier, detection window (LIN)",
 "C04": "decision-table extraction from Tree.match/search over a symbolic (topic end, segment kind) valuation, compared with the MQTT 4.7 reference rows; path rules for the segment helpers and for the descent of all six trie walkers; prune rule",
 "C05": "must-hold lockset analysis over every mutable tree field (LOCK), one-critical-section typestate per exported method, SSA alias-origin analysis of returned slices incl. closure parameters (ORIGIN), prune / add-set path rules, walker tables shared with C04",
 "C06": "SSA allocation-site analysis for per-filter subscription objects, path analysis of fan-out (one enqueue per session, gate, retain cleared first), QoS cap decision table, shared-message write inventory, tree tables shared with C04/C05, window-slot return rule",
 "C07": "static path analysis (TRACE): ack-after-enqueue ordering, who-may-send PUBACK/PUBCOMP inventory, per-QoS decision table of the publish handler, delete-before-PUBCOMP ordering and release-inside-the-ack-closure rule, request-token inventory, resume-leaves-the-session-alone table",
 "C08": "static path analysis over the type-checked AST (TRACE engine): store-before-send, ack-deletes, resend completeness and order, session-present table, Setup clean/resume tables, writer inventory, QoS-cap copy rule, packet-store map/listing rules shared with C18",
 "C09": "static path analysis of the client's publish/ack/teardown paths, who-may-complete inventory of futures, unchecked type-assertion justification, tomb Go/Wait typestate, no-wait-under-the-client-mutex lockset rule, error-origin rule for goroutine functions, id-counter rules shared with C18",
 "C10": "decision-table extraction from the client's inbound PUBLISH/PUBREL handlers over (QoS, callback mode, stored) valuations; no-ack-after-callback-error path rule; close-closes-the-carrier rule shared with C19; detection window (LIN)",
 "C11": "writer inventory and decision table of the retained tree over (retain flag, payload empty), copy-before-clear origin rule, replay path rule, search table and prune rule (shared with C04/C05), will-stored-before-CONNACK rule",
 "C12": "writer inventories of Client.will / Client.state with path conditions, decision table of cleanup over (state, will), single-call-site and ordering rule for the reaper, will-before-CONNACK ordering, receive-error-closes-the-carrier rule shared with C19",
 "C13": "must-hold lockset analysis of the backend registry (LOCK), path analysis of Setup's close-wait-register sequence and of Terminate (guarded unregister), session-recorded-right-after-Setup ordering, resume-leaves-the-session-alone table, will writer rule",
 "C14": "type-assertion justification (ASSERT), relational bounds analysis of the decode side (LIN), error-origin and error-handling rules over every goroutine function, escape-case inventory of blocking channel operations, reachability of explicit panics, exhaustive packet switch, ack-queue capacity rule, shutdown-coverage rule, collector guards",
 "C15": "SSA origin analysis of the resend slice (no map order), monotone sort-key / order-preserving key-list rule for store listings, goroutine/receiver multiplicity inventory, lockset at every session-queue send, FIFO rule for the service queue",
 "C16": "token site inventory vs the token table, per-QoS path rule for the dequeuer iteration, take-before-send ordering, capacity == fill == configured window (make() followed through helpers), one non-blocking slot return per completed handshake, settings-applied-on-every-Setup-path table",
 "C17": "static path analysis of client.Service: book-before-dispatch ordering, future attach-or-cancel on every path, fresh tomb per Start, protect-before-run, resubscribe-all rule; inherits the client's Go/Wait typestate, error-origin, resend and prune rules",
 "C18": "three-point abstract interpretation of NextID (never zero), single-increment path rule, lockset analysis, GetID case table vs types with an ID field, packet-store map/listing rules with SSA origins, direction routing table, one-draw delegate rule",
 "C19": "must-hold lockset analysis of BaseConn (send/receive mutex discipline), error-closes-carrier and flush-before-close path rules, WebSocket Close write-freedom and no-message-limit rule, shipped-slice and pooled-buffer rules shared with C03",
 "C20": "static path analysis of the broker's protocol gate: checked first-packet assertion, auth-failure table and credentials-lookup table, exhaustive packet switch table, id/return-code correlation origins, at most one CONNACK per path, request/ack token inventories",
}

def from_evidence(i):
    ev = json.load(open("/verif/evidence/%s.json" % i))
    cov = ev["coverage"]
    text = cov["explanation"]
    rules = ", ".join("%s[%d]" % (r["rule"].split("/")[1], r["instances"]) for r in cov["rules"])
    nd = "; ".join(cov.get("not_decided") or [])
    asum = "; ".join(ev.get("assumptions") or [])
    text = ("Level 'other': decides structural clauses (necessary conditions) of the property on every control-flow path of the anchored code, from the type-checked source only; it does not decide the behaviour over runtime values/schedules. " + text +
            " Why this level: the named clauses are visible in the shape of the code and a violation of any of them breaks the property; the remaining clauses quantify over runtime quantities no sound static argument in reach can bound.")
    note = ("Rules run (instances on the pinned tree): " + rules + ". NOT decided: " + (nd or "-") + ". Assumes/trusts: go/packages+go/types+go/ssa (x/tools v0.29.0), the reference tables frozen in the checker (DESIGN.md section 3)" + ("; " + asum if asum else "") +
            ". An anchor that cannot be found, an instance count below the confirmed floor, a type error or an analysis panic is reported as a violation (UNDECIDED).")
    return text, note

for n in range(1, 21):
    i = "C%02d" % n
    text, note = from_evidence(i)
    claim(i, TECH[i], text, note, "DESIGN.md section 3 " + i)

def main():
    checks, nas = [], []
    for i in sorted(P):
        p = P[i]
        if p["claimed"]:
            checks.append({
                "property_id": i,
                "quick_cmd": "./check.sh %s quick" % i,
                "thorough_cmd": "./check.sh %s thorough" % i,
                "evidence_file": "/verif/evidence/%s.json" % i,
                "replay_cmd_template": "./check.sh %s quick   # re-decides the rule on the current tree; violation details are in {path}" % i,
                "engine": "gomqttcheck",
                "level_claimed": {"category": "other", "text": p["text"], "design_ref": p["ref"]},
                "level_note": p["note"],
                "technique": p["technique"],
            })
        else:
            nas.append({"property_id": i, "reason": p["reason"]})
    m = {
        "version": 1,
        "setup_cmd": "cd /verif/checker && GOFLAGS=-mod=mod GOPROXY=off GOSUMDB=off GOTOOLCHAIN=local GOWORK=off go build -o /verif/bin/gomqttcheck .",
        "hooks": {"guard": "verif", "enable": "none needed: static analysis reads /repo's sources, nothing is instrumented or executed",
                  "baseline_off_cmd": BASELINE, "source_commits": [], "add_only": True},
        "engines": [{"name": "gomqttcheck", "path": "/verif/checker", "serves_properties": [c["property_id"] for c in checks],
                     "kind_free_text": "repository-specific static analyser in Go over go/packages + go/types (+ go/ssa where a value must be identified): path-sensitive trace extraction with finite valuations (TRACE), locksets (LOCK), value origins (ORIGIN), writer/caller inventories (WHO), type-assertion justification (ASSERT), table extraction (TABLE)"}],
        "checks": checks,
        "not_applicable": nas,
        "notes": "Technique family: static analysis only. Every check loads and type-checks /repo's current working tree on every run; nothing from /repo is executed. Level 'other' everywhere: each check decides named structural clauses (necessary conditions) and lists what it does not decide in evidence coverage.not_decided. Known genuine defects that are not repaired are listed in /verif/known_findings.json.",
    }
    json.dump(m, open("/verif/MANIFEST.json", "w"), indent=1)
    print("claimed:", [c["property_id"] for c in checks])

if __name__ == "__main__":
    main()
