#!/usr/bin/env python3
"""Regenerates MANIFEST.json from the table below (kept in one place so it stays valid)."""
import json, sys

BASELINE = "for m in $(cat /w/out/gomods.txt); do MF=$(cd /repo/$m && . /w/out/goenv.sh && gomodflag); (cd /repo/$m && go test $MF -json -vet=off -count=1 -timeout 25m ./...); done"

# id -> dict(claimed, text, note, technique, design_ref, na_reason)
P = {}
def claim(i, technique, text, note, ref):
    P[i] = dict(claimed=True, technique=technique, text=text, note=note, ref=ref)
def na(i, reason):
    P[i] = dict(claimed=False, reason=reason)

PENDING = "static rules for this property are designed (DESIGN.md section 3) but not yet built in this commit; no claim is made until the check exists"
for n in range(1, 21):
    na("C%02d" % n, PENDING)

claim("C08", "static path analysis over the type-checked AST (TRACE engine): store-before-send, ack-deletes, resend order, session-present table, Setup clean/resume tables, writer inventory",
      "Decides on every control-flow path of the broker's dequeuer, acknowledgement handlers, connect handler and MemoryBackend.Setup/Publish the structural clauses of the property: recorded before transmitted, deleted/replaced on acknowledgement, resent with DUP after CONNACK and before new deliveries, session-present == (!clean && resumed), clean discards, stored queue survives resume, offline enqueue non-blocking. Each is a necessary condition (several are literal sentences of the statement); the behaviour over all runtime failure positions is not decided.",
      "Trusted: go/types + go/packages (x/tools v0.29.0), the frozen reference tables in the checker; assumes Session implementations honour their documented contract; field keys are instance-insensitive.",
      "DESIGN.md §3 C08")

def main():
    checks, nas = [], []
    for i in sorted(P):
        p = P[i]
        if p["claimed"]:
            checks.append({
                "property_id": i,
                "quick_cmd": "./check.sh %s quick" % i,
                "thorough_cmd": "./check.sh %s thorough" % i,
                "evidence_file": "/verif/evidence/%s.json" % i,
                "replay_cmd_template": "./check.sh %s quick   # re-decides the rule on the current tree; violation details are in {path}" % i,
                "engine": "gomqttcheck",
                "level_claimed": {"category": "other", "text": p["text"], "design_ref": p["ref"]},
                "level_note": p["note"],
                "technique": p["technique"],
            })
        else:
            nas.append({"property_id": i, "reason": p["reason"]})
    m = {
        "version": 1,
        "setup_cmd": "cd /verif/checker && GOFLAGS=-mod=mod GOPROXY=off GOSUMDB=off GOTOOLCHAIN=local GOWORK=off go build -o /verif/bin/gomqttcheck .",
        "hooks": {"guard": "verif", "enable": "none needed: static analysis reads /repo's sources, nothing is instrumented or executed",
                  "baseline_off_cmd": BASELINE, "source_commits": [], "add_only": True},
        "engines": [{"name": "gomqttcheck", "path": "/verif/checker", "serves_properties": [c["property_id"] for c in checks],
                     "kind_free_text": "repository-specific static analyser in Go over go/packages + go/types (+ go/ssa where a value must be identified): path-sensitive trace extraction with finite valuations (TRACE), locksets (LOCK), value origins (ORIGIN), writer/caller inventories (WHO), type-assertion justification (ASSERT), table extraction (TABLE)"}],
        "checks": checks,
        "not_applicable": nas,
        "notes": "Technique family: static analysis only. Every check loads and type-checks /repo's current working tree on every run; nothing from /repo is executed. Level 'other' everywhere: each check decides named structural clauses (necessary conditions) and lists what it does not decide in evidence coverage.not_decided. Known genuine defects that are not repaired are listed in /verif/known_findings.json.",
    }
    json.dump(m, open("/verif/MANIFEST.json", "w"), indent=1)
    print("claimed:", [c["property_id"] for c in checks])

if __name__ == "__main__":
    main()
