package main

// ORIGIN: backward value-origin tracing on go/ssa with bounded interprocedural descent.

import (
	"fmt"
	"go/constant"
	"go/token"
	"go/types"
	"sort"
	"strings"

	"golang.org/x/tools/go/ssa"
)

type OriginKind int

const (
	OFresh    OriginKind = iota // make, composite literal, new, string->[]byte conversion, constant
	OField                      // loaded from a struct field (alias of shared storage)
	OParam                      // a parameter of the root function
	OGlobal                     // package level variable
	OElem                       // element loaded from a container (slice/map/chan) of some origin
	OUnsafe                     // went through unsafe.Pointer
	OUnknown                    // external call result, etc.
	OSubslice                   // slice expression over another origin (kept as a wrapper)
)

type Origin struct {
	Kind  OriginKind
	Field *types.Var     // OField
	Param *ssa.Parameter // OParam
	Of    *Origin        // OElem / OSubslice: container origin
	Pos   token.Pos
	Desc  string
}

func (o Origin) String() string {
	switch o.Kind {
	case OFresh:
		return "FRESH(" + o.Desc + ")"
	case OField:
		return "ALIAS(field " + o.Field.Name() + ")"
	case OParam:
		return "PARAM(" + o.Param.Name() + ")"
	case OGlobal:
		return "GLOBAL(" + o.Desc + ")"
	case OElem:
		return "ELEM-OF(" + o.Of.String() + ")"
	case OUnsafe:
		return "UNSAFE"
	case OSubslice:
		return "SLICE-OF(" + o.Of.String() + ")"
	}
	return "UNKNOWN(" + o.Desc + ")"
}

type originTracer struct {
	p          *Program
	depth      int
	visited    map[string]bool
	work       int
	pruneConst bool // prune callee branches decided by constant boolean arguments
}

func (p *Program) newOriginTracer() *originTracer {
	return &originTracer{p: p, visited: map[string]bool{}}
}

type bindings struct {
	args   map[*ssa.Parameter]ssa.Value
	free   map[*ssa.FreeVar]ssa.Value
	caller *bindings
}

// origins returns the set of possible origins of v.
func (ot *originTracer) origins(v ssa.Value, b *bindings, depth int) []Origin {
	ot.work++
	if depth > 6 {
		return []Origin{{Kind: OUnknown, Desc: "depth"}}
	}
	key := fmt.Sprintf("%p/%p/%d", v, b, depth)
	if ot.visited[key] {
		return nil
	}
	ot.visited[key] = true
	defer delete(ot.visited, key)
	switch x := v.(type) {
	case *ssa.Const:
		return []Origin{{Kind: OFresh, Desc: "constant"}}
	case *ssa.MakeSlice:
		return []Origin{{Kind: OFresh, Desc: "make", Pos: x.Pos()}}
	case *ssa.MakeMap, *ssa.MakeChan, *ssa.MakeClosure:
		return []Origin{{Kind: OFresh, Desc: "make"}}
	case *ssa.Alloc:
		// the address of a fresh cell; for values loaded from it see UnOp
		return []Origin{{Kind: OFresh, Desc: "alloc", Pos: x.Pos()}}
	case *ssa.Slice:
		var out []Origin
		for _, o := range ot.origins(x.X, b, depth) {
			if o.Kind == OFresh {
				out = append(out, o)
			} else {
				oo := o
				out = append(out, Origin{Kind: OSubslice, Of: &oo, Pos: x.Pos()})
			}
		}
		return out
	case *ssa.Convert:
		// []byte(string) and string([]byte) copy
		from, to := x.X.Type().Underlying(), x.Type().Underlying()
		_, fs := from.(*types.Slice)
		_, ts := to.(*types.Slice)
		fb, fok := from.(*types.Basic)
		tb, tok := to.(*types.Basic)
		if (fs && tok && tb.Info()&types.IsString != 0) || (ts && fok && fb.Info()&types.IsString != 0) {
			return []Origin{{Kind: OFresh, Desc: "string/bytes conversion copies", Pos: x.Pos()}}
		}
		if fok && fb.Kind() == types.UnsafePointer || tok && tb.Kind() == types.UnsafePointer {
			return []Origin{{Kind: OUnsafe, Pos: x.Pos()}}
		}
		return ot.origins(x.X, b, depth)
	case *ssa.ChangeType:
		return ot.origins(x.X, b, depth)
	case *ssa.ChangeInterface:
		return ot.origins(x.X, b, depth)
	case *ssa.MakeInterface:
		return ot.origins(x.X, b, depth)
	case *ssa.TypeAssert:
		return ot.origins(x.X, b, depth)
	case *ssa.Phi:
		var out []Origin
		for _, e := range x.Edges {
			out = append(out, ot.origins(e, b, depth)...)
		}
		return out
	case *ssa.Extract:
		if call, ok := x.Tuple.(*ssa.Call); ok {
			return ot.callOrigins(call, x.Index, b, depth)
		}
		if _, ok := x.Tuple.(*ssa.Lookup); ok {
			return ot.origins(x.Tuple, b, depth)
		}
		if ta, ok := x.Tuple.(*ssa.TypeAssert); ok {
			return ot.origins(ta.X, b, depth)
		}
		return []Origin{{Kind: OUnknown, Desc: "extract"}}
	case *ssa.Call:
		return ot.callOrigins(x, 0, b, depth)
	case *ssa.Parameter:
		if b != nil {
			if a, ok := b.args[x]; ok {
				return ot.origins(a, b.caller, depth)
			}
		}
		if x.Parent() != nil && x.Parent().Parent() != nil {
			// parameter of a function literal: its values are the arguments at the literal's call sites
			return ot.closureParamOrigins(x, depth)
		}
		return []Origin{{Kind: OParam, Param: x}}
	case *ssa.FreeVar:
		if b != nil {
			if a, ok := b.free[x]; ok {
				return ot.origins(a, b.caller, depth)
			}
		}
		return []Origin{{Kind: OUnknown, Desc: "free variable " + x.Name()}}
	case *ssa.Global:
		return []Origin{{Kind: OGlobal, Desc: x.Name()}}
	case *ssa.FieldAddr:
		return []Origin{{Kind: OField, Field: fieldOf(x.X.Type(), x.Field), Pos: x.Pos()}}
	case *ssa.Field:
		return []Origin{{Kind: OField, Field: fieldOf(x.X.Type(), x.Field), Pos: x.Pos()}}
	case *ssa.IndexAddr:
		var out []Origin
		for _, o := range ot.origins(x.X, b, depth) {
			oo := o
			out = append(out, Origin{Kind: OElem, Of: &oo, Pos: x.Pos()})
		}
		return out
	case *ssa.Lookup:
		var out []Origin
		for _, o := range ot.origins(x.X, b, depth) {
			oo := o
			out = append(out, Origin{Kind: OElem, Of: &oo, Pos: x.Pos()})
		}
		return out
	case *ssa.Index:
		var out []Origin
		for _, o := range ot.origins(x.X, b, depth) {
			oo := o
			out = append(out, Origin{Kind: OElem, Of: &oo, Pos: x.Pos()})
		}
		return out
	case *ssa.UnOp:
		if x.Op == token.MUL { // load
			switch a := x.X.(type) {
			case *ssa.FieldAddr:
				return []Origin{{Kind: OField, Field: fieldOf(a.X.Type(), a.Field), Pos: x.Pos()}}
			case *ssa.Alloc:
				return ot.storedInto(a, a.Parent(), b, depth)
			case *ssa.FreeVar:
				// a captured variable: follow to the captured cell
				if b != nil {
					if cell, ok := b.free[a]; ok {
						if al, ok := cell.(*ssa.Alloc); ok {
							return ot.storedInto(al, al.Parent(), b.caller, depth)
						}
						return ot.origins(cell, b.caller, depth)
					}
				}
				// without bindings: stores through the free variable in this function
				return ot.storesThrough(a, x.Parent(), b, depth)
			case *ssa.Global:
				return []Origin{{Kind: OGlobal, Desc: a.Name()}}
			case *ssa.IndexAddr:
				return ot.origins(a, b, depth)
			case *ssa.Parameter:
				return []Origin{{Kind: OElem, Of: &Origin{Kind: OParam, Param: a}}}
			}
			return ot.origins(x.X, b, depth)
		}
		if x.Op == token.ARROW {
			return []Origin{{Kind: OElem, Of: &Origin{Kind: OUnknown, Desc: "channel"}}}
		}
		return []Origin{{Kind: OFresh, Desc: "unary"}}
	case *ssa.BinOp:
		return []Origin{{Kind: OFresh, Desc: "binop"}}
	}
	return []Origin{{Kind: OUnknown, Desc: fmt.Sprintf("%T", v)}}
}

func fieldOf(t types.Type, idx int) *types.Var {
	if p, ok := t.Underlying().(*types.Pointer); ok {
		t = p.Elem()
	}
	if st, ok := t.Underlying().(*types.Struct); ok && idx < st.NumFields() {
		return st.Field(idx)
	}
	return nil
}

// closureParamOrigins resolves a parameter of a function literal to the arguments it can be called with:
// the literal is followed from its creation to direct calls and, when it is handed to an in-repo function
// as an argument, to the calls of that function's parameter (also through further hand-overs and recursion).
// Any other use of the literal (stored, returned, sent, handed to an external function) is UNKNOWN.
func (ot *originTracer) closureParamOrigins(p *ssa.Parameter, depth int) []Origin {
	f := p.Parent()
	idx := -1
	for i, q := range f.Params {
		if q == p {
			idx = i
		}
	}
	parent := f.Parent()
	if idx < 0 || parent == nil {
		return []Origin{{Kind: OUnknown, Desc: "literal parameter " + p.Name()}}
	}
	var out []Origin
	var vals []ssa.Value
	for _, g := range withAnon(parent) {
		for _, blk := range g.Blocks {
			for _, ins := range blk.Instrs {
				if mc, ok := ins.(*ssa.MakeClosure); ok && mc.Fn == f {
					vals = append(vals, mc)
				}
				for _, op := range ins.Operands(nil) {
					if *op == ssa.Value(f) {
						if _, isMC := ins.(*ssa.MakeClosure); !isMC {
							out = append(out, ot.useOfFuncValue(f, ins, idx, depth, map[string]bool{})...)
						}
					}
				}
			}
		}
	}
	for _, v := range vals {
		refs := v.Referrers()
		if refs == nil {
			out = append(out, Origin{Kind: OUnknown, Desc: "literal without referrers"})
			continue
		}
		for _, ref := range *refs {
			out = append(out, ot.useOfFuncValue(v, ref, idx, depth, map[string]bool{})...)
		}
	}
	if len(out) == 0 {
		out = append(out, Origin{Kind: OFresh, Desc: "literal never called"})
	}
	return out
}

// useOfFuncValue: one use (instruction ins) of the function value fv; idx is the parameter of interest.
func (ot *originTracer) useOfFuncValue(fv ssa.Value, ins ssa.Instruction, idx, depth int, seen map[string]bool) []Origin {
	ci, ok := ins.(ssa.CallInstruction)
	if !ok {
		if _, isDbg := ins.(*ssa.DebugRef); isDbg {
			return nil
		}
		return []Origin{{Kind: OUnknown, Desc: fmt.Sprintf("function value escapes through %T", ins)}}
	}
	com := ci.Common()
	var out []Origin
	if com.Value == fv && !com.IsInvoke() {
		if idx < len(com.Args) {
			out = append(out, ot.origins(com.Args[idx], nil, depth+1)...)
		}
	}
	for j, a := range com.Args {
		if a != fv {
			continue
		}
		callee := com.StaticCallee()
		if callee == nil || callee.Blocks == nil || callee.Pkg == nil || !strings.HasPrefix(callee.Pkg.Pkg.Path(), modPath) || j >= len(callee.Params) {
			out = append(out, Origin{Kind: OUnknown, Desc: "function value handed to an unresolved or external callee"})
			continue
		}
		out = append(out, ot.paramCallArgs(callee, j, idx, depth, seen)...)
	}
	return out
}

// paramCallArgs: origins of argument idx at every call of parameter j of g (transitively through hand-overs).
func (ot *originTracer) paramCallArgs(g *ssa.Function, j, idx, depth int, seen map[string]bool) []Origin {
	key := fmt.Sprintf("%p/%d", g, j)
	if seen[key] {
		return nil
	}
	seen[key] = true
	pv := g.Params[j]
	refs := pv.Referrers()
	var out []Origin
	if refs == nil {
		return nil
	}
	for _, ref := range *refs {
		out = append(out, ot.useOfFuncValue(pv, ref, idx, depth, seen)...)
	}
	return out
}

// storedInto: union of the origins of all values stored into the cell (in fn and its closures).
func (ot *originTracer) storedInto(cell *ssa.Alloc, fn *ssa.Function, b *bindings, depth int) []Origin {
	var out []Origin
	n := 0
	var visit func(f *ssa.Function, addr ssa.Value, fb *bindings)
	visit = func(f *ssa.Function, addr ssa.Value, fb *bindings) {
		for _, blk := range f.Blocks {
			for _, ins := range blk.Instrs {
				switch s := ins.(type) {
				case *ssa.Store:
					if s.Addr == addr {
						n++
						out = append(out, ot.origins(s.Val, fb, depth+1)...)
					}
				case *ssa.MakeClosure:
					cf := s.Fn.(*ssa.Function)
					for i, bind := range s.Bindings {
						if bind == addr {
							nb := &bindings{free: map[*ssa.FreeVar]ssa.Value{}, caller: fb}
							for j, bb := range s.Bindings {
								nb.free[cf.FreeVars[j]] = bb
							}
							visit(cf, cf.FreeVars[i], nb)
						}
					}
				}
			}
		}
	}
	visit(fn, cell, b)
	if n == 0 {
		out = append(out, Origin{Kind: OFresh, Desc: "zero value"})
	}
	return out
}

func (ot *originTracer) storesThrough(fv *ssa.FreeVar, fn *ssa.Function, b *bindings, depth int) []Origin {
	var out []Origin
	for _, blk := range fn.Blocks {
		for _, ins := range blk.Instrs {
			if s, ok := ins.(*ssa.Store); ok && s.Addr == fv {
				out = append(out, ot.origins(s.Val, b, depth+1)...)
			}
		}
	}
	out = append(out, Origin{Kind: OUnknown, Desc: "captured variable " + fv.Name()})
	return out
}

func (ot *originTracer) callOrigins(call *ssa.Call, result int, b *bindings, depth int) []Origin {
	com := call.Common()
	if bi, ok := com.Value.(*ssa.Builtin); ok {
		switch bi.Name() {
		case "append":
			// the result aliases the first argument's backing array or is fresh; never the appended values' array
			out := ot.origins(com.Args[0], b, depth)
			out = append(out, Origin{Kind: OFresh, Desc: "append growth"})
			return out
		case "len", "cap", "copy", "min", "max":
			return []Origin{{Kind: OFresh, Desc: bi.Name()}}
		}
		return []Origin{{Kind: OUnknown, Desc: "builtin " + bi.Name()}}
	}
	callee := com.StaticCallee()
	if callee == nil || callee.Blocks == nil {
		name := "dynamic"
		if callee != nil {
			name = callee.String()
		}
		// well-known copying functions of the standard library
		if callee != nil {
			switch callee.String() {
			case "bytes.Clone", "slices.Clone", "strings.Clone":
				return []Origin{{Kind: OFresh, Desc: callee.String()}}
			}
		}
		return []Origin{{Kind: OUnknown, Desc: "call " + name}}
	}
	if callee.Pkg == nil || !strings.HasPrefix(callee.Pkg.Pkg.Path(), modPath) {
		return []Origin{{Kind: OUnknown, Desc: "external call " + callee.String()}}
	}
	nb := &bindings{args: map[*ssa.Parameter]ssa.Value{}, free: map[*ssa.FreeVar]ssa.Value{}, caller: b}
	for i, p := range callee.Params {
		if i < len(com.Args) {
			nb.args[p] = com.Args[i]
		}
	}
	if mc, ok := com.Value.(*ssa.MakeClosure); ok {
		for j, bb := range mc.Bindings {
			nb.free[callee.FreeVars[j]] = bb
		}
	}
	var out []Origin
	live := map[*ssa.BasicBlock]bool{}
	if ot.pruneConst {
		// reachability with branches on constant boolean arguments decided
		constOf := func(v ssa.Value) (bool, bool) {
			neg := false
			if u, ok := v.(*ssa.UnOp); ok && u.Op == token.NOT {
				v, neg = u.X, true
			}
			if p, ok := v.(*ssa.Parameter); ok {
				if a, ok := nb.args[p]; ok {
					if k, ok := a.(*ssa.Const); ok && k.Value != nil && k.Value.Kind() == constant.Bool {
						return constant.BoolVal(k.Value) != neg, true
					}
				}
			}
			return false, false
		}
		stack := []*ssa.BasicBlock{callee.Blocks[0]}
		for len(stack) > 0 {
			b := stack[len(stack)-1]
			stack = stack[:len(stack)-1]
			if live[b] {
				continue
			}
			live[b] = true
			if len(b.Instrs) > 0 {
				if iff, ok := b.Instrs[len(b.Instrs)-1].(*ssa.If); ok {
					if val, known := constOf(iff.Cond); known {
						if val {
							stack = append(stack, b.Succs[0])
						} else {
							stack = append(stack, b.Succs[1])
						}
						continue
					}
				}
			}
			stack = append(stack, b.Succs...)
		}
	}
	for _, blk := range callee.Blocks {
		if ot.pruneConst && !live[blk] {
			continue
		}
		for _, ins := range blk.Instrs {
			if r, ok := ins.(*ssa.Return); ok && result < len(r.Results) {
				out = append(out, ot.origins(r.Results[result], nb, depth+1)...)
			}
		}
	}
	return out
}

// returnOrigins: origins of result i of every return of fn.
func (ot *originTracer) returnOrigins(fn *ssa.Function, i int) []Origin {
	var out []Origin
	for _, blk := range fn.Blocks {
		for _, ins := range blk.Instrs {
			if r, ok := ins.(*ssa.Return); ok && i < len(r.Results) {
				out = append(out, ot.origins(r.Results[i], nil, 0)...)
			}
		}
	}
	return out
}

func originStrings(os []Origin) []string {
	set := map[string]bool{}
	for _, o := range os {
		set[o.String()] = true
	}
	var out []string
	for s := range set {
		out = append(out, s)
	}
	sort.Strings(out)
	return out
}

// aliasesField: some origin is (a slice of) field f itself (not an element of it).
func aliasesField(os []Origin, f *types.Var) bool {
	for _, o := range os {
		oo := o
		for oo.Kind == OSubslice {
			oo = *oo.Of
		}
		if oo.Kind == OField && oo.Field == f {
			return true
		}
	}
	return false
}

// ------------------------------------------------------------------ SSA CFG helpers

// inCycle: block b lies on a cycle of its function's CFG.
func inCycle(b *ssa.BasicBlock) bool {
	seen := map[*ssa.BasicBlock]bool{}
	var stack []*ssa.BasicBlock
	stack = append(stack, b.Succs...)
	for len(stack) > 0 {
		x := stack[len(stack)-1]
		stack = stack[:len(stack)-1]
		if x == b {
			return true
		}
		if seen[x] {
			continue
		}
		seen[x] = true
		stack = append(stack, x.Succs...)
	}
	return false
}

// sameLoop: a cycle through b also passes through a (a is re-executed whenever b is).
func reaches(from, to *ssa.BasicBlock) bool {
	seen := map[*ssa.BasicBlock]bool{}
	stack := []*ssa.BasicBlock{from}
	for len(stack) > 0 {
		x := stack[len(stack)-1]
		stack = stack[:len(stack)-1]
		if x == to {
			return true
		}
		if seen[x] {
			continue
		}
		seen[x] = true
		stack = append(stack, x.Succs...)
	}
	return false
}

// allFunctions: fn and its anonymous functions, recursively.
func withAnon(fn *ssa.Function) []*ssa.Function {
	out := []*ssa.Function{fn}
	for _, a := range fn.AnonFuncs {
		out = append(out, withAnon(a)...)
	}
	return out
}
