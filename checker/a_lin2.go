package main

// LIN, part 2: the interpreter (statements, expressions, calls, loops) and function summaries.

import (
	"fmt"
	"go/ast"
	"go/constant"
	"go/token"
	"go/types"
	"strings"

	"golang.org/x/tools/go/types/typeutil"
)

type lframe struct {
	brk func(*lstate)
	cnt func(*lstate)
	ret func(*lstate, []*lval)
}

const linMaxPaths = 30000

// summary computes (once) the path summary of an in-repo function.
func (a *linAnalysis) summary(f *types.Func, root bool) *lsummary {
	if s, ok := a.sums[f]; ok {
		return s
	}
	fi := a.p.ByObj[f]
	if fi == nil || fi.Decl.Body == nil {
		return nil
	}
	s := &lsummary{fi: fi, inProg: true}
	a.sums[f] = s
	// save the analysis context of the caller
	saved := struct {
		cur    *lsummary
		natoms int
		probe  int
		info   *types.Info
		root   bool
	}{a.cur, a.natoms, a.probe, a.info, a.root}
	a.cur, a.natoms, a.probe, a.info, a.root = s, 0, 0, fi.Pkg.TypesInfo, root
	st := &lstate{env: map[types.Object]*lval{}, flds: map[string]*lval{}}
	sig := f.Type().(*types.Signature)
	bind := func(v *types.Var) {
		pv := a.freshFor(st, v.Type())
		s.params = append(s.params, pv)
		if v.Name() != "" && v.Name() != "_" {
			st.env[v] = pv
		}
	}
	if sig.Recv() != nil {
		bind(sig.Recv())
	}
	for i := 0; i < sig.Params().Len(); i++ {
		bind(sig.Params().At(i))
	}
	savedNamed := a.named
	a.named = nil
	defer func() { a.named = savedNamed }()
	if sig.Results().Len() > 0 && sig.Results().At(0).Name() != "" {
		// named results start as zero values; a bare return hands back their current values
		for i := 0; i < sig.Results().Len(); i++ {
			rv := sig.Results().At(i)
			a.named = append(a.named, rv)
			if rv.Name() != "_" {
				st.env[rv] = a.zero(rv.Type())
			}
		}
	}
	npaths := 0
	fr := &lframe{ret: func(st *lstate, res []*lval) {
		if a.probe > 0 {
			return
		}
		npaths++
		if npaths > linMaxPaths {
			a.over = true
			return
		}
		s.paths = append(s.paths, &lpath{cons: st.cons[:len(st.cons):len(st.cons)], results: res, pre: st.pend})
	}}
	a.stmts(st, fi.Decl.Body.List, fr, func(st *lstate) {
		// fell off the end: a function without results
		fr.ret(st, nil)
	})
	if a.over {
		a.undecided("path budget exhausted", fi.Decl.Pos())
		a.over = false
	}
	a.Paths += npaths
	s.natoms = a.natoms
	s.inProg = false
	a.Undec = append(a.Undec, s.undec...)
	a.cur, a.natoms, a.probe, a.info, a.root = saved.cur, saved.natoms, saved.probe, saved.info, saved.root
	return s
}

// ---------------------------------------------------------------- statements

func (a *linAnalysis) stmts(st *lstate, list []ast.Stmt, fr *lframe, k func(*lstate)) {
	if len(list) == 0 {
		k(st)
		return
	}
	a.stmt(st, list[0], fr, func(s *lstate) { a.stmts(s, list[1:], fr, k) })
}

func (a *linAnalysis) stmt(st *lstate, s ast.Stmt, fr *lframe, k func(*lstate)) {
	if a.over {
		return
	}
	switch x := s.(type) {
	case nil, *ast.EmptyStmt:
		k(st)
	case *ast.BlockStmt:
		a.stmts(st, x.List, fr, k)
	case *ast.ExprStmt:
		if call, ok := ast.Unparen(x.X).(*ast.CallExpr); ok {
			if a.isPanic(call) {
				for _, arg := range call.Args {
					a.expr(st, arg)
				}
				return // path ends; explicit panics are discharged by C14/PANIC
			}
			a.callStmt(st, call, func(s *lstate, _ []*lval) { k(s) })
			return
		}
		a.expr(st, x.X)
		k(st)
	case *ast.DeclStmt:
		gd, ok := x.Decl.(*ast.GenDecl)
		if !ok || gd.Tok != token.VAR {
			k(st)
			return
		}
		for _, sp := range gd.Specs {
			vs := sp.(*ast.ValueSpec)
			for i, n := range vs.Names {
				obj := a.info.Defs[n]
				if obj == nil {
					continue
				}
				if i < len(vs.Values) {
					st.env[obj] = a.expr(st, vs.Values[i])
				} else {
					st.env[obj] = a.zero(obj.Type())
				}
			}
		}
		k(st)
	case *ast.IncDecStmt:
		v := a.expr(st, x.X)
		d := int64(1)
		if x.Tok == token.DEC {
			d = -1
		}
		if v.kind == lkInt {
			a.store(st, x.X, &lval{kind: lkInt, lin: v.lin.add(leConst(d))})
		} else {
			a.store(st, x.X, a.freshFor(st, a.info.TypeOf(x.X)))
		}
		k(st)
	case *ast.AssignStmt:
		a.assign(st, x, k)
	case *ast.IfStmt:
		a.stmt(st, x.Init, fr, func(s0 *lstate) {
			a.cond(s0, x.Cond, func(s *lstate) {
				a.stmts(s, x.Body.List, fr, k)
			}, func(s *lstate) {
				if x.Else == nil {
					k(s)
				} else {
					a.stmt(s, x.Else, fr, k)
				}
			})
		})
	case *ast.ReturnStmt:
		if a.OnReturn != nil && a.probe == 0 {
			a.OnReturn(a, st, a.cur.fi.Name, x)
		}
		if len(x.Results) == 1 {
			if call, ok := ast.Unparen(x.Results[0]).(*ast.CallExpr); ok && a.isSummarisable(call) {
				a.callStmt(st, call, func(s *lstate, res []*lval) { fr.ret(s, res) })
				return
			}
		}
		var res []*lval
		for _, r := range x.Results {
			res = append(res, a.expr(st, r))
		}
		if len(x.Results) == 0 {
			for _, rv := range a.named {
				if v, ok := st.env[rv]; ok && v != nil {
					res = append(res, v)
				} else {
					res = append(res, a.freshFor(st, rv.Type()))
				}
			}
		}
		fr.ret(st, res)
	case *ast.BranchStmt:
		if x.Label != nil {
			a.undecided("labelled branch", x.Pos())
			return
		}
		switch x.Tok {
		case token.BREAK:
			if fr.brk != nil {
				fr.brk(st)
			}
		case token.CONTINUE:
			if fr.cnt != nil {
				fr.cnt(st)
			}
		default:
			a.undecided("goto/fallthrough", x.Pos())
		}
	case *ast.SwitchStmt:
		a.switchStmt(st, x, fr, k)
	case *ast.ForStmt:
		a.stmt(st, x.Init, fr, func(s *lstate) { a.loop(s, x.Cond, x.Post, x.Body, nil, fr, k) })
	case *ast.RangeStmt:
		a.loop(st, nil, nil, x.Body, x, fr, k)
	case *ast.DeferStmt:
		// a deferred call runs after the results are fixed; its arguments are evaluated now
		for _, arg := range x.Call.Args {
			a.expr(st, arg)
		}
		k(st)
	default:
		a.undecided(fmt.Sprintf("unsupported statement %T", s), s.Pos())
	}
}

func (a *linAnalysis) isPanic(call *ast.CallExpr) bool {
	if id, ok := ast.Unparen(call.Fun).(*ast.Ident); ok {
		if b, ok := a.info.Uses[id].(*types.Builtin); ok && b.Name() == "panic" {
			return true
		}
	}
	return false
}

func (a *linAnalysis) zero(t types.Type) *lval {
	switch {
	case isIntLike(t):
		return &lval{kind: lkInt, lin: leConst(0)}
	case isSeq(t):
		if arr, ok := t.Underlying().(*types.Array); ok {
			return &lval{kind: lkSeq, ln: leConst(arr.Len())}
		}
		return &lval{kind: lkSeq, ln: leConst(0)}
	case isNilable(t):
		return &lval{kind: lkErr, nil_: -1}
	}
	return &lval{}
}

// store writes v to the location lhs (identifier, field path, element, dereference).
func (a *linAnalysis) store(st *lstate, lhs ast.Expr, v *lval) {
	lhs = ast.Unparen(lhs)
	switch x := lhs.(type) {
	case *ast.Ident:
		if x.Name == "_" {
			return
		}
		obj := a.info.ObjectOf(x)
		if obj != nil {
			st.env[obj] = v
		}
	case *ast.SelectorExpr:
		a.expr(st, x.X)
		key := types.ExprString(x)
		st.flds[key] = v
		// a store through a prefix invalidates longer paths
		for k := range st.flds {
			if strings.HasPrefix(k, key+".") {
				delete(st.flds, k)
			}
		}
	case *ast.IndexExpr:
		a.expr(st, x) // evaluates the operand and records the bounds obligation
	case *ast.StarExpr:
		a.expr(st, x.X)
	default:
		a.undecided(fmt.Sprintf("unsupported assignment target %T", lhs), lhs.Pos())
	}
}

func (a *linAnalysis) assign(st *lstate, x *ast.AssignStmt, k func(*lstate)) {
	if x.Tok != token.ASSIGN && x.Tok != token.DEFINE {
		// compound assignment x op= y
		l := a.expr(st, x.Lhs[0])
		r := a.expr(st, x.Rhs[0])
		var op token.Token
		switch x.Tok {
		case token.ADD_ASSIGN:
			op = token.ADD
		case token.SUB_ASSIGN:
			op = token.SUB
		case token.MUL_ASSIGN:
			op = token.MUL
		default:
			a.store(st, x.Lhs[0], a.freshFor(st, a.info.TypeOf(x.Lhs[0])))
			k(st)
			return
		}
		a.store(st, x.Lhs[0], a.arith(st, op, l, r, a.info.TypeOf(x.Lhs[0])))
		k(st)
		return
	}
	if len(x.Rhs) == 1 && len(x.Lhs) > 1 {
		switch r := ast.Unparen(x.Rhs[0]).(type) {
		case *ast.CallExpr:
			a.callStmt(st, r, func(s *lstate, res []*lval) {
				for i, l := range x.Lhs {
					if i < len(res) && res[i] != nil {
						a.store(s, l, res[i])
					} else {
						a.store(s, l, a.freshFor(s, a.info.TypeOf(l)))
					}
				}
				k(s)
			})
			return
		default:
			// comma-ok forms: v, ok := m[k] / x.(T) / <-ch
			a.expr(st, x.Rhs[0])
			for _, l := range x.Lhs {
				a.store(st, l, a.freshFor(st, a.info.TypeOf(l)))
			}
			k(st)
			return
		}
	}
	if len(x.Rhs) == 1 {
		if call, ok := ast.Unparen(x.Rhs[0]).(*ast.CallExpr); ok && a.isSummarisable(call) {
			a.callStmt(st, call, func(s *lstate, res []*lval) {
				if len(res) > 0 && res[0] != nil {
					a.store(s, x.Lhs[0], res[0])
				} else {
					a.store(s, x.Lhs[0], a.freshFor(s, a.info.TypeOf(x.Lhs[0])))
				}
				k(s)
			})
			return
		}
	}
	vals := make([]*lval, len(x.Rhs))
	for i, r := range x.Rhs {
		vals[i] = a.expr(st, r)
	}
	for i, l := range x.Lhs {
		if i < len(vals) {
			a.store(st, l, vals[i])
		}
	}
	k(st)
}

func (a *linAnalysis) switchStmt(st *lstate, x *ast.SwitchStmt, fr *lframe, k func(*lstate)) {
	a.stmt(st, x.Init, fr, func(st *lstate) {
		var tag *lval
		if x.Tag != nil {
			tag = a.expr(st, x.Tag)
		}
		nfr := *fr
		nfr.brk = k
		var clauses []*ast.CaseClause
		var def *ast.CaseClause
		for _, c := range x.Body.List {
			cc := c.(*ast.CaseClause)
			if cc.List == nil {
				def = cc
			} else {
				clauses = append(clauses, cc)
			}
		}
		// each clause is taken when one of its expressions matches and no earlier clause matched; earlier
		// mismatches are not recorded for integer tags (dropping facts is sound), except for the default branch
		var rec func(s *lstate, i int)
		rec = func(s *lstate, i int) {
			if i == len(clauses) {
				if def != nil {
					a.stmts(s, def.Body, &nfr, k)
				} else {
					k(s)
				}
				return
			}
			cc := clauses[i]
			if tag == nil {
				// tagless: a chain of conditions (an or over the clause's expressions)
				var or ast.Expr
				for _, e := range cc.List {
					if or == nil {
						or = e
					} else {
						or = &ast.BinaryExpr{X: or, Op: token.LOR, Y: e}
					}
				}
				a.cond(s, or, func(t *lstate) { a.stmts(t, cc.Body, &nfr, k) }, func(f *lstate) { rec(f, i+1) })
				return
			}
			for _, e := range cc.List {
				t := s.clone()
				v := a.expr(t, e)
				if tag.kind == lkInt && v.kind == lkInt {
					d := tag.lin.sub(v.lin)
					t.assume(d)
					t.assume(d.scale(-1))
					if !a.feasible(t) {
						continue
					}
				}
				a.stmts(t, cc.Body, &nfr, k)
			}
			rec(s, i+1)
		}
		rec(st, 0)
	})
}

// ---------------------------------------------------------------- loops

type lcand struct {
	v    types.Object // integer variable assigned in the loop
	s    types.Object // sequence variable (nil: the candidate is v >= 0)
	mode int          // 0: see s; 2: v >= k; 3: v <= k (k: the constant value at loop entry)
	k    int64
	desc string
}

func (a *linAnalysis) candLin(st *lstate, c lcand) (LE, bool) {
	v := st.env[c.v]
	if v == nil || v.kind != lkInt {
		return LE{}, false
	}
	switch c.mode {
	case 2:
		return v.lin.sub(leConst(c.k)), true
	case 3:
		return leConst(c.k).sub(v.lin), true
	}
	if c.s == nil {
		return v.lin, true
	}
	s := st.env[c.s]
	if s == nil || s.kind != lkSeq {
		return LE{}, false
	}
	return s.ln.sub(v.lin), true
}

func (a *linAnalysis) assignedIn(nodes ...ast.Node) map[types.Object]bool {
	out := map[types.Object]bool{}
	mark := func(e ast.Expr) {
		if id, ok := ast.Unparen(e).(*ast.Ident); ok {
			if o := a.info.ObjectOf(id); o != nil {
				out[o] = true
			}
		}
	}
	for _, n := range nodes {
		if n == nil {
			continue
		}
		ast.Inspect(n, func(m ast.Node) bool {
			switch x := m.(type) {
			case *ast.AssignStmt:
				for _, l := range x.Lhs {
					mark(l)
				}
			case *ast.IncDecStmt:
				mark(x.X)
			case *ast.RangeStmt:
				if x.Key != nil {
					mark(x.Key)
				}
				if x.Value != nil {
					mark(x.Value)
				}
			case *ast.UnaryExpr:
				if x.Op == token.AND {
					mark(x.X) // address taken: may be written through the pointer
				}
			}
			return true
		})
	}
	return out
}

// loop analyses `for cond; ; post { body }` (rng == nil) or a range statement with candidate invariants.
func (a *linAnalysis) loop(st *lstate, cond ast.Expr, post ast.Stmt, body *ast.BlockStmt, rng *ast.RangeStmt, fr *lframe, k func(*lstate)) {
	var postNode ast.Node
	if post != nil {
		postNode = post
	}
	assigned := a.assignedIn(body, postNode)
	var coll *lval
	if rng != nil {
		coll = a.expr(st, rng.X)
		if rng.Tok == token.ASSIGN {
			a.undecided("range with assignment to existing variables", rng.Pos())
		}
	}
	// fields written in the loop are forgotten at the head
	fieldWrites := false
	ast.Inspect(body, func(m ast.Node) bool {
		if as, ok := m.(*ast.AssignStmt); ok {
			for _, l := range as.Lhs {
				if _, ok := ast.Unparen(l).(*ast.SelectorExpr); ok {
					fieldWrites = true
				}
			}
		}
		return true
	})
	// candidates over the variables live at the loop head
	var cands []lcand
	var seqs []types.Object
	for o, v := range st.env {
		if v.kind == lkSeq && !assigned[o] {
			seqs = append(seqs, o)
		}
	}
	sortObjs(seqs)
	var ints []types.Object
	for o := range assigned {
		if v := st.env[o]; v != nil && v.kind == lkInt {
			ints = append(ints, o)
		}
	}
	sortObjs(ints)
	for _, v := range ints {
		if ev := st.env[v]; ev != nil && ev.kind == lkInt && ev.lin.isConst() {
			// a counter never falls below / rises above its initial constant
			cands = append(cands, lcand{v: v, mode: 2, k: ev.lin.k, desc: fmt.Sprintf("%s >= %d", v.Name(), ev.lin.k)})
			cands = append(cands, lcand{v: v, mode: 3, k: ev.lin.k, desc: fmt.Sprintf("%s <= %d", v.Name(), ev.lin.k)})
		}
		cands = append(cands, lcand{v: v, desc: v.Name() + " >= 0"})
		for _, s := range seqs {
			cands = append(cands, lcand{v: v, s: s, desc: v.Name() + " <= len(" + s.Name() + ")"})
		}
	}
	// candidates must hold on entry
	var live []lcand
	for _, c := range cands {
		if l, ok := a.candLin(st, c); ok && a.prove(st.cons, l) {
			live = append(live, c)
		}
	}
	head := func() *lstate {
		h := st.clone()
		for o := range assigned {
			if old, ok := h.env[o]; ok && old != nil {
				h.env[o] = a.freshFor(h, o.Type())
			}
		}
		if fieldWrites {
			h.flds = map[string]*lval{}
		}
		for _, c := range live {
			if l, ok := a.candLin(h, c); ok {
				h.assume(l)
			}
		}
		return h
	}
	enter := func(h *lstate, kBody func(*lstate), kExit func(*lstate)) {
		switch {
		case rng != nil:
			ex := h.clone()
			kExit(ex)
			b := h
			if rng.Key != nil {
				if id, ok := rng.Key.(*ast.Ident); ok && id.Name != "_" {
					if o := a.info.ObjectOf(id); o != nil {
						iv := a.freshFor(b, o.Type())
						if iv.kind == lkInt && coll != nil && coll.kind == lkSeq {
							b.assume(iv.lin)
							b.assume(coll.ln.sub(iv.lin).sub(leConst(1)))
						}
						b.env[o] = iv
					}
				}
			}
			if rng.Value != nil {
				if id, ok := rng.Value.(*ast.Ident); ok && id.Name != "_" {
					if o := a.info.ObjectOf(id); o != nil {
						b.env[o] = a.freshFor(b, o.Type())
					}
				}
			}
			if coll != nil && coll.kind == lkSeq {
				b.assume(coll.ln.sub(leConst(1))) // the body runs only for a non-empty collection
			}
			kBody(b)
		case cond == nil:
			kBody(h)
		default:
			a.cond(h, cond, kBody, kExit)
		}
	}
	// Houdini: drop candidates that are not re-established at a back edge
	for iter := 0; iter < 12; iter++ {
		dropped := false
		a.probe++
		h := head()
		check := func(s *lstate) {
			var keep []lcand
			for _, c := range live {
				if l, ok := a.candLin(s, c); ok && a.prove(s.cons, l) {
					keep = append(keep, c)
				} else {
					dropped = true
				}
			}
			live = keep
		}
		bfr := &lframe{ret: func(*lstate, []*lval) {}, brk: func(*lstate) {}}
		back := func(s *lstate) {
			if post != nil {
				a.stmt(s, post, bfr, check)
			} else {
				check(s)
			}
		}
		bfr.cnt = back
		enter(h, func(b *lstate) { a.stmts(b, body.List, bfr, back) }, func(*lstate) {})
		a.probe--
		if !dropped {
			break
		}
		if iter == 11 {
			live = nil
		}
	}
	// final pass with the surviving invariants: obligations are recorded, exits continue
	h := head()
	nfr := *fr
	nfr.brk = k
	// termination: some linear ranking function r among ±v and w-v / v-w (v assigned in the loop, w not)
	// decreases by at least 1 on every back edge and is bounded below there; r is integer valued.
	type rank struct {
		desc string
		old  LE
		cur  func(*lstate) (LE, bool)
		ok   bool
	}
	var ranks []*rank
	if rng == nil && a.probe == 0 {
		var others []types.Object
		for o, v := range h.env {
			if v != nil && v.kind == lkInt && !assigned[o] {
				others = append(others, o)
			}
		}
		sortObjs(others)
		for _, v := range ints {
			v := v
			hv := h.env[v]
			if hv == nil || hv.kind != lkInt {
				continue
			}
			get := func(s *lstate) (LE, bool) {
				c := s.env[v]
				if c == nil || c.kind != lkInt {
					return LE{}, false
				}
				return c.lin, true
			}
			ranks = append(ranks, &rank{desc: v.Name(), old: hv.lin, cur: get, ok: true})
			ranks = append(ranks, &rank{desc: "-" + v.Name(), old: hv.lin.scale(-1), cur: func(s *lstate) (LE, bool) { l, ok := get(s); return l.scale(-1), ok }, ok: true})
			for _, w := range others {
				wl := h.env[w].lin
				ranks = append(ranks, &rank{desc: w.Name() + "-" + v.Name(), old: wl.sub(hv.lin), cur: func(s *lstate) (LE, bool) { l, ok := get(s); return wl.sub(l), ok }, ok: true})
			}
		}
	}
	entryVals := map[types.Object]*lval{}
	stepOne := map[types.Object]bool{}
	for _, v := range ints {
		entryVals[v] = st.env[v]
		stepOne[v] = true
	}
	backEdges := 0
	checkRank := func(s *lstate) {
		backEdges++
		for _, v := range ints {
			hv, cv := h.env[v], s.env[v]
			if hv == nil || cv == nil || hv.kind != lkInt || cv.kind != lkInt {
				stepOne[v] = false
				continue
			}
			d := cv.lin.sub(hv.lin).sub(leConst(1))
			if !a.prove(s.cons, d) || !a.prove(s.cons, d.scale(-1)) {
				stepOne[v] = false
			}
		}
		for _, r := range ranks {
			if !r.ok {
				continue
			}
			cur, ok := r.cur(s)
			if !ok || !a.prove(s.cons, r.old.sub(cur).sub(leConst(1))) || !a.prove(s.cons, r.old.add(leConst(1<<40))) {
				r.ok = false
			}
		}
	}
	back := func(s *lstate) {
		if a.probe > 0 {
			return
		}
		if post != nil {
			a.stmt(s, post, &lframe{ret: func(*lstate, []*lval) {}}, checkRank)
		} else {
			checkRank(s)
		}
	}
	nfr.cnt = back
	enter(h, func(b *lstate) { a.stmts(b, body.List, &nfr, back) }, k)
	if rng == nil && a.probe == 0 {
		for _, v := range ints {
			lf := LoopFact{Fn: a.cur.fi.Name, Pos: body.Pos(), Var: v, StepOne: stepOne[v] && backEdges > 0, BackEdges: backEdges}
			if ev := entryVals[v]; ev != nil && ev.kind == lkInt && ev.lin.isConst() {
				lf.EntryOK, lf.Entry = true, ev.lin.k
			}
			a.Loops = append(a.Loops, lf)
		}
		proved, by := backEdges == 0, "no path returns to the loop head"
		for _, r := range ranks {
			if r.ok && !proved {
				proved, by = true, "ranking function "+r.desc
			}
		}
		_ = by
		key := a.cur.fi.Name + "|loop terminates|" + a.p.Pos(body.Pos())
		o := a.oblSeen[key]
		if o == nil {
			o = &LinObligation{Fn: a.cur.fi.Name, What: "loop terminates (linear ranking function)", Pos: body.Pos(), Proved: true, Term: true}
			a.oblSeen[key] = o
			a.Obls = append(a.Obls, o)
		}
		if !proved {
			o.Proved = false
		}
	}
}

func sortObjs(os []types.Object) {
	for i := 1; i < len(os); i++ {
		for j := i; j > 0 && (os[j].Pos() < os[j-1].Pos() || (os[j].Pos() == os[j-1].Pos() && os[j].Name() < os[j-1].Name())); j-- {
			os[j], os[j-1] = os[j-1], os[j]
		}
	}
}

// ---------------------------------------------------------------- conditions

func (a *linAnalysis) cond(st *lstate, e ast.Expr, kT, kF func(*lstate)) {
	if a.over {
		return
	}
	e = ast.Unparen(e)
	switch x := e.(type) {
	case *ast.BinaryExpr:
		switch x.Op {
		case token.LAND:
			a.cond(st, x.X, func(s *lstate) { a.cond(s, x.Y, kT, kF) }, kF)
			return
		case token.LOR:
			a.cond(st, x.X, kT, func(s *lstate) { a.cond(s, x.Y, kT, kF) })
			return
		case token.LSS, token.LEQ, token.GTR, token.GEQ, token.EQL, token.NEQ:
			// an in-repo call with an integer result inside the comparison is interpreted path by path first, so that
			// its result stays correlated with its arguments (len(buf) < varintLen(num))
			if call := a.nestedIntCall(st, x); call != nil {
				a.callStmt(st, call, func(s *lstate, res []*lval) {
					if s.memo == nil {
						s.memo = map[*ast.CallExpr]*lval{}
					}
					if len(res) == 1 && res[0] != nil {
						s.memo[call] = res[0]
					} else {
						s.memo[call] = a.freshFor(s, a.info.TypeOf(call))
					}
					done := func(kk func(*lstate)) func(*lstate) {
						return func(s2 *lstate) { delete(s2.memo, call); kk(s2) }
					}
					a.cond(s, e, done(kT), done(kF))
				})
				return
			}
			l, r := a.expr(st, x.X), a.expr(st, x.Y)
			if l.kind == lkInt && r.kind == lkInt {
				d := l.lin.sub(r.lin) // l - r
				var t, f []LE
				switch x.Op {
				case token.LSS: // l < r
					t, f = []LE{d.scale(-1).add(leConst(-1))}, []LE{d}
				case token.LEQ:
					t, f = []LE{d.scale(-1)}, []LE{d.add(leConst(-1))}
				case token.GTR:
					t, f = []LE{d.add(leConst(-1))}, []LE{d.scale(-1)}
				case token.GEQ:
					t, f = []LE{d}, []LE{d.scale(-1).add(leConst(-1))}
				case token.EQL:
					t = []LE{d, d.scale(-1)}
				case token.NEQ:
					f = []LE{d, d.scale(-1)}
				}
				a.forkCons(st, t, f, kT, kF)
				return
			}
			if (x.Op == token.EQL || x.Op == token.NEQ) && (l.kind == lkErr || r.kind == lkErr) {
				// comparison with nil
				v, other := l, x.Y
				loc := x.X
				if a.isNil(x.X) {
					v, other, loc = r, x.X, x.Y
				}
				if a.isNil(other) && v.kind == lkErr {
					isNilT := x.Op == token.EQL
					switch v.nil_ {
					case -1:
						if isNilT {
							kT(st)
						} else {
							kF(st)
						}
						return
					case 1:
						if isNilT {
							kF(st)
						} else {
							kT(st)
						}
						return
					}
					sT, sF := st.clone(), st
					nilV, nonNilV := &lval{kind: lkErr, nil_: -1}, &lval{kind: lkErr, nil_: 1}
					if isNilT {
						a.refineLoc(sT, loc, nilV)
						a.refineLoc(sF, loc, nonNilV)
					} else {
						a.refineLoc(sT, loc, nonNilV)
						a.refineLoc(sF, loc, nilV)
					}
					kT(sT)
					kF(sF)
					return
				}
			}
			sT := st.clone()
			kT(sT)
			kF(st)
			return
		}
	case *ast.UnaryExpr:
		if x.Op == token.NOT {
			a.cond(st, x.X, kF, kT)
			return
		}
	}
	v := a.expr(st, e)
	if v.kind == lkInt {
		// a boolean as a 0/1 integer
		a.forkCons(st, []LE{v.lin.add(leConst(-1))}, []LE{v.lin.scale(-1)}, kT, kF)
		return
	}
	sT := st.clone()
	kT(sT)
	kF(st)
}

// nestedIntCall: the first (innermost) summarisable in-repo call with one integer result inside e that has not been
// interpreted yet on this path.
func (a *linAnalysis) nestedIntCall(st *lstate, e ast.Expr) *ast.CallExpr {
	var found *ast.CallExpr
	ast.Inspect(e, func(m ast.Node) bool {
		switch y := m.(type) {
		case *ast.FuncLit:
			return false
		case *ast.CallExpr:
			if _, done := st.memo[y]; done {
				return true
			}
			if tv, ok := a.info.Types[y.Fun]; ok && tv.IsType() {
				return true
			}
			if a.isSummarisable(y) {
				if t := a.info.TypeOf(y); t != nil && isIntLike(t) {
					found = y // keep descending: an inner call wins
				}
			}
		}
		return true
	})
	return found
}

func (a *linAnalysis) refineLoc(st *lstate, loc ast.Expr, v *lval) {
	switch x := ast.Unparen(loc).(type) {
	case *ast.Ident:
		if o := a.info.ObjectOf(x); o != nil {
			st.env[o] = v
		}
	case *ast.SelectorExpr:
		st.flds[types.ExprString(x)] = v
	}
}

func (a *linAnalysis) isNil(e ast.Expr) bool {
	tv, ok := a.info.Types[ast.Unparen(e)]
	return ok && tv.IsNil()
}

func (a *linAnalysis) forkCons(st *lstate, t, f []LE, kT, kF func(*lstate)) {
	sT, sF := st.clone(), st
	for _, c := range t {
		sT.assume(c)
	}
	for _, c := range f {
		sF.assume(c)
	}
	if a.feasible(sT) {
		kT(sT)
	}
	if a.feasible(sF) {
		kF(sF)
	}
}

// ---------------------------------------------------------------- expressions

func (a *linAnalysis) expr(st *lstate, e ast.Expr) *lval {
	e = ast.Unparen(e)
	tv, hasTV := a.info.Types[e]
	if hasTV && tv.Value != nil {
		switch tv.Value.Kind() {
		case constant.Int:
			if v, ok := constant.Int64Val(tv.Value); ok {
				return &lval{kind: lkInt, lin: leConst(v)}
			}
		case constant.Bool:
			if constant.BoolVal(tv.Value) {
				return &lval{kind: lkInt, lin: leConst(1)}
			}
			return &lval{kind: lkInt, lin: leConst(0)}
		case constant.String:
			return &lval{kind: lkSeq, ln: leConst(int64(len(constant.StringVal(tv.Value))))}
		}
	}
	if hasTV && tv.IsNil() {
		return &lval{kind: lkErr, nil_: -1}
	}
	switch x := e.(type) {
	case *ast.Ident:
		obj := a.info.ObjectOf(x)
		if obj == nil {
			return &lval{}
		}
		if v, ok := st.env[obj]; ok && v != nil {
			return v
		}
		v := a.freshFor(st, obj.Type())
		if _, isVar := obj.(*types.Var); isVar && obj.Parent() != nil && obj.Parent() != obj.Pkg().Scope() {
			st.env[obj] = v
		}
		return v
	case *ast.SelectorExpr:
		if sel, ok := a.info.Selections[x]; ok && sel.Kind() == types.FieldVal {
			a.expr(st, x.X)
			key := types.ExprString(x)
			if v, ok := st.flds[key]; ok {
				return v
			}
			v := a.freshFor(st, a.info.TypeOf(x))
			st.flds[key] = v
			return v
		}
		return a.freshFor(st, a.info.TypeOf(x))
	case *ast.BasicLit:
		return a.freshFor(st, a.info.TypeOf(x))
	case *ast.CompositeLit:
		n := int64(0)
		for _, el := range x.Elts {
			if kv, ok := el.(*ast.KeyValueExpr); ok {
				a.expr(st, kv.Value)
			} else {
				a.expr(st, el)
			}
			n++
		}
		t := a.info.TypeOf(x)
		if t != nil {
			if _, ok := t.Underlying().(*types.Slice); ok {
				return &lval{kind: lkSeq, ln: leConst(n)}
			}
			if arr, ok := t.Underlying().(*types.Array); ok {
				return &lval{kind: lkSeq, ln: leConst(arr.Len())}
			}
		}
		return &lval{}
	case *ast.FuncLit:
		a.undecided("function literal (its body is not analysed)", x.Pos())
		return &lval{kind: lkErr, nil_: 1}
	case *ast.StarExpr:
		a.expr(st, x.X)
		return a.freshFor(st, a.info.TypeOf(x))
	case *ast.UnaryExpr:
		v := a.expr(st, x.X)
		switch x.Op {
		case token.AND:
			return &lval{kind: lkErr, nil_: 1}
		case token.SUB:
			if v.kind == lkInt {
				return &lval{kind: lkInt, lin: v.lin.scale(-1)}
			}
		case token.ADD:
			return v
		case token.NOT:
			if v.kind == lkInt {
				return &lval{kind: lkInt, lin: leConst(1).sub(v.lin)}
			}
		}
		return a.freshFor(st, a.info.TypeOf(x))
	case *ast.BinaryExpr:
		l, r := a.expr(st, x.X), a.expr(st, x.Y)
		t := a.info.TypeOf(x)
		switch x.Op {
		case token.ADD:
			if l.kind == lkSeq && r.kind == lkSeq { // string concatenation
				return &lval{kind: lkSeq, ln: l.ln.add(r.ln)}
			}
			return a.arith(st, x.Op, l, r, t)
		case token.SUB, token.MUL, token.QUO, token.REM, token.AND, token.OR, token.XOR, token.SHL, token.SHR, token.AND_NOT:
			return a.arith(st, x.Op, l, r, t)
		}
		// comparisons and boolean connectives as values: a fresh 0/1
		return a.freshFor(st, t)
	case *ast.CallExpr:
		return a.callExpr(st, x)
	case *ast.IndexExpr:
		base := a.expr(st, x.X)
		idx := a.expr(st, x.Index)
		bt := a.info.TypeOf(x.X)
		if bt != nil {
			if _, isMap := bt.Underlying().(*types.Map); isMap {
				return a.freshFor(st, a.info.TypeOf(x))
			}
		}
		if base.kind == lkSeq && idx.kind == lkInt {
			what := "index " + types.ExprString(x)
			a.oblige(st, idx.lin, what+": index >= 0", x.Pos())
			a.oblige(st, base.ln.sub(idx.lin).sub(leConst(1)), what+": index < len", x.Pos())
		} else if bt != nil && isSeq(bt) {
			a.undecided("index expression with untracked operands: "+types.ExprString(x), x.Pos())
		}
		return a.freshFor(st, a.info.TypeOf(x))
	case *ast.SliceExpr:
		base := a.expr(st, x.X)
		if x.Slice3 {
			a.undecided("3-index slice", x.Pos())
			return a.freshFor(st, a.info.TypeOf(x))
		}
		if base.kind != lkSeq {
			a.undecided("slice of an untracked value: "+types.ExprString(x), x.Pos())
			return a.freshFor(st, a.info.TypeOf(x))
		}
		lo, hi := leConst(0), base.ln
		if x.Low != nil {
			v := a.expr(st, x.Low)
			if v.kind != lkInt {
				a.undecided("slice bound is not an integer expression", x.Pos())
				return a.freshFor(st, a.info.TypeOf(x))
			}
			lo = v.lin
		}
		if x.High != nil {
			v := a.expr(st, x.High)
			if v.kind != lkInt {
				a.undecided("slice bound is not an integer expression", x.Pos())
				return a.freshFor(st, a.info.TypeOf(x))
			}
			hi = v.lin
		}
		what := "slice " + types.ExprString(x)
		a.oblige(st, lo, what+": low >= 0", x.Pos())
		a.oblige(st, hi.sub(lo), what+": low <= high", x.Pos())
		// the upper bound of a slice expression is the capacity; staying within the length is sufficient, and
		// where a lower bound of the capacity is known (bytes.Buffer after Grow) that is used instead
		if base.hasCap && a.prove(st.cons, base.cp.sub(hi)) {
			a.oblige(st, base.cp.sub(hi), what+": high <= cap", x.Pos())
		} else {
			a.oblige(st, base.ln.sub(hi), what+": high <= len", x.Pos())
		}
		return &lval{kind: lkSeq, ln: hi.sub(lo)}
	case *ast.TypeAssertExpr:
		a.expr(st, x.X)
		return a.freshFor(st, a.info.TypeOf(x))
	case *ast.KeyValueExpr:
		return a.expr(st, x.Value)
	}
	return a.freshFor(st, a.info.TypeOf(e))
}

// arith computes l op r in the linear domain where possible.
func (a *linAnalysis) arith(st *lstate, op token.Token, l, r *lval, t types.Type) *lval {
	if l.kind == lkInt && r.kind == lkInt {
		switch op {
		case token.ADD:
			return a.wrap(st, l.lin.add(r.lin), t)
		case token.SUB:
			return a.wrap(st, l.lin.sub(r.lin), t)
		case token.MUL:
			if l.lin.isConst() {
				return a.wrap(st, r.lin.scale(l.lin.k), t)
			}
			if r.lin.isConst() {
				return a.wrap(st, l.lin.scale(r.lin.k), t)
			}
		case token.AND:
			// x & c with a non-negative constant: 0 <= result <= c
			for _, p := range [][2]*lval{{l, r}, {r, l}} {
				if p[1].lin.isConst() && p[1].lin.k >= 0 {
					v := a.freshFor(st, t)
					if v.kind == lkInt {
						st.assume(v.lin)
						st.assume(leConst(p[1].lin.k).sub(v.lin))
					}
					return v
				}
			}
		case token.SHR:
			if r.lin.isConst() && r.lin.k >= 0 && r.lin.k < 63 {
				v := a.freshFor(st, t)
				if _, hi, hasLo, hasHi := a.typeRange(t); hasLo && hasHi && v.kind == lkInt {
					st.assume(leConst(hi >> uint(r.lin.k)).sub(v.lin))
				}
				return v
			}
		case token.REM:
			if r.lin.isConst() && r.lin.k > 0 && a.prove(st.cons, l.lin) {
				v := a.freshFor(st, t)
				if v.kind == lkInt {
					st.assume(v.lin)
					st.assume(leConst(r.lin.k - 1).sub(v.lin))
				}
				return v
			}
		}
	}
	return a.freshFor(st, t)
}

// wrap returns the linear value when it provably fits the result type (no wrap-around of unsigned
// arithmetic), a fresh value of that type otherwise. Signed int arithmetic is taken as exact (assumption).
func (a *linAnalysis) wrap(st *lstate, l LE, t types.Type) *lval {
	if t == nil {
		return &lval{kind: lkInt, lin: l}
	}
	b, ok := t.Underlying().(*types.Basic)
	if !ok {
		return &lval{kind: lkInt, lin: l}
	}
	if b.Info()&types.IsUnsigned != 0 {
		lo, hi, _, hasHi := a.typeRange(t)
		if a.prove(st.cons, l.sub(leConst(lo))) && (!hasHi || a.prove(st.cons, leConst(hi).sub(l))) {
			return &lval{kind: lkInt, lin: l}
		}
		return a.freshFor(st, t)
	}
	return &lval{kind: lkInt, lin: l}
}

// convert models T(x) for integer types.
func (a *linAnalysis) convert(st *lstate, v *lval, from, to types.Type) *lval {
	if isIntLike(to) && v.kind == lkInt {
		lo, hi, hasLo, hasHi := a.typeRange(to)
		if (!hasLo || a.prove(st.cons, v.lin.sub(leConst(lo)))) && (!hasHi || a.prove(st.cons, leConst(hi).sub(v.lin))) {
			// the target's unbounded side: int64/uint64 hold every tracked quantity (assumption: no overflow)
			if tb, ok := to.Underlying().(*types.Basic); ok && tb.Info()&types.IsUnsigned == 0 && !hasHi {
				// conversion to a 64-bit signed type from uint64: fits only if an upper bound is known
				if fb, ok := from.Underlying().(*types.Basic); ok && (fb.Kind() == types.Uint64 || fb.Kind() == types.Uint || fb.Kind() == types.Uintptr) {
					if !a.prove(st.cons, leConst(1<<62).sub(v.lin)) {
						return a.freshFor(st, to)
					}
				}
			}
			return v
		}
		return a.freshFor(st, to)
	}
	if isSeq(to) && v.kind == lkSeq {
		// string <-> []byte keeps the length
		if fs, ts := elemIsByteOrString(from), elemIsByteOrString(to); fs && ts {
			return &lval{kind: lkSeq, ln: v.ln}
		}
		return a.freshFor(st, to)
	}
	if isNilable(to) {
		if v.kind == lkErr {
			return v
		}
		return &lval{kind: lkErr}
	}
	return a.freshFor(st, to)
}

func elemIsByteOrString(t types.Type) bool {
	switch u := t.Underlying().(type) {
	case *types.Basic:
		return u.Info()&types.IsString != 0
	case *types.Slice:
		if b, ok := u.Elem().Underlying().(*types.Basic); ok {
			return b.Kind() == types.Uint8
		}
	}
	return false
}

// ---------------------------------------------------------------- calls

func (a *linAnalysis) calleeOf(call *ast.CallExpr) types.Object {
	return typeutil.Callee(a.info, call)
}

// isSummarisable: a static call of an in-repo function with a body (not in progress).
func (a *linAnalysis) isSummarisable(call *ast.CallExpr) bool {
	f, ok := a.calleeOf(call).(*types.Func)
	if !ok {
		return false
	}
	fi := a.p.ByObj[f]
	if fi == nil || fi.Decl.Body == nil {
		return false
	}
	if sig := f.Type().(*types.Signature); sig.Recv() != nil {
		if _, isIface := sig.Recv().Type().Underlying().(*types.Interface); isIface {
			return false
		}
	}
	if s, ok := a.sums[f]; ok && s.inProg {
		if a.probe == 0 {
			a.undecided("recursive call of "+fi.Name+" (no summary)", call.Pos())
		}
		return false
	}
	return true
}

// callArgs evaluates receiver and arguments in order.
func (a *linAnalysis) callArgs(st *lstate, call *ast.CallExpr, f *types.Func) []*lval {
	var out []*lval
	if f != nil {
		if sig := f.Type().(*types.Signature); sig.Recv() != nil {
			if sel, ok := ast.Unparen(call.Fun).(*ast.SelectorExpr); ok {
				out = append(out, a.expr(st, sel.X))
			} else {
				out = append(out, &lval{})
			}
		}
	}
	for _, arg := range call.Args {
		out = append(out, a.expr(st, arg))
	}
	return out
}

// callStmt: a call in statement position (whole right-hand side, return operand, expression statement):
// in-repo callees are instantiated path by path.
func (a *linAnalysis) callStmt(st *lstate, call *ast.CallExpr, k func(*lstate, []*lval)) {
	if f, ok := a.calleeOf(call).(*types.Func); ok && f.FullName() == "encoding/binary.PutUvarint" && len(call.Args) == 2 {
		// n = number of 7-bit groups of x; the buffer must hold them (PutUvarint panics otherwise). Forked by the size
		// class of x so that n stays correlated with x.
		buf, x := a.expr(st, call.Args[0]), a.expr(st, call.Args[1])
		if buf.kind == lkSeq && x.kind == lkInt {
			lo := int64(0)
			for n := int64(1); n <= 9; n++ {
				hi := int64(1)<<(7*uint(n)) - 1
				s := st.clone()
				s.assume(x.lin.sub(leConst(lo)))
				if n < 9 {
					s.assume(leConst(hi).sub(x.lin))
				}
				lo = hi + 1
				if !a.feasible(s) {
					continue
				}
				a.oblige(s, buf.ln.sub(leConst(n)), fmt.Sprintf("PutUvarint needs %d byte(s) for a value of this size", n), call.Pos())
				k(s, []*lval{{kind: lkInt, lin: leConst(n)}})
			}
			return
		}
		a.undecided("PutUvarint on untracked operands", call.Pos())
	}
	if !a.isSummarisable(call) {
		v := a.callExpr(st, call)
		var res []*lval
		if tup, ok := a.info.TypeOf(call).(*types.Tuple); ok {
			for i := 0; i < tup.Len(); i++ {
				res = append(res, a.freshFor(st, tup.At(i).Type()))
			}
			if mv := a.multi; mv != nil && mv.call == call {
				res = mv.vals
				a.multi = nil
			}
		} else {
			res = []*lval{v}
		}
		k(st, res)
		return
	}
	f := a.calleeOf(call).(*types.Func)
	args := a.callArgs(st, call, f)
	sum := a.summary(f, false)
	if sum == nil {
		k(st, nil)
		return
	}
	if len(sum.undec) > 0 && a.probe == 0 {
		a.undecided("callee "+sum.fi.Name+" is undecided", call.Pos())
	}
	variadic := f.Type().(*types.Signature).Variadic()
	for _, p := range sum.paths {
		s := st.clone()
		m := map[int]LE{}
		okBind := true
		for i, pv := range sum.params {
			if i >= len(args) {
				break
			}
			if variadic && i == len(sum.params)-1 {
				break // the variadic slice keeps its own fresh length
			}
			av := args[i]
			switch pv.kind {
			case lkInt:
				if av.kind == lkInt && len(pv.lin.t) == 1 {
					m[pv.lin.t[0].a] = av.lin
				}
			case lkSeq:
				if av.kind == lkSeq && len(pv.ln.t) == 1 {
					m[pv.ln.t[0].a] = av.ln
				}
			}
		}
		if !okBind {
			continue
		}
		// callee-local atoms become fresh atoms of the caller
		base := a.natoms
		a.natoms += sum.natoms
		ren := func(l LE) LE {
			out := leConst(l.k)
			for _, t := range l.t {
				if r, ok := m[t.a]; ok {
					out = out.add(r.scale(t.c))
				} else {
					out = out.add(LE{t: []lterm{{base + t.a, t.c}}})
				}
			}
			return out
		}
		// preconditions left by the callee: to be proved here, in the context they arose in
		for _, pre := range p.pre {
			if a.probe > 0 {
				break
			}
			ctx := append([]LE{}, s.cons...)
			for _, c := range pre.ctx {
				ctx = append(ctx, ren(c))
			}
			goal := ren(pre.goal)
			if a.prove(ctx, goal) {
				continue
			}
			key := a.cur.fi.Name + "|via " + pre.fn + ": " + pre.what + "|" + a.p.Pos(call.Pos())
			o := a.oblSeen[key]
			if o == nil {
				o = &LinObligation{Fn: a.cur.fi.Name, What: "via " + pre.fn + ": " + pre.what, Pos: call.Pos(), Proved: true}
				a.oblSeen[key] = o
				a.Obls = append(a.Obls, o)
			}
			if a.root {
				o.Proved = false
			} else {
				o.Pending = true
				s.pend = append(s.pend, lobl{goal: goal, ctx: ctx, what: pre.what, pos: pre.pos, fn: pre.fn})
			}
		}
		for _, c := range p.cons {
			s.assume(ren(c))
		}
		if !a.feasible(s) {
			continue
		}
		var res []*lval
		for _, rv := range p.results {
			if rv == nil {
				res = append(res, &lval{})
				continue
			}
			nv := *rv
			switch rv.kind {
			case lkInt:
				nv.lin = ren(rv.lin)
			case lkSeq:
				nv.ln = ren(rv.ln)
			}
			res = append(res, &nv)
		}
		k(s, res)
	}
}

type multiVal struct {
	call *ast.CallExpr
	vals []*lval
}

// callExpr: a call in expression position (no forking): conversions, builtins, modelled library functions;
// in-repo callees yield a value that holds on all their paths (their obligations must hold here).
func (a *linAnalysis) callExpr(st *lstate, call *ast.CallExpr) *lval {
	if v, ok := st.memo[call]; ok && v != nil {
		return v
	}
	// conversion
	if tv, ok := a.info.Types[call.Fun]; ok && tv.IsType() && len(call.Args) == 1 {
		v := a.expr(st, call.Args[0])
		return a.convert(st, v, a.info.TypeOf(call.Args[0]), tv.Type)
	}
	callee := a.calleeOf(call)
	rt := a.info.TypeOf(call)
	if a.OnCall != nil && a.probe == 0 {
		if _, isB := callee.(*types.Builtin); !isB {
			save := len(a.Obls)
			var args []*lval
			pr := a.probe
			a.probe++ // evaluating the arguments for the observer must not record obligations twice
			for _, arg := range call.Args {
				args = append(args, a.expr(st, arg))
			}
			a.probe = pr
			_ = save
			a.OnCall(a, st, a.cur.fi.Name, call, callee, args)
		}
	}
	if b, ok := callee.(*types.Builtin); ok {
		switch b.Name() {
		case "len":
			v := a.expr(st, call.Args[0])
			if v.kind == lkSeq {
				return &lval{kind: lkInt, lin: v.ln}
			}
			r := a.freshFor(st, rt)
			if r.kind == lkInt {
				st.assume(r.lin)
			}
			return r
		case "cap":
			v := a.expr(st, call.Args[0])
			r := a.freshFor(st, rt)
			if r.kind == lkInt {
				st.assume(r.lin)
				if v.kind == lkSeq {
					st.assume(r.lin.sub(v.ln))
				}
			}
			return r
		case "copy":
			d, s := a.expr(st, call.Args[0]), a.expr(st, call.Args[1])
			r := a.freshFor(st, rt)
			if r.kind == lkInt {
				st.assume(r.lin)
				if d.kind == lkSeq {
					st.assume(d.ln.sub(r.lin))
				}
				if s.kind == lkSeq {
					st.assume(s.ln.sub(r.lin))
				}
				// copy returns exactly min(len(dst), len(src)): when one is provably the smaller, it is that
				if d.kind == lkSeq && s.kind == lkSeq {
					if a.prove(st.cons, d.ln.sub(s.ln)) {
						return &lval{kind: lkInt, lin: s.ln}
					}
					if a.prove(st.cons, s.ln.sub(d.ln)) {
						return &lval{kind: lkInt, lin: d.ln}
					}
				}
			}
			return r
		case "make":
			var n *lval
			for i, arg := range call.Args[1:] {
				v := a.expr(st, arg)
				if v.kind == lkInt {
					a.oblige(st, v.lin, "make "+types.ExprString(call)+": size >= 0", call.Pos())
				}
				if i == 0 {
					n = v
				}
			}
			if len(call.Args) == 3 {
				lv, cv := a.expr(st, call.Args[1]), a.expr(st, call.Args[2])
				if lv.kind == lkInt && cv.kind == lkInt {
					a.oblige(st, cv.lin.sub(lv.lin), "make "+types.ExprString(call)+": len <= cap", call.Pos())
				}
			}
			if n != nil && n.kind == lkInt && isSeq(rt) {
				return &lval{kind: lkSeq, ln: n.lin}
			}
			return a.freshFor(st, rt)
		case "append":
			b0 := a.expr(st, call.Args[0])
			extra := leConst(0)
			exact := true
			for i, arg := range call.Args[1:] {
				v := a.expr(st, arg)
				if call.Ellipsis.IsValid() && i == len(call.Args)-2 {
					if v.kind == lkSeq {
						extra = extra.add(v.ln)
					} else {
						exact = false
					}
				} else {
					extra = extra.add(leConst(1))
				}
			}
			if b0.kind == lkSeq && exact {
				return &lval{kind: lkSeq, ln: b0.ln.add(extra)}
			}
			return a.freshFor(st, rt)
		case "new":
			return &lval{kind: lkErr, nil_: 1}
		case "panic":
			for _, arg := range call.Args {
				a.expr(st, arg)
			}
			return &lval{}
		case "min", "max":
			for _, arg := range call.Args {
				a.expr(st, arg)
			}
			return a.freshFor(st, rt)
		}
		for _, arg := range call.Args {
			a.expr(st, arg)
		}
		return a.freshFor(st, rt)
	}
	f, _ := callee.(*types.Func)
	if f != nil && f.Pkg() != nil {
		if v, ok := a.library(st, call, f); ok {
			return v
		}
	}
	if f != nil && a.isSummarisable(call) {
		args := a.callArgs(st, call, f)
		sum := a.summary(f, false)
		if sum != nil {
			if len(sum.undec) > 0 && a.probe == 0 {
				a.undecided("callee "+sum.fi.Name+" is undecided", call.Pos())
			}
			// obligations the callee left open must hold for these arguments on every callee path
			for _, p := range sum.paths {
				if len(p.pre) == 0 || a.probe > 0 {
					continue
				}
				m := map[int]LE{}
				for i, pv := range sum.params {
					if i >= len(args) {
						break
					}
					switch {
					case pv.kind == lkInt && args[i].kind == lkInt && len(pv.lin.t) == 1:
						m[pv.lin.t[0].a] = args[i].lin
					case pv.kind == lkSeq && args[i].kind == lkSeq && len(pv.ln.t) == 1:
						m[pv.ln.t[0].a] = args[i].ln
					}
				}
				base := a.natoms
				a.natoms += sum.natoms
				ren := func(l LE) LE {
					out := leConst(l.k)
					for _, t := range l.t {
						if r, ok := m[t.a]; ok {
							out = out.add(r.scale(t.c))
						} else {
							out = out.add(LE{t: []lterm{{base + t.a, t.c}}})
						}
					}
					return out
				}
				for _, pre := range p.pre {
					ctx := append([]LE{}, st.cons...)
					for _, c := range pre.ctx {
						ctx = append(ctx, ren(c))
					}
					a.obligeCtx(st, ctx, ren(pre.goal), "via "+pre.fn+": "+pre.what, call.Pos())
				}
			}
			// a single-path callee is instantiated exactly (no fork needed): its constraints and result carry over
			if len(sum.paths) == 1 && len(sum.paths[0].results) == 1 && sum.paths[0].results[0] != nil {
				p := sum.paths[0]
				m := map[int]LE{}
				for i, pv := range sum.params {
					if i >= len(args) {
						break
					}
					switch {
					case pv.kind == lkInt && args[i].kind == lkInt && len(pv.lin.t) == 1:
						m[pv.lin.t[0].a] = args[i].lin
					case pv.kind == lkSeq && args[i].kind == lkSeq && len(pv.ln.t) == 1:
						m[pv.ln.t[0].a] = args[i].ln
					}
				}
				base := a.natoms
				a.natoms += sum.natoms
				ren := func(l LE) LE {
					out := leConst(l.k)
					for _, t := range l.t {
						if r, ok := m[t.a]; ok {
							out = out.add(r.scale(t.c))
						} else {
							out = out.add(LE{t: []lterm{{base + t.a, t.c}}})
						}
					}
					return out
				}
				for _, c := range p.cons {
					st.assume(ren(c))
				}
				nv := *p.results[0]
				switch nv.kind {
				case lkInt:
					nv.lin = ren(nv.lin)
				case lkSeq:
					nv.ln = ren(nv.ln)
				}
				return &nv
			}
			// the result: when every path returns the same kind of value with a constant, keep it; else fresh
			return a.joinResults(st, sum, args, rt)
		}
	}
	// unknown callee (interface method, function value, external package): arguments are evaluated
	if sel, ok := ast.Unparen(call.Fun).(*ast.SelectorExpr); ok {
		if s, ok := a.info.Selections[sel]; ok && s.Kind() == types.MethodVal {
			a.expr(st, sel.X)
		}
	}
	for _, arg := range call.Args {
		a.expr(st, arg)
	}
	if tup, ok := rt.(*types.Tuple); ok {
		mv := &multiVal{call: call}
		for i := 0; i < tup.Len(); i++ {
			mv.vals = append(mv.vals, a.freshFor(st, tup.At(i).Type()))
		}
		a.multi = mv
		return &lval{}
	}
	return a.freshFor(st, rt)
}

func (a *linAnalysis) obligeCtx(st *lstate, ctx []LE, goal LE, what string, pos token.Pos) {
	if a.probe > 0 {
		return
	}
	key := a.cur.fi.Name + "|" + what + "|" + a.p.Pos(pos)
	o := a.oblSeen[key]
	if o == nil {
		o = &LinObligation{Fn: a.cur.fi.Name, What: what, Pos: pos, Proved: true}
		a.oblSeen[key] = o
		a.Obls = append(a.Obls, o)
	}
	if a.prove(ctx, goal) {
		return
	}
	if a.root {
		o.Proved = false
		return
	}
	o.Pending = true
	st.pend = append(st.pend, lobl{goal: goal, ctx: ctx, what: what, pos: pos, fn: a.cur.fi.Name})
}

// joinResults: value of a single-result in-repo call in expression position.
func (a *linAnalysis) joinResults(st *lstate, sum *lsummary, args []*lval, rt types.Type) *lval {
	if rt == nil {
		return &lval{}
	}
	if _, isTuple := rt.(*types.Tuple); isTuple {
		return &lval{}
	}
	r := a.freshFor(st, rt)
	if r.kind != lkInt || len(sum.paths) == 0 {
		if r.kind == lkErr {
			// non-nil on every path?
			all := len(sum.paths) > 0
			for _, p := range sum.paths {
				if len(p.results) != 1 || p.results[0] == nil || p.results[0].kind != lkErr || p.results[0].nil_ != 1 {
					all = false
				}
			}
			if all {
				r.nil_ = 1
			}
		}
		return r
	}
	// bounds that hold on every path: constant results give [min, max]
	lo, hi := int64(0), int64(0)
	first := true
	for _, p := range sum.paths {
		if len(p.results) != 1 || p.results[0] == nil || p.results[0].kind != lkInt || !p.results[0].lin.isConst() {
			return r
		}
		k := p.results[0].lin.k
		if first || k < lo {
			lo = k
		}
		if first || k > hi {
			hi = k
		}
		first = false
	}
	st.assume(r.lin.sub(leConst(lo)))
	st.assume(leConst(hi).sub(r.lin))
	return r
}

// library models the standard-library functions the codec uses.
func (a *linAnalysis) library(st *lstate, call *ast.CallExpr, f *types.Func) (*lval, bool) {
	full := f.FullName()
	rt := a.info.TypeOf(call)
	need := func(arg ast.Expr, n int64) *lval {
		v := a.expr(st, arg)
		if v.kind == lkSeq {
			a.oblige(st, v.ln.sub(leConst(n)), fmt.Sprintf("%s needs %d bytes", f.Name(), n), call.Pos())
		} else {
			a.undecided("library call on an untracked buffer: "+types.ExprString(call), call.Pos())
		}
		return v
	}
	switch full {
	case "(encoding/binary.bigEndian).Uint16", "(encoding/binary.littleEndian).Uint16":
		need(call.Args[0], 2)
		return a.freshFor(st, rt), true
	case "(encoding/binary.bigEndian).Uint32", "(encoding/binary.littleEndian).Uint32":
		need(call.Args[0], 4)
		return a.freshFor(st, rt), true
	case "(encoding/binary.bigEndian).Uint64", "(encoding/binary.littleEndian).Uint64":
		need(call.Args[0], 8)
		return a.freshFor(st, rt), true
	case "(encoding/binary.bigEndian).PutUint16", "(encoding/binary.littleEndian).PutUint16":
		need(call.Args[0], 2)
		a.expr(st, call.Args[1])
		return &lval{}, true
	case "(encoding/binary.bigEndian).PutUint32", "(encoding/binary.littleEndian).PutUint32":
		need(call.Args[0], 4)
		a.expr(st, call.Args[1])
		return &lval{}, true
	case "(encoding/binary.bigEndian).PutUint64", "(encoding/binary.littleEndian).PutUint64":
		need(call.Args[0], 8)
		a.expr(st, call.Args[1])
		return &lval{}, true
	case "encoding/binary.Uvarint":
		// (value, n): n <= len(buf); n > 0 => value < 2^(7n) (n <= 9) ; n may be <= 0 (short buffer / overflow)
		b := a.expr(st, call.Args[0])
		val := a.freshFor(st, types.Typ[types.Uint64])
		n := a.freshFor(st, types.Typ[types.Int])
		if b.kind == lkSeq {
			st.assume(b.ln.sub(n.lin))
			st.assume(n.lin.add(leConst(10))) // n >= -10
			for kk := int64(1); kk <= 8; kk++ {
				if a.prove(st.cons, leConst(kk).sub(b.ln)) {
					st.assume(leConst(int64(1)<<(7*uint(kk)) - 1).sub(val.lin))
					break
				}
			}
		}
		a.multi = &multiVal{call: call, vals: []*lval{val, n}}
		return &lval{}, true
	case "(*bytes.Buffer).Reset", "(*bytes.Buffer).Grow", "(*bytes.Buffer).Bytes", "(*bytes.Buffer).Len":
		sel, ok := ast.Unparen(call.Fun).(*ast.SelectorExpr)
		if !ok {
			return nil, false
		}
		a.expr(st, sel.X)
		key := "bytes.Buffer:" + types.ExprString(sel.X)
		blen := func() LE {
			if v, ok := st.flds[key+"#len"]; ok {
				return v.lin
			}
			at := a.fresh()
			st.assume(leAtom(at))
			st.flds[key+"#len"] = &lval{kind: lkInt, lin: leAtom(at)}
			return leAtom(at)
		}
		switch f.Name() {
		case "Reset":
			st.flds[key+"#len"] = &lval{kind: lkInt, lin: leConst(0)}
			delete(st.flds, key+"#cap")
			return &lval{}, true
		case "Grow":
			n := a.expr(st, call.Args[0])
			if n.kind == lkInt {
				a.oblige(st, n.lin, "bytes.Buffer.Grow(n): n >= 0", call.Pos())
				st.flds[key+"#cap"] = &lval{kind: lkInt, lin: blen().add(n.lin)}
			}
			return &lval{}, true
		case "Len":
			return &lval{kind: lkInt, lin: blen()}, true
		case "Bytes":
			v := &lval{kind: lkSeq, ln: blen()}
			if c, ok := st.flds[key+"#cap"]; ok {
				v.hasCap, v.cp = true, c.lin
			}
			return v, true
		}
	case "bytes.Equal", "bytes.Compare", "strings.Compare":
		for _, arg := range call.Args {
			a.expr(st, arg)
		}
		return a.freshFor(st, rt), true
	}
	return nil, false
}
