package main

// placeholder until the packet rules are in
func c02Admit(c *Ctx, rule string) {}
