package main

import (
	"fmt"
	"go/ast"
	"go/token"
	"go/types"
	"sort"
	"strings"

	"golang.org/x/tools/go/types/typeutil"
)

func typeutilCallee(info *types.Info, call *ast.CallExpr) types.Object {
	return typeutil.Callee(info, call)
}

func init() {
	register("C09", propC09)
	register("C10", propC10)
	register("C17", propC17)
}

func csendOf(v *vocab, typ string) Pred {
	return and(or(callTo(v.cSend), callTo(v.connSend)), argIs(0, "packet", typ))
}

func futureMethod(c *Ctx, name string) *types.Func {
	return c.P.Method("client/future", "Future", name)
}
func storeMethod(c *Ctx, name string) *types.Func { return c.P.Method("client/future", "Store", name) }

// cstateStore for the client package
func (c *Ctx) clientConst(name string) int64 { return c.constInt("client", name) }

// ------------------------------------------------------------------ C09

const c09Explanation = "Static analysis of the client's outbound QoS pipeline and futures: (STORESEND) publish: NextID ≺ future registered ≺ SavePacket(Outgoing)→ok ≺ send; subscribe/unsubscribe: future registered ≺ send; (ACKFLOW) PUBACK/PUBCOMP delete the stored packet, PUBREC replaces it by the PUBREL before sending it — on every non-error path, also when no future is known; " +
	"(RESEND) CONNACK accepted ⇒ state=connected ≺ Complete(connect future) ≺ AllPackets(Outgoing) resent with DUP on publishes; (COMPLETE) inventory of every Future.Complete call with the path condition (only acknowledgement handlers on the future fetched by the acknowledged id, the connack, and QoS 0 after a successful send); (CLEANUP) every teardown path reaches cleanup, which clears the future store and cancels an unacknowledged connect future; " +
	"(ASSERT) future accessors cannot panic; (WAITGO) Close never waits on a goroutine group that was never started; (DIE) every error leaving the processor/pinger passed through die(); (FUTURE) Complete/Cancel close their channel once, under the mutex. All schedules / 'no caller blocks for ever' in general are not decided."

func propC09(c *Ctx) string {
	v := c.vocab()
	gate := c.Rule("C09/VOCAB", "TABLE", "vocabulary resolves", 1)
	if m := v.missing(); len(m) > 0 {
		gate.Undecided("vocabulary", 0, strings.Join(m, ","))
		return c09Explanation
	}
	gate.Pass("vocabulary", 0, 1, "resolved")
	c09StoreSend(c, v)
	c09AckFlow(c, v)
	c09Resend(c, v)
	c09Complete(c, v)
	c09Cleanup(c, v, "C09")
	c.assertRule("C09/ASSERT", 4, "client", "client/future")
	c09WaitGo(c, v, "C09")
	c09WaitLock(c, v, "C09")
	// one packet id identifies one outstanding flow and its future: the counter never hands out zero and never
	// the same id twice in a row
	c18Counter(c)
	dieRule(c, v, "C09/DIE", "client", 8)
	errchkRule(c, v, "C09/ERRCHK", "client", 20)
	c09Future(c, v)
	escapeRule(c, v, "C09/ESCAPE", []string{"client", "client/future"}, 5)
	c.NotDecide("all schedules and failure points at runtime", "that no caller blocks for ever in general (only the structural causes above)", "Store.Await's deadline arithmetic (timing-dependent, see known findings / DESIGN D14)",
		"futures of packets resent from an earlier process (documented: completed without future)")
	c.Assume("tomb.v2 semantics: Wait blocks until a tracked goroutine finished; Kill alone never closes dead", "Session contract", "instance-insensitive field keys")
	return c09Explanation
}

func c09StoreSend(c *Ctx, v *vocab) {
	r := c.Rule("C09/STORESEND", "TRACE", "PublishMessage QoS>0: NextID ≺ futureStore.Put ≺ SavePacket(Outgoing)→ok ≺ send(PUBLISH); Subscribe/Unsubscribe: NextID ≺ Put ≺ send", 5)
	put := storeMethod(c, "Put")
	mf := c.msgFields()
	pm := c.mustFunc(r, "client.(*Client).PublishMessage")
	if pm != nil {
		for q := int64(0); q <= 2; q++ {
			in := c.P.TraceFunc(pm, TraceOpts{Init: map[types.Object]Val{mf.msgQOS: vInt(q)}, NonNil: c.defOpts().NonNil})
			key := fmt.Sprintf("%s@QOS=%d", pm.Name, q)
			if c.undecidedIfOver(r, in, key) {
				continue
			}
			var bad *Trace
			why := ""
			n := 0
			for _, t := range in.Traces {
				s := t.first(csendOf(v, "Publish"))
				if s < 0 {
					continue
				}
				n++
				p := t.first(callTo(put))
				if q > 0 {
					nx := t.first(callTo(v.csNext))
					sv := t.first(and(callTo(v.csSave), argConstInt(0, v.outgoing), argIs(1, "packet", "Publish")))
					switch {
					case nx < 0 || p < 0 || sv < 0:
						bad, why = t, "send(PUBLISH) without NextID / future registration / SavePacket(Outgoing)"
					case !(nx < p && p < sv && sv < s):
						bad, why = t, "order NextID ≺ Put ≺ SavePacket ≺ send violated"
					case t.errOutcome(t.Ev[sv]) != -1:
						bad, why = t, "send(PUBLISH) although SavePacket's error was not excluded"
					}
				} else if p >= 0 && p > s {
					// QoS 0: if a future is registered at all it must be before the send (it is completed right after)
				}
			}
			r.Check(key, bad == nil && n > 0, pm.Decl.Pos(), len(in.Traces), why, c.witness(bad)...)
		}
	}
	for _, name := range []string{"client.(*Client).SubscribeMultiple", "client.(*Client).UnsubscribeMultiple"} {
		fi := c.mustFunc(r, name)
		if fi == nil {
			continue
		}
		in := c.traces(fi)
		var bad *Trace
		n := 0
		for _, t := range in.Traces {
			s := t.first(or(csendOf(v, "Subscribe"), csendOf(v, "Unsubscribe")))
			if s < 0 {
				continue
			}
			n++
			p := t.first(callTo(put))
			nx := t.first(callTo(v.csNext))
			if p < 0 || nx < 0 || !(nx < p && p < s) {
				bad = t
			}
		}
		r.Check(name+":NextID≺Put≺send", bad == nil && n > 0, fi.Decl.Pos(), len(in.Traces),
			"the request is on the wire before its future is registered: a fast acknowledgement or a connection loss in between leaves the future unresolved for ever", c.witness(bad)...)
	}
}

func c09AckFlow(c *Ctx, v *vocab) {
	r := c.Rule("C09/ACKFLOW", "TRACE", "client handlers: PUBACK/PUBCOMP/SUBACK/UNSUBACK ⇒ DeletePacket(Outgoing,id) on every non-error path; PUBREC ⇒ SavePacket(Outgoing,PUBREL(id))→ok ≺ send(PUBREL) on every non-error path", 5)
	for _, typ := range []string{"Puback", "Pubcomp", "Suback", "Unsuback"} {
		fi := c.handlerOf(r, "client", typ)
		if fi == nil {
			continue
		}
		in := c.traces(fi)
		var bad *Trace
		n := 0
		for _, t := range in.Traces {
			if !t.success() {
				continue
			}
			n++
			d := t.first(and(callTo(v.csDelete), argConstInt(0, v.outgoing)))
			if d < 0 || t.errOutcome(t.Ev[d]) != -1 {
				bad = t
			}
		}
		r.Check(fi.Name+"@"+typ+":DeletePacket(Outgoing)", bad == nil && n > 0, fi.Decl.Pos(), len(in.Traces), "an acknowledged packet stays in the session and is retransmitted on every later connect", c.witness(bad)...)
	}
	fi := c.handlerOf(r, "client", "Pubrec")
	if fi == nil {
		return
	}
	in := c.traces(fi)
	var bad *Trace
	n := 0
	for _, t := range in.Traces {
		if !t.success() {
			continue
		}
		n++
		s := t.first(csendOf(v, "Pubrel"))
		sv := t.first(and(callTo(v.csSave), argConstInt(0, v.outgoing), argIs(1, "packet", "Pubrel")))
		if s < 0 || sv < 0 || sv > s || t.errOutcome(t.Ev[sv]) != -1 {
			bad = t
		}
	}
	r.Check(fi.Name+":SavePacket(Outgoing,PUBREL)≺send(PUBREL)", bad == nil && n > 0, fi.Decl.Pos(), len(in.Traces),
		"a PUBREC must always replace the stored PUBLISH by the PUBREL and send it (also for flows resumed from the session, for which no future exists)", c.witness(bad)...)
	f := c.P.Field("packet", "Pubrel", "ID")
	sig := fi.Obj.Type().(*types.Signature)
	okID, found := true, false
	for _, t := range in.Traces {
		for _, e := range t.Ev {
			if e.Kind == EvAssign && e.LObj == f {
				found = true
				if sig.Params().Len() == 0 || evRHSObj(&Interp{P: c.P, Info: fi.Pkg.TypesInfo}, e) != sig.Params().At(0) {
					okID = false
				}
			}
		}
	}
	r.Check(fi.Name+":Pubrel.ID=id", found && okID, fi.Decl.Pos(), len(in.Traces), "the PUBREL must carry the id of the PUBREC")
}

func (c *Ctx) connackHandler(r *Rule) *FuncInfo {
	// the function called with the *packet.Connack in the client's processor
	pr := c.P.Func("client.(*Client).processor")
	if pr == nil {
		r.Undecided("client processor", 0, "not found")
		return nil
	}
	in := c.traces(pr)
	for _, t := range in.Traces {
		for _, e := range t.Ev {
			if e.Kind == EvCall && len(e.ArgTypes) == 1 && typeIs(e.ArgTypes[0], "packet", "Connack", true) {
				if f, ok := e.Callee.(*types.Func); ok && c.P.ByObj[f] != nil {
					c.Touch(c.P.ByObj[f].Name)
					return c.P.ByObj[f]
				}
			}
		}
	}
	r.Undecided("client connack handler", pr.Decl.Pos(), "no call with a *packet.Connack in the processor")
	return nil
}

func c09Resend(c *Ctx, v *vocab) {
	r := c.Rule("C09/RESEND", "TRACE", "connack handler, accepted: state=connected ≺ connectFuture.Complete ≺ AllPackets(Outgoing)→ok ≺ loop{Dup=true on *Publish; send}; refused: die and Cancel, no Complete", 3)
	fi := c.connackHandler(r)
	if fi == nil {
		return
	}
	complete, cancel := futureMethod(c, "Complete"), futureMethod(c, "Cancel")
	rc := c.P.Field("packet", "Connack", "ReturnCode")
	dup := c.P.Field("packet", "Publish", "Dup")
	connected := c.clientConst("clientConnected")
	for _, accepted := range []bool{true, false} {
		code := vInt(0)
		if !accepted {
			code = vInt(5)
		}
		in := c.P.TraceFunc(fi, TraceOpts{Init: map[types.Object]Val{rc: code}, Oracle: c.stateOracle(v.cfState, c.clientConst("clientConnecting")), NonNil: c.defOpts().NonNil})
		key := fmt.Sprintf("%s@accepted=%v", fi.Name, accepted)
		if c.undecidedIfOver(r, in, key) {
			continue
		}
		var bad *Trace
		why := ""
		nLoop := 0
		for _, t := range in.Traces {
			cp := t.first(callTo(complete))
			if !accepted {
				if cp >= 0 {
					bad, why = t, "connect future completed although the broker refused the connection"
				}
				if !t.has(callTo(v.cDie)) || !t.has(callTo(cancel)) {
					bad, why = t, "refused connection must die and cancel the connect future"
				}
				continue
			}
			st := t.first(func(e *Event) bool { k, ok := c.stateStore(fi, v.cfState, e); return ok && k == connected })
			all := t.first(and(callTo(v.csAll), argConstInt(0, v.outgoing)))
			if cp < 0 || st < 0 || st > cp {
				bad, why = t, "Complete(connect future) must follow the state store 'connected'"
				continue
			}
			if all < 0 || all < cp {
				bad, why = t, "stored packets must be fetched (and resent) after the connect future was completed"
				continue
			}
			for i := all; i < len(t.Ev); i++ {
				e := t.Ev[i]
				if !or(callTo(v.cSend), callTo(v.connSend))(e) {
					continue
				}
				nLoop++
				if t.errOutcome(t.Ev[all]) != -1 {
					bad, why = t, "resend although AllPackets failed"
				}
				if typeIs(e.ArgTypes[0], "packet", "Publish", true) {
					set := false
					for _, p := range t.Ev[all:i] {
						if p.Kind == EvAssign && p.LObj == dup && p.RVal.K == VBool && p.RVal.B && !p.Conditional {
							set = true
						}
					}
					if !set {
						bad, why = t, "a stored PUBLISH is resent without Dup=true"
					}
				}
			}
		}
		r.Check(key, bad == nil && (nLoop > 0 || !accepted), fi.Decl.Pos(), len(in.Traces), why, c.witness(bad)...)
		if accepted {
			w, n := iterationWithoutSend(in.Traces, and(callTo(v.csAll), argConstInt(0, v.outgoing)), or(callTo(v.cSend), callTo(v.connSend)))
			r.Check(fi.Name+":every stored packet is resent", w == nil && n > 0, fi.Decl.Pos(), len(in.Traces),
				"an iteration of the resend loop completes without sending the stored packet (a stored PUBREL or PUBLISH is skipped: its flow never finishes and its future never resolves)", c.witness(w)...)
		}
	}
	// the resend loop distinguishes publishes
	in := c.traces(fi)
	saw := false
	for _, t := range in.Traces {
		for _, e := range t.Ev {
			if or(callTo(v.cSend), callTo(v.connSend))(e) && len(e.ArgTypes) > 0 && typeIs(e.ArgTypes[0], "packet", "Publish", true) {
				saw = true
			}
		}
	}
	r.Check(fi.Name+":Dup on resent PUBLISH", saw, fi.Decl.Pos(), len(in.Traces), "the resend loop must recognise *packet.Publish and flag it duplicate")
}

func c09Complete(c *Ctx, v *vocab) {
	r := c.Rule("C09/COMPLETE", "WHO+TRACE", "Future.Complete in package client: only in acknowledgement handlers on the future fetched with the acknowledged id, in the connack handler on the connect future, and in PublishMessage under QoS 0 after send→ok", 5)
	complete := futureMethod(c, "Complete")
	get := storeMethod(c, "Get")
	mf := c.msgFields()
	allowed := map[string]string{}
	for _, typ := range []string{"Puback", "Pubcomp", "Suback", "Unsuback"} {
		if fi := c.handlerOf(r, "client", typ); fi != nil {
			allowed[fi.Name] = "ack"
		}
	}
	if fi := c.connackHandler(r); fi != nil {
		allowed[fi.Name] = "connack"
	}
	allowed["client.(*Client).PublishMessage"] = "qos0"
	for _, fi := range c.P.LibFuncs("client") {
		if fi.Decl.Body == nil {
			continue
		}
		in := c.traces(fi)
		h := &Interp{P: c.P, Info: fi.Pkg.TypesInfo}
		sites := map[ast.Node]bool{}
		for _, t := range in.Traces {
			for _, e := range t.Ev {
				if callTo(complete)(e) {
					sites[e.Node] = true
				}
			}
		}
		if len(sites) == 0 {
			continue
		}
		kind, ok := allowed[fi.Name]
		if !ok {
			r.Fail(fi.Name+":Future.Complete", fi.Decl.Pos(), len(in.Traces), "a future is completed outside the acknowledgement handlers")
			continue
		}
		good := true
		why := ""
		var w *Trace
		switch kind {
		case "ack":
			sig := fi.Obj.Type().(*types.Signature)
			for _, t := range in.Traces {
				for i, e := range t.Ev {
					if !callTo(complete)(e) {
						continue
					}
					sel, isSel := ast.Unparen(e.Call.Fun).(*ast.SelectorExpr)
					if !isSel {
						good = false
						continue
					}
					recv := h.objOf(sel.X)
					// receiver defined by futureStore.Get(id of the acknowledgement)
					fromGet := false
					for _, p := range t.Ev[:i] {
						if p.Kind == EvAssign && p.LObj == recv && recv != nil {
							if call, isC := ast.Unparen(p.RHS).(*ast.CallExpr); isC {
								for _, q := range t.Ev[:i] {
									if q.Call == call && callTo(get)(q) {
										arg := ast.Unparen(call.Args[0])
										if ss, isS := arg.(*ast.SelectorExpr); isS {
											arg = ss.X
										}
										if sig.Params().Len() > 0 && h.objOf(arg) == sig.Params().At(0) {
											fromGet = true
										}
									}
								}
							}
						}
					}
					if !fromGet {
						good, why, w = false, "the completed future is not the one registered under the acknowledged packet id", t
					}
				}
			}
		case "connack":
			for _, t := range in.Traces {
				for _, e := range t.Ev {
					if callTo(complete)(e) {
						if sel, isSel := ast.Unparen(e.Call.Fun).(*ast.SelectorExpr); !isSel || h.objOf(sel.X) != v.cfConnectFuture {
							good, why, w = false, "connack handler completes a future other than the connect future", t
						}
					}
				}
			}
		case "qos0":
			for q := int64(0); q <= 2; q++ {
				qin := c.P.TraceFunc(fi, TraceOpts{Init: map[types.Object]Val{mf.msgQOS: vInt(q)}, NonNil: c.defOpts().NonNil})
				for _, t := range qin.Traces {
					cp := t.first(callTo(complete))
					if cp < 0 {
						continue
					}
					s := t.first(csendOf(v, "Publish"))
					if q > 0 {
						good, why, w = false, fmt.Sprintf("a QoS %d publish future is completed before any acknowledgement", q), t
					} else if s < 0 || s > cp || t.errOutcome(t.Ev[s]) != -1 {
						good, why, w = false, "QoS 0 future completed before the packet was handed to the connection", t
					}
				}
			}
		}
		r.Check(fi.Name+":Future.Complete ("+kind+")", good, fi.Decl.Pos(), len(in.Traces), why, c.witness(w)...)
	}
}

func c09Cleanup(c *Ctx, v *vocab, prop string) {
	r := c.Rule(prop+"/CLEANUP", "TRACE", "client cleanup: futureStore.Clear() on every path; connect future cancelled when not yet acknowledged; die() and end() call cleanup; every error return of Connect/Publish/Subscribe/Unsubscribe after the connection was used returns cleanup(...)", 8)
	cl := c.P.ByObj[v.cCleanup]
	if cl == nil {
		r.Undecided("client cleanup", 0, "not found")
		return
	}
	clear := storeMethod(c, "Clear")
	cancel := futureMethod(c, "Cancel")
	h := &Interp{P: c.P, Info: cl.Pkg.TypesInfo}
	disconnected := c.clientConst("clientDisconnected")
	for st := int64(0); st <= 5; st++ {
		in := c.P.TraceFunc(cl, TraceOpts{Oracle: c.stateOracle(v.cfState, st), Init: map[types.Object]Val{v.cfConnectFuture: {K: VNonNil}}})
		var bad *Trace
		why := ""
		for _, t := range in.Traces {
			cs := t.all(callTo(clear))
			if len(cs) != 1 {
				bad, why = t, "cleanup path without exactly one futureStore.Clear()"
				continue
			}
			if sel, ok := ast.Unparen(t.Ev[cs[0]].Call.Fun).(*ast.SelectorExpr); !ok || h.objOf(sel.X) != v.cfFutureStore {
				bad, why = t, "Clear() not on the client's future store"
			}
			cn := t.first(callTo(cancel))
			wantCancel := st < c.clientConst("clientConnacked")
			if wantCancel != (cn >= 0) {
				bad, why = t, fmt.Sprintf("connect future cancelled=%v in state %d (expected %v)", cn >= 0, st, wantCancel)
			}
			ss := t.first(func(e *Event) bool { k, ok := c.stateStore(cl, v.cfState, e); return ok && k == disconnected })
			if ss < 0 {
				bad, why = t, "cleanup does not mark the client disconnected"
			}
		}
		r.Check(fmt.Sprintf("%s@state=%d", cl.Name, st), bad == nil && len(in.Traces) > 0, cl.Decl.Pos(), len(in.Traces), why, c.witness(bad)...)
	}
	// die / end reach cleanup
	for _, f := range []*types.Func{v.cDie, v.cEnd} {
		fi := c.P.ByObj[f]
		if fi == nil {
			r.Undecided("client die/end", 0, "not found")
			continue
		}
		found := false
		check := func(in *Interp) {
			for _, t := range in.Traces {
				if t.has(callTo(v.cCleanup)) {
					found = true
				}
			}
		}
		check(c.traces(fi))
		for _, lit := range funcLits(fi.Decl.Body) {
			check(c.P.TraceLit(fi, lit, c.defOpts()))
		}
		r.Check(fi.Name+"→cleanup", found, fi.Decl.Pos(), 1, "teardown entry point must run cleanup")
	}
	// API functions: error returns after the connection was used go through cleanup
	for _, name := range []string{"client.(*Client).Connect", "client.(*Client).PublishMessage", "client.(*Client).SubscribeMultiple", "client.(*Client).UnsubscribeMultiple"} {
		fi := c.mustFunc(r, name)
		if fi == nil {
			continue
		}
		in := c.traces(fi)
		hh := &Interp{P: c.P, Info: fi.Pkg.TypesInfo}
		var bad *Trace
		n := 0
		for _, t := range in.Traces {
			if t.Exit != ExitReturn || len(t.Results) != 2 {
				continue
			}
			// after the first use of the session / connection
			used := t.first(or(callTo(v.csSave, v.csReset, v.cSend, v.connSend), func(e *Event) bool {
				k, ok := c.stateStore(fi, v.cfState, e)
				return ok && k >= 1
			}))
			if used < 0 {
				continue
			}
			res := ast.Unparen(t.Results[1])
			if tv, ok := fi.Pkg.TypesInfo.Types[res]; ok && tv.IsNil() {
				continue
			}
			n++
			call, isCall := res.(*ast.CallExpr)
			if !isCall {
				bad = t
				continue
			}
			if f, _ := hh.callee(&state{env: newEnv()}, call).(*types.Func); f != v.cCleanup {
				bad = t
			}
		}
		r.Check(name+":error returns → cleanup", bad == nil && n > 0, fi.Decl.Pos(), len(in.Traces), "an error return after the connection/session was used must clean up (cancel futures, close the connection state)", c.witness(bad)...)
	}
}

// c09WaitGo: typestate of the client's tomb.
func c09WaitGo(c *Ctx, v *vocab, prop string) {
	r := c.Rule(prop+"/WAITGO", "TRACE", "Connect: every return after the state was stored ≥ connecting has executed tomb.Go — or every tomb.Wait reachable from Close/Disconnect is guarded by a flag that is only set together with tomb.Go", 1)
	fi := c.mustFunc(r, "client.(*Client).Connect")
	if fi == nil {
		return
	}
	in := c.traces(fi)
	var bad *Trace
	n := 0
	for _, t := range in.Traces {
		if t.Exit != ExitReturn {
			continue
		}
		st := t.first(func(e *Event) bool { k, ok := c.stateStore(fi, v.cfState, e); return ok && k >= 1 })
		if st < 0 {
			continue
		}
		n++
		if !t.has(tombCall("Go")) && bad == nil {
			bad = t
		}
	}
	if bad == nil {
		r.Check(fi.Name+":state≥connecting⇒tomb.Go", n > 0, fi.Decl.Pos(), len(in.Traces), "")
		return
	}
	// alternative: Wait guarded by a witness flag
	guardOK, why := c.waitGuarded(v)
	r.Check(fi.Name+":state≥connecting⇒tomb.Go", guardOK, bad.Ret.Pos(), len(in.Traces),
		"Connect returns an error after the state was stored but before tomb.Go: Close() then passes its state check and blocks for ever in tomb.Wait (no goroutine was ever tracked). "+why, c.witness(bad)...)
}

// waitGuarded: every tomb.Wait on the client's tomb sits behind a true test of a bool field whose
// every store of true is accompanied by tomb.Go on the same path and which is never reset.
func (c *Ctx) waitGuarded(v *vocab) (bool, string) {
	var flags []*types.Var
	for _, fi := range c.P.LibFuncs("client") {
		if fi.Decl.Body == nil || !strings.Contains(fi.Name, "(*Client)") {
			continue
		}
		in := c.traces(fi)
		h := &Interp{P: c.P, Info: fi.Pkg.TypesInfo}
		for _, t := range in.Traces {
			for i, e := range t.Ev {
				if !tombCall("Wait")(e) {
					continue
				}
				if sel, ok := ast.Unparen(e.Call.Fun).(*ast.SelectorExpr); !ok || h.objOf(sel.X) != v.cfTomb {
					continue
				}
				var flag *types.Var
				for _, p := range t.Ev[:i] {
					if (p.Kind == EvCond || p.Kind == EvOutcome) && p.Outcome && p.Var != nil {
						if fv, ok := p.Var.(*types.Var); ok && fv.IsField() && isBasicType(fv.Type()) {
							if b, ok := fv.Type().Underlying().(*types.Basic); ok && b.Kind() == types.Bool {
								flag = fv
							}
						}
					}
				}
				if flag == nil {
					return false, "tomb.Wait in " + fi.Name + " is not guarded by a flag"
				}
				flags = append(flags, flag)
			}
		}
	}
	if len(flags) == 0 {
		return false, "no guarded tomb.Wait found"
	}
	for _, flag := range flags {
		for _, fi := range c.P.LibFuncs("client") {
			if fi.Decl.Body == nil {
				continue
			}
			for _, t := range c.traces(fi).Traces {
				for _, e := range t.Ev {
					if e.Kind == EvAssign && e.LObj == flag {
						if e.RVal.K == VBool && e.RVal.B {
							if !t.has(tombCall("Go")) {
								return false, "flag " + flag.Name() + " set to true on a path without tomb.Go in " + fi.Name
							}
						} else {
							return false, "flag " + flag.Name() + " is reset in " + fi.Name
						}
					}
				}
			}
		}
	}
	return true, "Wait is guarded by a witness flag of tomb.Go"
}

func c09Future(c *Ctx, v *vocab) {
	r := c.Rule("C09/FUTURE", "TRACE+LOCK", "Future.Complete/Cancel: close(channel) only on the !done side, under f.mutex, followed by done=true in the same critical section; Store.Clear cancels every stored future unless protected", 3)
	done := c.P.Field("client/future", "Future", "done")
	mu := c.P.Field("client/future", "Future", "mutex")
	for _, name := range []string{"Complete", "Cancel"} {
		m := futureMethod(c, name)
		fi := c.P.ByObj[m]
		if fi == nil {
			r.Undecided("future.(*Future)."+name, 0, "not found")
			continue
		}
		c.Touch(fi.Name)
		for _, d := range []bool{false, true} {
			in := c.P.TraceFunc(fi, TraceOpts{Init: map[types.Object]Val{done: vBool(d)}})
			var bad *Trace
			why := ""
			for _, t := range in.Traces {
				cl := t.all(func(e *Event) bool { return e.Kind == EvClose })
				if d && len(cl) > 0 {
					bad, why = t, "channel closed although the future is already done (double close panics)"
				}
				if !d {
					if len(cl) != 1 {
						bad, why = t, "an undone future must close exactly one channel"
						continue
					}
					// one critical section of f.mutex contains both the close and done=true (in either order: both
					// happen before the mutex is released, no other goroutine can observe one without the other)
					lock := -1
					for i, e := range t.Ev[:cl[0]] {
						if mo, op := c.mutexOp(in, e); mo == mu && e.Kind == EvCall {
							switch op {
							case "Lock":
								lock = i
							case "Unlock":
								lock = -1
							}
						}
					}
					end := len(t.Ev)
					for i := cl[0] + 1; i < len(t.Ev); i++ {
						if mo, op := c.mutexOp(in, t.Ev[i]); mo == mu && op == "Unlock" && t.Ev[i].Kind == EvCall {
							end = i
							break
						}
					}
					set := false
					if lock >= 0 {
						for _, e := range t.Ev[lock:end] {
							if e.Kind == EvAssign && e.LObj == done && e.RVal.K == VBool && e.RVal.B {
								set = true
							}
						}
					}
					if lock < 0 || !set {
						bad, why = t, "close not inside the critical section that sets done=true"
					}
					want := "completed"
					if name == "Cancel" {
						want = "cancelled"
					}
					if t.Ev[cl[0]].ChanObj == nil || t.Ev[cl[0]].ChanObj.Name() != want {
						// resolved by field object, the name is only for the message
						if t.Ev[cl[0]].ChanObj != types.Object(c.P.Field("client/future", "Future", want)) {
							bad, why = t, name+" closes the wrong channel"
						}
					}
				}
			}
			r.Check(fmt.Sprintf("%s@done=%v", fi.Name, d), bad == nil && len(in.Traces) > 0, fi.Decl.Pos(), len(in.Traces), why, c.witness(bad)...)
		}
	}
}

// ------------------------------------------------------------------ C10

const c10Explanation = "Decision tables (TRACE engine) of the client's inbound handlers: processPublish over (QoS, early-callback mode): callback iff QoS<=1 or early; QoS 1: PUBACK after callback→ok; QoS 2: SavePacket(Incoming)→ok ≺ PUBREC on every non-error path; QoS 0: no send. processPubrel over (stored, early): stored: callback iff !early, DeletePacket(Incoming) ≺ PUBCOMP; not stored: PUBCOMP. " +
	"(NOACK) on a path where the callback returned an error nothing is sent afterwards and die(err, closeConn=true) follows; (CBONCE) the message callback has exactly these two call sites with complementary guards for QoS 2. Broker scripts with drops and resumption in general are not decided."

func propC10(c *Ctx) string {
	v := c.vocab()
	gate := c.Rule("C10/VOCAB", "TABLE", "vocabulary resolves", 1)
	if m := v.missing(); len(m) > 0 {
		gate.Undecided("vocabulary", 0, strings.Join(m, ","))
		return c10Explanation
	}
	gate.Pass("vocabulary", 0, 1, "resolved")
	c10Publish(c, v)
	c10Pubrel(c, v)
	c10NoAck(c, v)
	// a rejected message must end the connection (so that the broker redelivers): Close has to close the carrier on
	// every path; and the handshake is reached only if the stream decoder reads every legal PUBLISH
	c19ErrClose(c)
	c01Const(c, "C10/DETECT")
	c10CloseWait(c, c.vocab(), "C10")
	c.NotDecide("broker scripts with connection drops and session resumption in general", "the announce-on-publish mode's documented redelivery", "application-level deduplication")
	c.Assume("Session contract: LookupPacket returns nil for unknown ids", "instance-insensitive field keys")
	return c10Explanation
}

func isCallbackCall(v *vocab) Pred {
	return func(e *Event) bool { return e.Kind == EvCall && e.Callee == types.Object(v.cfCallback) }
}

// message callback: Callback(msg, nil) — first argument not nil
func isMsgCallback(v *vocab) Pred {
	return func(e *Event) bool {
		return isCallbackCall(v)(e) && len(e.ArgVals) == 2 && e.ArgVals[0].K != VNil && e.ArgVals[1].K == VNil
	}
}

func c10Publish(c *Ctx, v *vocab) {
	r := c.Rule("C10/TABLE-PUBLISH", "TRACE(table)", "client processPublish over (QoS, early): callback iff QoS≤1 ∨ early; QoS1→send(PUBACK(id)) after callback→ok; QoS2→SavePacket(Incoming)→ok ≺ send(PUBREC(id)) on every non-error path; QoS0→no send", 6)
	fi := c.handlerOf(r, "client", "Publish")
	if fi == nil {
		return
	}
	mf := c.msgFields()
	for q := int64(0); q <= 2; q++ {
		for _, early := range []bool{false, true} {
			in := c.P.TraceFunc(fi, TraceOpts{Init: map[types.Object]Val{mf.msgQOS: vInt(q), v.cfEarly: vBool(early), v.cfCallback: {K: VNonNil}}, NonNil: c.defOpts().NonNil})
			key := fmt.Sprintf("%s@QOS=%d,early=%v", fi.Name, q, early)
			if c.undecidedIfOver(r, in, key) {
				continue
			}
			wantCB := q <= 1 || early
			var bad *Trace
			why := ""
			nsucc := 0
			for _, t := range in.Traces {
				if !t.success() {
					continue
				}
				nsucc++
				cbs := t.all(isMsgCallback(v))
				if (len(cbs) == 1) != wantCB || len(cbs) > 1 {
					bad, why = t, fmt.Sprintf("callback invoked %d times, expected %v", len(cbs), wantCB)
				}
				sends := t.all(or(callTo(v.cSend), callTo(v.connSend)))
				switch q {
				case 0:
					if len(sends) != 0 {
						bad, why = t, "QoS 0 publish answered with a packet"
					}
				case 1:
					if len(sends) != 1 || !argIs(0, "packet", "Puback")(t.Ev[sends[0]]) {
						bad, why = t, "QoS 1 publish must be answered by exactly one PUBACK"
					} else if len(cbs) == 1 && (cbs[0] > sends[0] || t.errOutcome(t.Ev[cbs[0]]) != -1) {
						bad, why = t, "PUBACK sent before the callback accepted the message"
					}
				case 2:
					sv := t.first(and(callTo(v.csSave), argConstInt(0, v.incoming), argIs(1, "packet", "Publish")))
					if len(sends) != 1 || !argIs(0, "packet", "Pubrec")(t.Ev[sends[0]]) {
						bad, why = t, "every QoS 2 publish must be answered by exactly one PUBREC (also a duplicate of a stored one)"
					} else if sv < 0 || sv > sends[0] || t.errOutcome(t.Ev[sv]) != -1 {
						bad, why = t, "PUBREC sent before the publish was stored"
					}
				}
			}
			r.Check(key, bad == nil && nsucc > 0, fi.Decl.Pos(), len(in.Traces), why, c.witness(bad)...)
		}
	}
	// ids
	in := c.traces(fi)
	h := &Interp{P: c.P, Info: fi.Pkg.TypesInfo}
	pid := c.P.Field("packet", "Publish", "ID")
	for _, typ := range []string{"Puback", "Pubrec"} {
		f := c.P.Field("packet", typ, "ID")
		found, ok := false, true
		for _, t := range in.Traces {
			for _, e := range t.Ev {
				if e.Kind == EvAssign && e.LObj == f {
					found = true
					if evRHSObj(h, e) != pid {
						ok = false
					}
				}
			}
		}
		c.Rule("C10/ID", "TRACE", "acknowledgements carry the id of the packet they answer", 3).Check(fi.Name+":"+typ+".ID=Publish.ID", found && ok, fi.Decl.Pos(), len(in.Traces), "")
	}
}

func c10Pubrel(c *Ctx, v *vocab) {
	r := c.Rule("C10/TABLE-PUBREL", "TRACE(table)", "client processPubrel over (stored, early): stored→callback iff !early, DeletePacket(Incoming,id)→ok ≺ send(PUBCOMP(id)); not stored→send(PUBCOMP(id)); every non-error path sends a PUBCOMP", 4)
	fi := c.handlerOf(r, "client", "Pubrel")
	if fi == nil {
		return
	}
	sig := fi.Obj.Type().(*types.Signature)
	// A PUBREL with the invalid id 0 cannot come off the wire when the PUBREL decoder rejects it; paths of
	// the handler that are taken only for an invalid id are then outside the property's quantifier.
	wireIDValid := c.decoderRejectsInvalidID(r, "Pubrel")
	var idParam types.Object
	if sig.Params().Len() > 0 {
		idParam = sig.Params().At(0)
	}
	for _, early := range []bool{false, true} {
		in := c.P.TraceFunc(fi, TraceOpts{Init: map[types.Object]Val{v.cfEarly: vBool(early), v.cfCallback: {K: VNonNil}}, NonNil: c.defOpts().NonNil})
		if c.undecidedIfOver(r, in, fi.Name) {
			continue
		}
		for _, stored := range []bool{true, false} {
			key := fmt.Sprintf("%s@stored=%v,early=%v", fi.Name, stored, early)
			var bad *Trace
			why := ""
			n := 0
			for _, t := range in.Traces {
				if !t.success() {
					continue
				}
				// classify the path: was the looked-up packet a stored publish?
				isStored := 0
				for _, e := range t.Ev {
					if e.Kind == EvOutcome && e.DefCall != nil {
						if e.DefCall.Kind == EvAssert && len(e.DefCall.Types) == 1 && typeIs(e.DefCall.Types[0], "packet", "Publish", true) {
							if e.Outcome {
								isStored = 1
							} else {
								isStored = -1
							}
						}
						if e.DefCall.Kind == EvCall && sameFunc(e.DefCall.Callee, v.csLookup) && e.Var != nil && !isErrType(e.Var.Type()) && e.Nilness != 0 {
							isStored = e.Nilness
						}
					}
					if e.Kind == EvTypeCase && len(e.Types) == 1 && typeIs(e.Types[0], "packet", "Publish", true) {
						isStored = 1
					}
				}
				if isStored == 0 {
					bad, why = t, "path does not distinguish a stored publish from an unknown id"
					continue
				}
				if (isStored == 1) != stored {
					continue
				}
				if wireIDValid && pathNeedsInvalidID(fi, t, idParam) {
					continue
				}
				n++
				pc := t.all(csendOf(v, "Pubcomp"))
				if len(pc) != 1 || t.errOutcome(t.Ev[pc[0]]) == 1 {
					bad, why = t, "a PUBREL is consumed without (exactly one) PUBCOMP: the broker's handshake never terminates"
					continue
				}
				cbs := t.all(isMsgCallback(v))
				if stored {
					if (len(cbs) == 1) != !early || len(cbs) > 1 {
						bad, why = t, fmt.Sprintf("callback invoked %d times for a released QoS 2 message (early=%v)", len(cbs), early)
					}
					d := t.first(and(callTo(v.csDelete), argConstInt(0, v.incoming)))
					if d < 0 || d > pc[0] || t.errOutcome(t.Ev[d]) != -1 {
						bad, why = t, "the stored publish must be deleted before the PUBCOMP is written: a failed write would otherwise make the retransmitted PUBREL run the callback a second time"
					}
					if len(cbs) == 1 && (cbs[0] > pc[0] || t.errOutcome(t.Ev[cbs[0]]) != -1) {
						bad, why = t, "PUBCOMP sent before the callback accepted the message"
					}
					if len(cbs) == 1 && d >= 0 && d < cbs[0] {
						bad, why = t, "the stored publish is deleted before the callback accepted it (a rejected message could not be redelivered)"
					}
				} else if len(cbs) != 0 {
					bad, why = t, "callback invoked for an unknown packet id"
				}
			}
			r.Check(key, bad == nil && n > 0, fi.Decl.Pos(), len(in.Traces), why, c.witness(bad)...)
		}
	}
	// id of the pubcomp
	in := c.traces(fi)
	h := &Interp{P: c.P, Info: fi.Pkg.TypesInfo}
	f := c.P.Field("packet", "Pubcomp", "ID")
	found, ok := false, true
	for _, t := range in.Traces {
		for _, e := range t.Ev {
			if e.Kind == EvAssign && e.LObj == f {
				found = true
				ro := evRHSObj(h, e)
				if e.RObj != nil {
					ro = e.RObj
				}
				if !(sig.Params().Len() > 0 && ro == sig.Params().At(0)) && ro != c.P.Field("packet", "Publish", "ID") {
					ok = false
				}
			}
		}
	}
	c.Rule("C10/ID", "TRACE", "acknowledgements carry the id of the packet they answer", 3).Check(fi.Name+":Pubcomp.ID=id", found && ok, fi.Decl.Pos(), len(in.Traces), "")
}

func c10NoAck(c *Ctx, v *vocab) {
	r := c.Rule("C10/NOACK", "TRACE", "on every path where the message callback returned an error: no packet is sent afterwards, nothing is deleted, and die(err, closeConn=true) follows (the broker will redeliver)", 2)
	n := 0
	for _, typ := range []string{"Publish", "Pubrel"} {
		fi := c.handlerOf(r, "client", typ)
		if fi == nil {
			continue
		}
		in := c.P.TraceFunc(fi, TraceOpts{Init: map[types.Object]Val{v.cfCallback: {K: VNonNil}}, NonNil: c.defOpts().NonNil})
		var bad *Trace
		why := ""
		k := 0
		for _, t := range in.Traces {
			for i, e := range t.Ev {
				if !isMsgCallback(v)(e) || t.errOutcome(e) != 1 {
					continue
				}
				k++
				if t.firstFrom(i+1, or(callTo(v.cSend), callTo(v.connSend), callTo(v.csDelete))) >= 0 {
					bad, why = t, "an acknowledgement is sent (or the stored packet deleted) although the callback rejected the message"
				}
				d := t.firstFrom(i+1, callTo(v.cDie))
				if d < 0 {
					bad, why = t, "callback error without die()"
				} else if len(t.Ev[d].ArgVals) < 2 || t.Ev[d].ArgVals[1].K != VBool || !t.Ev[d].ArgVals[1].B {
					bad, why = t, "die() after a callback error must close the connection (closeConn=true), else the broker never redelivers"
				}
			}
		}
		n += k
		r.Check(fi.Name+":callback→err", bad == nil && k > 0, fi.Decl.Pos(), len(in.Traces), why, c.witness(bad)...)
	}
	// CBONCE: call sites of the message callback
	rc := c.Rule("C10/CBONCE", "WHO", "the message callback Callback(msg, nil) has exactly two call sites: the PUBLISH handler and the PUBREL handler", 1)
	sites := map[string]int{}
	for _, fi := range c.P.LibFuncs("client") {
		if fi.Decl.Body == nil {
			continue
		}
		seen := map[ast.Node]bool{}
		scan := func(in *Interp) {
			for _, t := range in.Traces {
				for _, e := range t.Ev {
					if isMsgCallback(v)(e) && !seen[e.Node] {
						seen[e.Node] = true
						sites[fi.Name]++
					}
				}
			}
		}
		scan(c.traces(fi))
		for _, lit := range funcLits(fi.Decl.Body) {
			scan(c.P.TraceLit(fi, lit, c.defOpts()))
		}
	}
	var names []string
	for k := range sites {
		names = append(names, fmt.Sprintf("%s×%d", k, sites[k]))
	}
	sort.Strings(names)
	pub, rel := c.handlerOf(rc, "client", "Publish"), c.handlerOf(rc, "client", "Pubrel")
	ok := pub != nil && rel != nil && len(sites) == 2 && sites[pub.Name] == 1 && sites[rel.Name] == 1
	rc.Check("client message callback sites", ok, 0, 1, "call sites: "+strings.Join(names, ", "))
}

// ------------------------------------------------------------------ C17

const c17Explanation = "Static analysis of client.Service: (BOOK) the dispatcher updates the subscription book (Set for every element / Empty for every topic) before it hands the command to the client, so a command that fails on a dying connection is still part of what is re-established; resubscribe replays subscriptions.All() sorted and waits with the resubscribe timeout; " +
	"(FUT) every dispatched command's future is attached to the client's future (after call→ok) or cancelled (after call→err); (RESTART) Start installs a fresh tomb before tomb.Go, Stop kills then waits, and clears futures only after un-protecting the store; (PROTECT) the store is protected in Start before the supervisor runs, every new client receives the service's store and session before Connect, a protected Store.Clear cancels nothing; " +
	"(QUEUE) only the API entry points send into the command queue (the dispatcher never re-queues: FIFO); (ASSERT) the dispatcher's assertions are justified; inherits C09/WAITGO and C09/DIE (a wedged Close wedges the supervisor). Failure schedules and Start/Stop races are not decided."

func propC17(c *Ctx) string {
	v := c.vocab()
	gate := c.Rule("C17/VOCAB", "TABLE", "vocabulary resolves", 1)
	if m := v.missing(); len(m) > 0 {
		gate.Undecided("vocabulary", 0, strings.Join(m, ","))
		return c17Explanation
	}
	gate.Pass("vocabulary", 0, 1, "resolved")
	c17Book(c, v)
	c17Restart(c, v)
	c17Protect(c, v)
	c17Queue(c, v)
	c.assertRule("C17/ASSERT", 4, "client")
	c09WaitGo(c, v, "C17")
	c09WaitLock(c, v, "C17")
	dieRule(c, v, "C17/DIE", "client", 8)
	c17Resub(c, v)
	// the service's book of subscriptions is a topic tree edited with Set / Empty: emptying one filter must not take
	// other filters (below it) with it
	c05Prune(c, "C17/PRUNE")
	// futures survive reconnects only if the resumed session's packets are all retransmitted
	c09Resend(c, v)
	c.NotDecide("behaviour over failure schedules", "Start/Stop races from several goroutines", "backoff timing", "that the broker accepts the resubscription")
	c.Assume("topic.Tree Set/Empty/All semantics (C05)", "future.Attach propagates completion (client/future)")
	return c17Explanation
}

func c17Book(c *Ctx, v *vocab) {
	r := c.Rule("C17/BOOK", "TRACE", "dispatcher: subscribe → subscriptions.Set(v.Topic, v) for every element ≺ client.SubscribeMultiple; unsubscribe → subscriptions.Empty(topic) for every topic ≺ client.UnsubscribeMultiple; each command's future is attached after call→ok or cancelled after call→err", 5)
	fi := c.mustFunc(r, "client.(*Service).dispatcher")
	if fi == nil {
		return
	}
	book := c.P.Field("client", "Service", "subscriptions")
	subM := c.P.Method("client", "Client", "SubscribeMultiple")
	unsM := c.P.Method("client", "Client", "UnsubscribeMultiple")
	pubM := c.P.Method("client", "Client", "PublishMessage")
	attach, cancel := futureMethod(c, "Attach"), futureMethod(c, "Cancel")
	cmdFuture := c.P.Field("client", "command", "future")
	fSub, fUns, fPub := c.P.Field("client", "command", "subscribe"), c.P.Field("client", "command", "unsubscribe"), c.P.Field("client", "command", "publish")
	if book == nil || subM == nil || unsM == nil || pubM == nil || cmdFuture == nil || fSub == nil {
		r.Undecided(fi.Name, fi.Decl.Pos(), "service vocabulary does not resolve")
		return
	}
	h := &Interp{P: c.P, Info: fi.Pkg.TypesInfo}
	type kind struct {
		name string
		flag *types.Var
		call *types.Func
		tree string
		list *types.Var
	}
	kinds := []kind{{"subscribe", fSub, subM, "Set", c.P.Field("client", "command", "subscriptions")}, {"unsubscribe", fUns, unsM, "Empty", c.P.Field("client", "command", "topics")}, {"publish", fPub, pubM, "", nil}}
	for _, k := range kinds {
		init := map[types.Object]Val{fSub: vBool(false), fUns: vBool(false), fPub: vBool(false)}
		init[k.flag] = vBool(true)
		if k.list != nil {
			init[k.list] = Val{K: VNonEmpty}
		}
		in := c.P.TraceFunc(fi, TraceOpts{Init: init})
		key := fi.Name + "@" + k.name
		if c.undecidedIfOver(r, in, key) {
			continue
		}
		var bad *Trace
		why := ""
		n := 0
		for _, t := range in.Traces {
			ci := t.first(callTo(k.call))
			if ci < 0 {
				continue
			}
			n++
			if k.tree != "" {
				m := t.first(c.treeCall(fi, book, k.tree))
				if m < 0 || m > ci {
					bad, why = t, "the subscription book is updated after (or not before) the client call: a command failing on a dying connection is lost from what gets resubscribed"
				} else {
					inList := false
					for _, l := range t.loopsAt(m) {
						if rs, ok := l.(*ast.RangeStmt); ok && h.objOf(rs.X) == k.list {
							inList = true
						}
					}
					if !inList {
						bad, why = t, "book update not inside the loop over the command's elements"
					}
				}
				if t.firstFrom(ci, c.treeCall(fi, book, treeMutators...)) >= 0 {
					bad, why = t, "book edited after the client call"
				}
			}
			// future discipline
			out := t.errOutcome(t.Ev[ci])
			at := t.firstFrom(ci, callTo(attach))
			cn := t.firstFrom(ci, callTo(cancel))
			switch out {
			case -1:
				if at < 0 || h.objOf(t.Ev[at].Call.Args[0]) != cmdFuture {
					bad, why = t, "command future not attached after a successful client call"
				}
			case 1:
				ok := false
				if cn >= 0 {
					if sel, isSel := ast.Unparen(t.Ev[cn].Call.Fun).(*ast.SelectorExpr); isSel && h.objOf(sel.X) == cmdFuture {
						ok = true
					}
				}
				if !ok {
					bad, why = t, "command future neither attached nor cancelled after a failed client call: the caller waits for ever"
				}
			default:
				bad, why = t, "client call error not tested"
			}
		}
		r.Check(key, bad == nil && n > 0, fi.Decl.Pos(), len(in.Traces), why, c.witness(bad)...)
	}
	// resubscribe
	rs := c.mustFunc(r, "client.(*Service).resubscribe")
	if rs != nil {
		in := c.traces(rs)
		rh := &Interp{P: c.P, Info: rs.Pkg.TypesInfo}
		wait := futureMethod(c, "Wait")
		rto := c.P.Field("client", "Service", "ResubscribeTimeout")
		okAll, okSort, okWait, n := false, false, true, 0
		for _, t := range in.Traces {
			a := t.first(c.treeCall(rs, book, "All"))
			s := t.first(callTo(subM))
			if s < 0 {
				continue
			}
			n++
			if a >= 0 && a < s {
				okAll = true
			}
			for _, e := range t.Ev[:s] {
				if e.Kind == EvCall {
					if f, ok := e.Callee.(*types.Func); ok && f.Pkg() != nil && (f.Pkg().Path() == "sort" || f.Pkg().Path() == "slices") {
						okSort = true
					}
				}
			}
			if t.errOutcome(t.Ev[s]) == -1 {
				w := t.firstFrom(s, func(e *Event) bool {
					return e.Kind == EvCall && e.Callee != nil && e.Callee.Name() == "Wait"
				})
				if w < 0 || len(t.Ev[w].Call.Args) != 1 || rh.objOf(t.Ev[w].Call.Args[0]) != rto {
					okWait = false
				}
			}
		}
		_ = wait
		r.Check(rs.Name+":All→sort→SubscribeMultiple→Wait(ResubscribeTimeout)", okAll && okSort && okWait && n > 0, rs.Decl.Pos(), len(in.Traces), "after a reconnect exactly the recorded subscriptions are re-established, deterministically ordered, with a bounded wait")
	}
	// supervisor: connect → online → resubscribe → dispatcher; client closed afterwards
	sv := c.mustFunc(r, "client.(*Service).supervisor")
	if sv != nil && rs != nil {
		in := c.traces(sv)
		closeM := c.P.Method("client", "Client", "Close")
		var bad *Trace
		n := 0
		for _, t := range in.Traces {
			d := t.first(callTo(fi.Obj))
			if d < 0 {
				continue
			}
			n++
			rsi := t.first(callTo(rs.Obj))
			ra := c.P.Field("client", "Service", "ResubscribeAllSubscriptions")
			if rsi > d {
				bad = t
			}
			_ = ra
			if t.firstFrom(d, callTo(closeM)) < 0 {
				bad = t
			}
		}
		r.Check(sv.Name+":resubscribe≺dispatcher≺Close", bad == nil && n > 0, sv.Decl.Pos(), len(in.Traces), "the dispatcher must only run on a client whose subscriptions were re-established, and the client must be closed when the dispatcher returns", c.witness(bad)...)
	}
}

func c17Restart(c *Ctx, v *vocab) {
	r := c.Rule("C17/RESTART", "TRACE", "Start: fresh tomb assigned ≺ tomb.Go(supervisor); Stop: Kill ≺ Wait, and with clearFutures Protect(false) ≺ Clear; started flag guards both", 3)
	st := c.mustFunc(r, "client.(*Service).Start")
	sp := c.mustFunc(r, "client.(*Service).Stop")
	tombF := c.P.Field("client", "Service", "tomb")
	started := c.P.Field("client", "Service", "started")
	protect, clear := storeMethod(c, "Protect"), storeMethod(c, "Clear")
	if st == nil || sp == nil || tombF == nil || started == nil {
		return
	}
	in := c.P.TraceFunc(st, TraceOpts{Init: map[types.Object]Val{started: vBool(false)}})
	var bad *Trace
	why := ""
	n := 0
	for _, t := range in.Traces {
		g := t.first(tombCall("Go"))
		if g < 0 {
			if t.Exit == ExitReturn {
				bad, why = t, "Start path (not yet started) without tomb.Go"
			}
			continue
		}
		n++
		a := t.first(storeTo(tombF))
		if a < 0 || a > g {
			bad, why = t, "the tomb is not replaced before tomb.Go: a second Start after Stop would call Go on a dead tomb (panics)"
		} else if _, isCall := ast.Unparen(t.Ev[a].RHS).(*ast.CallExpr); !isCall {
			if _, isU := ast.Unparen(t.Ev[a].RHS).(*ast.UnaryExpr); !isU {
				bad, why = t, "the tomb is not a fresh allocation"
			}
		}
		p := t.first(and(callTo(protect), func(e *Event) bool { return len(e.ArgVals) == 1 && e.ArgVals[0].K == VBool && e.ArgVals[0].B }))
		if p < 0 || p > g {
			bad, why = t, "futureStore.Protect(true) must precede the start of the supervisor in every Start (Stop(true) un-protects the store)"
		}
		s := t.first(func(e *Event) bool { return e.Kind == EvAssign && e.LObj == started && e.RVal.K == VBool && e.RVal.B })
		if s < 0 {
			bad, why = t, "started flag not set"
		}
	}
	r.Check(st.Name+":fresh tomb, Protect(true) ≺ Go", bad == nil && n > 0, st.Decl.Pos(), len(in.Traces), why, c.witness(bad)...)
	in2 := c.P.TraceFunc(st, TraceOpts{Init: map[types.Object]Val{started: vBool(true)}})
	ok := len(in2.Traces) > 0
	for _, t := range in2.Traces {
		if t.has(tombCall("Go")) {
			ok = false
		}
	}
	r.Check(st.Name+"@started:no second supervisor", ok, st.Decl.Pos(), len(in2.Traces), "an already started service must not start a second supervisor")
	sig := sp.Obj.Type().(*types.Signature)
	for _, clr := range []bool{true, false} {
		sin := c.P.TraceFunc(sp, TraceOpts{Init: map[types.Object]Val{started: vBool(true), sig.Params().At(0): vBool(clr)}})
		var bad *Trace
		why := ""
		for _, t := range sin.Traces {
			k, w := t.first(tombCall("Kill")), t.first(tombCall("Wait"))
			if k < 0 || w < 0 || k > w {
				bad, why = t, "Stop must Kill then Wait"
			}
			p := t.first(and(callTo(protect), func(e *Event) bool { return len(e.ArgVals) == 1 && e.ArgVals[0].K == VBool && !e.ArgVals[0].B }))
			cl := t.first(callTo(clear))
			if clr && (p < 0 || cl < 0 || p > cl || cl < w) {
				bad, why = t, "Stop(true) must un-protect the store and then clear it, after the supervisor ended"
			}
			if !clr && cl >= 0 {
				bad, why = t, "Stop(false) must keep the futures"
			}
			s := t.first(func(e *Event) bool { return e.Kind == EvAssign && e.LObj == started && e.RVal.K == VBool && !e.RVal.B })
			if s < 0 {
				bad, why = t, "started flag not reset: the service cannot be started again"
			}
		}
		r.Check(fmt.Sprintf("%s@clearFutures=%v", sp.Name, clr), bad == nil && len(sin.Traces) > 0, sp.Decl.Pos(), len(sin.Traces), why, c.witness(bad)...)
	}
}

func c17Protect(c *Ctx, v *vocab) {
	r := c.Rule("C17/PROTECT", "TRACE", "connect(): the new client gets the service's future store and session before Connect; Store.Clear under protected=true cancels nothing and keeps the map", 3)
	cn := c.mustFunc(r, "client.(*Service).connect")
	if cn != nil {
		in := c.traces(cn)
		h := &Interp{P: c.P, Info: cn.Pkg.TypesInfo}
		connectM := c.P.Method("client", "Client", "Connect")
		sFS, sSess := c.P.Field("client", "Service", "futureStore"), c.P.Field("client", "Service", "Session")
		cSess := c.P.Field("client", "Client", "Session")
		var bad *Trace
		n := 0
		for _, t := range in.Traces {
			ci := t.first(callTo(connectM))
			if ci < 0 {
				continue
			}
			n++
			fs, ss := false, false
			for _, e := range t.Ev[:ci] {
				if e.Kind == EvAssign && e.LObj == v.cfFutureStore && evRHSObj(h, e) == sFS {
					fs = true
				}
				if e.Kind == EvAssign && e.LObj == cSess && evRHSObj(h, e) == sSess {
					ss = true
				}
			}
			if !fs || !ss {
				bad = t
			}
		}
		r.Check(cn.Name+":store and session shared before Connect", bad == nil && n > 0, cn.Decl.Pos(), len(in.Traces), "futures and unacknowledged packets survive a reconnect only if every new client uses the service's store and session", c.witness(bad)...)
		// Close after failed connect / wait
		closeM := c.P.Method("client", "Client", "Close")
		okC := true
		for _, t := range in.Traces {
			if t.Exit == ExitReturn && len(t.RVals) == 2 && t.RVals[0].K == VNil && t.has(callTo(connectM)) && !t.has(callTo(closeM)) {
				okC = false
			}
		}
		r.Check(cn.Name+":failed attempt closes the client", okC, cn.Decl.Pos(), len(in.Traces), "a failed connection attempt must close the half-open client")
	}
	clr := c.P.ByObj[storeMethod(c, "Clear")]
	if clr == nil {
		r.Undecided("future.(*Store).Clear", 0, "not found")
		return
	}
	c.Touch(clr.Name)
	prot := c.P.Field("client/future", "Store", "protected")
	storeF := c.P.Field("client/future", "Store", "store")
	cancel := futureMethod(c, "Cancel")
	for _, p := range []bool{true, false} {
		in := c.P.TraceFunc(clr, TraceOpts{Init: map[types.Object]Val{prot: vBool(p)}})
		var bad *Trace
		sawCancel := false
		for _, t := range in.Traces {
			if p && (t.has(callTo(cancel)) || t.has(storeTo(storeF))) {
				bad = t
			}
			if !p {
				if t.has(callTo(cancel)) {
					sawCancel = true
				}
				if !t.has(storeTo(storeF)) {
					bad = t
				}
			}
		}
		r.Check(fmt.Sprintf("%s@protected=%v", clr.Name, p), bad == nil && (p || sawCancel), clr.Decl.Pos(), len(in.Traces), "a protected store must survive the per-connection cleanup; an unprotected one must cancel every future and drop them", c.witness(bad)...)
	}
}

func c17Queue(c *Ctx, v *vocab) {
	r := c.Rule("C17/QUEUE", "WHO", "only exported API methods send into the service command queue (the dispatcher never re-queues a command: first-in first-out); each enqueue has a queue-timeout alternative that cancels the future", 3)
	cq := c.P.Field("client", "Service", "commandQueue")
	if cq == nil {
		r.Undecided("commandQueue", 0, "not found")
		return
	}
	cancel := futureMethod(c, "Cancel")
	for _, fi := range c.P.LibFuncs("client") {
		if fi.Decl.Body == nil {
			continue
		}
		in := c.traces(fi)
		sends := false
		okAlt := true
		for _, t := range in.Traces {
			for _, e := range t.Ev {
				if sendOn(cq)(e) {
					sends = true
					if e.Select == nil || !e.Blocking {
						okAlt = false
					}
				}
			}
			// the timeout arm cancels
			if !t.has(sendOn(cq)) && t.has(func(e *Event) bool { return e.Kind == EvSelect }) {
				for _, e := range t.Ev {
					if e.Kind == EvRecv && e.Select != nil && !t.has(callTo(cancel)) {
						hasSend := false
						for _, cl := range e.Select.Body.List {
							if ss, ok := cl.(*ast.CommClause).Comm.(*ast.SendStmt); ok && (&Interp{P: c.P, Info: fi.Pkg.TypesInfo}).objOf(ss.Chan) == cq {
								hasSend = true
							}
						}
						if hasSend {
							okAlt = false
						}
					}
				}
			}
		}
		if !sends {
			continue
		}
		r.Check(fi.Name+":commandQueue<-", fi.Obj.Exported() && okAlt, fi.Decl.Pos(), len(in.Traces), "a command is queued from inside the service (re-queued commands overtake or fall behind later ones) or the enqueue can block for ever")
	}
}

// pathNeedsInvalidID reports whether the path took the `id is not a valid packet id` side of a test on param.
func pathNeedsInvalidID(fi *FuncInfo, t *Trace, param types.Object) bool {
	if param == nil {
		return false
	}
	info := fi.Pkg.TypesInfo
	isParam := func(e ast.Expr) bool {
		id, ok := ast.Unparen(e).(*ast.Ident)
		return ok && info.ObjectOf(id) == param
	}
	for _, e := range t.Ev {
		if e.Kind != EvCond || e.Cond == nil {
			continue
		}
		switch x := ast.Unparen(e.Cond).(type) {
		case *ast.CallExpr:
			if sel, ok := x.Fun.(*ast.SelectorExpr); ok && isParam(sel.X) {
				if f, ok := info.ObjectOf(sel.Sel).(*types.Func); ok && f.Name() == "Valid" && f.Pkg() != nil && f.Pkg().Name() == "packet" && !e.Outcome {
					return true
				}
			}
		case *ast.BinaryExpr:
			if x.Op != token.EQL && x.Op != token.NEQ {
				continue
			}
			other := x.Y
			if !isParam(x.X) {
				if !isParam(x.Y) {
					continue
				}
				other = x.X
			}
			if tv, ok := info.Types[other]; ok && tv.Value != nil && tv.Value.String() == "0" {
				if (x.Op == token.EQL) == e.Outcome {
					return true
				}
			}
		}
	}
	return false
}

// decoderRejectsInvalidID decides that (*packet.<typ>).Decode cannot succeed with an invalid (zero) packet
// id: the decoding helper that receives the address of the ID field stores into it only a value that passed
// ID.Valid() on the same path.
func (c *Ctx) decoderRejectsInvalidID(r *Rule, typ string) bool {
	dec := c.P.Func("packet.(*" + typ + ").Decode")
	key := "packet.(*" + typ + ").Decode:rejects id 0"
	if dec == nil {
		r.Undecided(key, 0, "decoder not found")
		return false
	}
	c.Touch(dec.Name)
	idField := c.P.Field("packet", typ, "ID")
	// find the helper that is handed &recv.ID
	var helper *FuncInfo
	argIdx := -1
	ast.Inspect(dec.Decl.Body, func(n ast.Node) bool {
		call, ok := n.(*ast.CallExpr)
		if !ok {
			return true
		}
		for i, a := range call.Args {
			if u, ok := ast.Unparen(a).(*ast.UnaryExpr); ok && u.Op == token.AND {
				if sel, ok := ast.Unparen(u.X).(*ast.SelectorExpr); ok && dec.Pkg.TypesInfo.ObjectOf(sel.Sel) == idField {
					if f, ok := typeutilCallee(dec.Pkg.TypesInfo, call).(*types.Func); ok {
						if h := c.P.ByObj[f]; h != nil {
							helper, argIdx = h, i
						}
					}
				}
			}
		}
		return true
	})
	if helper == nil {
		r.Undecided(key, dec.Decl.Pos(), "no decoding helper receives the address of the ID field (decoder reshaped)")
		return false
	}
	c.Touch(helper.Name)
	hsig := helper.Obj.Type().(*types.Signature)
	if argIdx >= hsig.Params().Len() {
		r.Undecided(key, dec.Decl.Pos(), "helper signature mismatch")
		return false
	}
	ptr := hsig.Params().At(argIdx)
	in := c.P.TraceFunc(helper, TraceOpts{})
	if in.Over {
		r.Undecided(key, helper.Decl.Pos(), "path budget exhausted")
		return false
	}
	info := helper.Pkg.TypesInfo
	var bad *Trace
	nsucc := 0
	for _, t := range in.Traces {
		if !t.success() {
			continue
		}
		nsucc++
		// the object stored through the pointer
		var stored types.Object
		nstores := 0
		for _, e := range t.Ev {
			if e.Kind == EvAssign && e.LHS != nil {
				if st, ok := ast.Unparen(e.LHS).(*ast.StarExpr); ok {
					if id, ok := ast.Unparen(st.X).(*ast.Ident); ok && info.ObjectOf(id) == ptr {
						nstores++
						if rid, ok := ast.Unparen(e.RHS).(*ast.Ident); ok {
							stored = info.ObjectOf(rid)
						}
					}
				}
			}
		}
		valid := false
		for _, e := range t.Ev {
			if e.Kind != EvCond || !e.Outcome {
				continue
			}
			if call, ok := ast.Unparen(e.Cond).(*ast.CallExpr); ok {
				if sel, ok := call.Fun.(*ast.SelectorExpr); ok {
					if f, ok := info.ObjectOf(sel.Sel).(*types.Func); ok && f.Name() == "Valid" {
						if id, ok := ast.Unparen(sel.X).(*ast.Ident); ok && stored != nil && info.ObjectOf(id) == stored {
							valid = true
						}
					}
				}
			}
		}
		if nstores != 1 || !valid {
			bad = t
		}
	}
	ok := bad == nil && nsucc > 0
	r.Check(key, ok, helper.Decl.Pos(), len(in.Traces),
		"every successful decode stores an id that passed ID.Valid(): a PUBREL with id 0 never reaches the handler, so the handler's id-invalid branch is outside the quantifier", c.witness(bad)...)
	return ok
}

// ---------------------------------------------------------------- WAITLOCK

// c09WaitLock: a mutex that is held while an API function waits for the tracked goroutines (tomb.Wait) or for
// futures those goroutines resolve (Store.Await, Future.Wait) must never be acquired by code those goroutines
// can reach: the goroutine would block on the mutex, the waiter on the goroutine — Close/Disconnect never
// return and the futures are never cancelled. Lock order rule over package client: lockset (LOCK engine) at
// every wait site × in-package call-graph reachability (function literals included) from the tomb.Go roots.
func c09WaitLock(c *Ctx, v *vocab, prop string) {
	r := c.Rule(prop+"/WAITLOCK", "LOCK+REACH", "no mutex held at a tomb.Wait / Store.Await / Future.Wait site in package client is acquired by a function reachable from a tomb.Go root (processor, pinger, supervisor, dispatcher): waiting for a goroutine that needs the waiter's lock never returns", 2)
	isWait := func(fi *FuncInfo, e *Event) bool {
		if e.Kind != EvCall {
			return false
		}
		f, ok := e.Callee.(*types.Func)
		if !ok {
			return false
		}
		if isTomb(f, "Wait") {
			return true
		}
		if f.Pkg() != nil && strings.HasSuffix(f.Pkg().Path(), "client/future") && (f.Name() == "Await" || f.Name() == "Wait") {
			return true
		}
		return false
	}
	res := c.lockAnalysisEv("client", map[*types.Var]guardSpec{}, nil, isWait)
	// goroutine roots per tomb: the functions handed to X.tomb.Go, keyed by the tomb field
	rootsOf := map[*types.Var][]*FuncInfo{}
	nroots := 0
	for _, fi := range c.P.LibFuncsAll("client") {
		if fi.Decl.Body == nil {
			continue
		}
		h := &Interp{P: c.P, Info: fi.Pkg.TypesInfo}
		ast.Inspect(fi.Decl.Body, func(m ast.Node) bool {
			call, ok := m.(*ast.CallExpr)
			if !ok || len(call.Args) != 1 {
				return true
			}
			sel, ok := ast.Unparen(call.Fun).(*ast.SelectorExpr)
			if !ok {
				return true
			}
			if f, ok := fi.Pkg.TypesInfo.Uses[sel.Sel].(*types.Func); !ok || !isTomb(f, "Go") {
				return true
			}
			tf, _ := h.objOf(sel.X).(*types.Var)
			if as, ok := ast.Unparen(call.Args[0]).(*ast.SelectorExpr); ok && tf != nil {
				if g, ok := fi.Pkg.TypesInfo.Uses[as.Sel].(*types.Func); ok && c.P.ByObj[g] != nil {
					rootsOf[tf] = append(rootsOf[tf], c.P.ByObj[g])
					nroots++
				}
			}
			return true
		})
	}
	if nroots < 2 {
		r.Undecided("client goroutine roots", 0, fmt.Sprintf("found %d tomb.Go roots, expected at least processor and pinger", nroots))
		return
	}
	// reachability from the roots of one tomb, and the mutexes each reachable function locks
	lockersOf := func(tf *types.Var) (map[*types.Var][]string, int) {
		reach := map[*types.Func]*FuncInfo{}
		var via func(fi *FuncInfo)
		via = func(fi *FuncInfo) {
			if reach[fi.Obj] != nil || fi.Decl.Body == nil {
				return
			}
			reach[fi.Obj] = fi
			ast.Inspect(fi.Decl.Body, func(m ast.Node) bool {
				switch x := m.(type) {
				case *ast.CallExpr:
					if g, ok := typeutilCallee(fi.Pkg.TypesInfo, x).(*types.Func); ok {
						if h := c.P.ByObj[g]; h != nil && h.Pkg == fi.Pkg {
							via(h)
						}
					}
				case *ast.SelectorExpr:
					// method values handed on (tomb.Go(c.pinger), finish.Do(...))
					if g, ok := fi.Pkg.TypesInfo.Uses[x.Sel].(*types.Func); ok {
						if h := c.P.ByObj[g]; h != nil && h.Pkg == fi.Pkg {
							if sel, ok := fi.Pkg.TypesInfo.Selections[x]; ok && sel.Kind() == types.MethodVal {
								via(h)
							}
						}
					}
				}
				return true
			})
		}
		for _, rt := range rootsOf[tf] {
			via(rt)
		}
		lockers := map[*types.Var][]string{}
		for _, fi := range reach {
			h := &Interp{P: c.P, Info: fi.Pkg.TypesInfo}
			ast.Inspect(fi.Decl.Body, func(m ast.Node) bool {
				call, ok := m.(*ast.CallExpr)
				if !ok {
					return true
				}
				sel, ok := ast.Unparen(call.Fun).(*ast.SelectorExpr)
				if !ok {
					return true
				}
				f, ok := fi.Pkg.TypesInfo.Uses[sel.Sel].(*types.Func)
				if !ok || f.Pkg() == nil || f.Pkg().Path() != "sync" || (f.Name() != "Lock" && f.Name() != "RLock") {
					return true
				}
				if mo, _ := h.objOf(sel.X).(*types.Var); mo != nil {
					lockers[mo] = append(lockers[mo], fi.Name)
				}
				return true
			})
		}
		return lockers, len(reach)
	}
	// the tomb a wait site waits for: the receiver of tomb.Wait, or (futures) the tomb field of the struct
	// whose method contains the wait
	tombOf := func(w lockAccess) *types.Var {
		h := &Interp{P: c.P, Info: w.fn.Pkg.TypesInfo}
		if f, ok := w.ev.Callee.(*types.Func); ok && isTomb(f, "Wait") {
			if sel, ok := ast.Unparen(w.ev.Call.Fun).(*ast.SelectorExpr); ok {
				tf, _ := h.objOf(sel.X).(*types.Var)
				return tf
			}
		}
		sig := w.fn.Obj.Type().(*types.Signature)
		if sig.Recv() == nil {
			return nil
		}
		rt := sig.Recv().Type()
		if p, ok := rt.(*types.Pointer); ok {
			rt = p.Elem()
		}
		if st, ok := rt.Underlying().(*types.Struct); ok {
			for i := 0; i < st.NumFields(); i++ {
				if _, ok := rootsOf[st.Field(i)]; ok {
					return st.Field(i)
				}
			}
		}
		return nil
	}
	seen := map[string]bool{}
	n := 0
	for _, w := range res.watched {
		if len(w.held) == 0 {
			continue
		}
		var ms []*types.Var
		for m := range w.held {
			ms = append(ms, m)
		}
		sort.Slice(ms, func(i, j int) bool { return ms[i].Name() < ms[j].Name() })
		for _, m := range ms {
			key := fmt.Sprintf("%s:%s under %s", w.fn.Name, types.ExprString(w.ev.Call.Fun), m.Name())
			if seen[key] {
				continue
			}
			seen[key] = true
			n++
			tf := tombOf(w)
			if tf == nil {
				r.Undecided(key, w.ev.Pos, "cannot tell which goroutine group this wait depends on")
				continue
			}
			lockers, nreach := lockersOf(tf)
			who := lockers[m]
			sort.Strings(who)
			r.Check(key, len(who) == 0, w.ev.Pos, nreach,
				fmt.Sprintf("the wait is performed while %s is held, and goroutine-reachable code acquires it: %s", m.Name(), strings.Join(who, ", ")), c.witness(w.trace)...)
		}
	}
	if n == 0 {
		r.Undecided("client wait sites", 0, "no tomb.Wait/Await under a mutex found (Close/Disconnect reshaped?)")
	}
}

// iterationWithoutSend looks, on every trace, at the first range loop after the listing call and returns a trace
// on which one of its iterations runs to the loop end without a send event (n = iterations inspected).
func iterationWithoutSend(traces []*Trace, listing, send Pred) (*Trace, int) {
	n := 0
	for _, t := range traces {
		all := t.first(listing)
		if all < 0 {
			continue
		}
		var loop ast.Stmt
		begin := -1
		sent := false
		for i := all; i < len(t.Ev); i++ {
			e := t.Ev[i]
			switch {
			case e.Kind == EvLoopBegin && (loop == nil || e.LoopStmt == loop):
				if _, isRange := e.LoopStmt.(*ast.RangeStmt); isRange {
					loop, begin, sent = e.LoopStmt, i, false
				}
			case e.Kind == EvLoopEnd && loop != nil && e.LoopStmt == loop && begin >= 0:
				n++
				if !sent {
					return t, n
				}
				begin = -1
			case begin >= 0 && send(e):
				sent = true
			}
		}
	}
	return nil, n
}

// c17Resub: with ResubscribeAllSubscriptions set, every connection the supervisor hands to the dispatcher has been
// resubscribed first — whatever the broker said about session-present (a broker may report a resumed session that
// no longer holds the subscriptions). Evaluated with the flag fixed to true: any path to the dispatcher without the
// resubscribe call depends on some other condition.
func c17Resub(c *Ctx, v *vocab) {
	r := c.Rule("C17/RESUB", "TRACE", "supervisor, ResubscribeAllSubscriptions=true: resubscribe(client) precedes dispatcher(client) on every path, independent of the session-present flag; a failed resubscription does not reach the dispatcher", 1)
	fi := c.mustFunc(r, "client.(*Service).supervisor")
	flag := c.P.Field("client", "Service", "ResubscribeAllSubscriptions")
	resub := c.P.Method("client", "Service", "resubscribe")
	disp := c.P.Method("client", "Service", "dispatcher")
	if fi == nil || flag == nil || resub == nil || disp == nil {
		r.Undecided("client.(*Service).supervisor", 0, "anchors not found (flag, resubscribe, dispatcher)")
		return
	}
	in := c.P.TraceFunc(fi, TraceOpts{Init: map[types.Object]Val{flag: vBool(true)}})
	if c.undecidedIfOver(r, in, fi.Name) {
		return
	}
	var bad *Trace
	why := ""
	n := 0
	for _, t := range in.Traces {
		d := t.first(callTo(disp))
		if d < 0 {
			continue
		}
		n++
		rs := t.first(callTo(resub))
		if rs < 0 || rs > d {
			bad, why = t, "the dispatcher is reached without a preceding resubscribe although the flag is set"
			continue
		}
		// the resubscribe result must have been tested true
		okRes := false
		for _, e := range t.Ev[rs:d] {
			if (e.Kind == EvCond || e.Kind == EvOutcome) && e.Cond != nil {
				if call, isC := ast.Unparen(e.Cond).(*ast.CallExpr); isC && typeutilCallee(fi.Pkg.TypesInfo, call) == types.Object(resub) && e.Outcome {
					okRes = true
				}
				if e.DefCall == t.Ev[rs] && e.Outcome {
					okRes = true
				}
			}
		}
		if !okRes {
			bad, why = t, "the dispatcher is reached although resubscribe was not confirmed successful"
		}
	}
	r.Check(fi.Name+":resubscribe≺dispatcher@flag=true", bad == nil && n > 0, fi.Decl.Pos(), len(in.Traces), why, c.witness(bad)...)
}

// c10CloseWait: the application-side shutdown waits for the client's goroutines. Close and Disconnect promise that
// the processor is no longer running when they return: the application may then hand the same session to a new
// client, and the inbound QoS 2 handling (lookup, callback, delete, PUBCOMP) of the old processor must not overlap
// with it — otherwise the retransmitted PUBREL finds the message still stored and the callback runs twice. Decided:
// every path of Close / Disconnect that gets past the "not connected" refusal reaches tomb.Wait (directly or through
// an in-package function whose every call graph path contains it, guarded only by the started flag).
func c10CloseWait(c *Ctx, v *vocab, prop string) {
	r := c.Rule(prop+"/CLOSEWAIT", "TRACE+REACH", "Client.Close and Client.Disconnect: every path past the not-connected refusal calls tomb.Wait (through end): the processor has stopped before the caller can reuse the session", 2)
	// in-package functions that contain a tomb.Wait call (transitively)
	waits := map[*types.Func]bool{}
	for changed := true; changed; {
		changed = false
		for _, fi := range c.P.LibFuncsAll("client") {
			if fi.Decl.Body == nil || waits[fi.Obj] {
				continue
			}
			ast.Inspect(fi.Decl.Body, func(m ast.Node) bool {
				call, ok := m.(*ast.CallExpr)
				if !ok {
					return true
				}
				if f, _ := typeutilCallee(fi.Pkg.TypesInfo, call).(*types.Func); f != nil && (isTomb(f, "Wait") || waits[f]) {
					if !waits[fi.Obj] {
						waits[fi.Obj], changed = true, true
					}
				}
				return true
			})
		}
	}
	notConn := c.P.Global("client", "ErrClientNotConnected")
	for _, name := range []string{"client.(*Client).Close", "client.(*Client).Disconnect"} {
		fi := c.mustFunc(r, name)
		if fi == nil {
			continue
		}
		in := c.traces(fi)
		h := &Interp{P: c.P, Info: fi.Pkg.TypesInfo}
		ok, n := true, 0
		var wit *Trace
		for _, t := range in.Traces {
			if t.Exit != ExitReturn {
				continue
			}
			// the refusal path returns ErrClientNotConnected
			refused := false
			for _, res := range t.Results {
				if notConn != nil && h.objOf(res) == notConn {
					refused = true
				}
			}
			if refused {
				continue
			}
			n++
			waited := false
			for _, e := range t.Ev {
				if e.Kind != EvCall {
					continue
				}
				if f, _ := e.Callee.(*types.Func); f != nil && (isTomb(f, "Wait") || waits[f]) {
					waited = true
				}
			}
			if !waited && ok {
				ok, wit = false, t
			}
		}
		r.Check(fi.Name+":waits for the goroutines", ok && n > 0, fi.Decl.Pos(), len(in.Traces), "a path returns to the application without waiting for the processor: the old processor can still be between the callback and the delete of a QoS 2 message when a new client resumes the session", c.witness(wit)...)
	}
}
