package main

import (
	"fmt"
	"go/ast"
	"go/token"
	"go/types"
	"sort"
	"strings"

	"golang.org/x/tools/go/ssa"
)

func init() {
	register("C14", propC14)
	register("C15", propC15)
}

const c14Explanation = "Static analysis of everything in the broker that a hostile or failing client can reach: (ASSERT) every unchecked type assertion in packet/topic/session/broker/transport is discharged by a checkable justification; (DIE) every error leaving a goroutine function passed through die() (or is tomb.ErrDying, or the handler closed the connection and killed the tomb itself); " +
	"(ERRCHK) no error of Session/Backend/Conn/send calls is dropped; (ESCAPE) every blocking channel operation in broker offers a dying/closed/timeout escape; (TOKENTIMEOUT) blocking token takes have both escapes; (DIECLOSE) die/Close/DISCONNECT close the connection and kill the tomb on every path; (PANIC) explicit panics reachable from client-driven goroutines are discharged by constant arguments; " +
	"(BOUNDS/CONSUMED/TERMINATES, LIN engine) for every byte string no index/slice/make on the decode side can be out of range, decoders never report more than supplied and their loops terminate; (ADMIT) the decoder admits no application message the encoder refuses (an empty topic accepted from one client kills every subscriber it is forwarded to); (SETUPSTATE/TERMONCE) Terminate exactly once for every Setup, closed signal after cleanup; (SWITCH) out-of-protocol packets die. Hostile byte streams in general, timing and liveness of witnesses are not decided."

func propC14(c *Ctx) string {
	v := c.vocab()
	gate := c.Rule("C14/VOCAB", "TABLE", "vocabulary resolves", 1)
	if m := v.missing(); len(m) > 0 {
		gate.Undecided("vocabulary", 0, strings.Join(m, ","))
		return c14Explanation
	}
	gate.Pass("vocabulary", 0, 1, "resolved")
	c.assertRule("C14/ASSERT", 16, "packet", "topic", "session", "broker", "transport")
	dieRule(c, v, "C14/DIE", "broker", 10)
	errchkRule(c, v, "C14/ERRCHK", "broker", 25)
	escapeRule(c, v, "C14/ESCAPE", []string{"broker"}, 10)
	c14TokenTimeout(c, v, "C14")
	c14DieClose(c, v)
	c14Panic(c, v)
	c02Admit(c, "C14/ADMIT")
	// a malformed or truncated packet must not be able to panic the decoder (and with it the broker process)
	c02Bounds(c, "C14")
	if _, tq, _, _, retained, _, _, _ := backendVocab(c); retained != nil && tq != nil {
		c11Replay(c, retained, tq)
	}
	c13TermGuard(c, v)
	c04CollectGuard(c)
	c16DeqLock(c, v)
	if ra := c.Rule("C14/ACKRETURN", "TRACE", "the PUBACK/PUBCOMP handler returns its window slot without blocking (a stray acknowledgement must not park the processor)", 2); true {
		ackH, compH := c.handlerOf(ra, "broker", "Puback"), c.handlerOf(ra, "broker", "Pubcomp")
		if ackH != nil && compH != nil {
			c16AckReturn(c, v, ra, ackH, compH)
		}
	}
	c14AckCap(c, v, "C14")
	c13ClosedWait(c, v, "C14")
	c14CloseAll(c, v, "C14")
	c12SetupState(c, v, "C14")
	c12Once(c, v, "C14")
	c20Switch(c, v, "C14")
	c.NotDecide("behaviour under arbitrary timing", "that witness clients keep receiving (liveness)", "goroutine leaks in general (only blocking channel operations are inventoried)",
		"panics inside dependencies (tomb, mercury, websocket) and nil dereferences; index/slice panics outside the decode side of package packet (BOUNDS covers Decode methods, DetectPacket, Decoder.Read and their helpers)")
	c.Assume("tomb.v2 semantics", "transport.Conn.Close unblocks a pending Receive (C19)")
	return c14Explanation
}

// ------------------------------------------------------------------ DIE

// goroutineRoots: methods handed to tomb.Go inside pkg.
func (c *Ctx) goroutineRoots(pkg string) []*FuncInfo {
	seen := map[*types.Func]bool{}
	var out []*FuncInfo
	for _, fi := range c.P.LibFuncsAll(pkg) {
		if fi.Decl.Body == nil {
			continue
		}
		ast.Inspect(fi.Decl.Body, func(m ast.Node) bool {
			call, ok := m.(*ast.CallExpr)
			if !ok || len(call.Args) != 1 {
				return true
			}
			sel, ok := ast.Unparen(call.Fun).(*ast.SelectorExpr)
			if !ok || sel.Sel.Name != "Go" {
				return true
			}
			if f, ok := fi.Pkg.TypesInfo.Uses[sel.Sel].(*types.Func); !ok || !isTomb(f, "Go") {
				return true
			}
			if as, ok := ast.Unparen(call.Args[0]).(*ast.SelectorExpr); ok {
				if g, ok := fi.Pkg.TypesInfo.Uses[as.Sel].(*types.Func); ok && c.P.ByObj[g] != nil && !seen[g] {
					seen[g] = true
					out = append(out, c.P.ByObj[g])
				}
			}
			return true
		})
	}
	sort.Slice(out, func(i, j int) bool { return out[i].Name < out[j].Name })
	return out
}

func dieRule(c *Ctx, v *vocab, rule, pkg string, floor int) {
	r := c.Rule(rule, "TRACE", "in goroutine functions (tomb.Go roots) and the handlers whose errors they return: every non-nil error returned passed through die(), is tomb.ErrDying, comes from a callee obeying the same rule, or the path itself closed the connection and killed the tomb", floor)
	die := v.bDie
	if pkg == "client" {
		die = v.cDie
	}
	roots := c.goroutineRoots(pkg)
	if len(roots) == 0 {
		r.Undecided(pkg+" goroutine roots", 0, "no tomb.Go(method) found")
		return
	}
	work := append([]*FuncInfo{}, roots...)
	done := map[*FuncInfo]bool{}
	disciplined := map[*types.Func]bool{}
	type pending struct {
		fi  *FuncInfo
		t   *Trace
		dep *types.Func
	}
	var deps []pending
	bad := map[*types.Func]bool{}
	for len(work) > 0 {
		fi := work[0]
		work = work[1:]
		if done[fi] {
			continue
		}
		done[fi] = true
		disciplined[fi.Obj] = true
		in := c.traces(fi)
		if c.undecidedIfOver(r, in, fi.Name) {
			continue
		}
		h := &Interp{P: c.P, Info: fi.Pkg.TypesInfo}
		var w *Trace
		why := ""
		nret := 0
		for _, t := range in.Traces {
			if t.Exit != ExitReturn || len(t.Results) == 0 {
				continue
			}
			if t.retErr() == -1 {
				continue
			}
			nret++
			res := ast.Unparen(t.Results[len(t.Results)-1])
			ok := false
			if call, isC := res.(*ast.CallExpr); isC {
				if f, _ := h.callee(&state{env: newEnv()}, call).(*types.Func); f == die {
					ok = true
				} else if f != nil && c.P.ByObj[f] != nil && shortPkg(c.P.ByObj[f].Pkg.PkgPath) == pkg {
					ok = true
					work = append(work, c.P.ByObj[f])
					deps = append(deps, pending{fi, t, f})
				}
			}
			if o := h.objOf(res); o != nil {
				if o.Pkg() != nil && o.Pkg().Path() == "gopkg.in/tomb.v2" && o.Name() == "ErrDying" {
					ok = true
				}
				if d, isD := t.Env.defs[o]; isD && d.Kind == EvCall {
					if f, isF := d.Callee.(*types.Func); isF {
						if f == die {
							ok = true
						} else if c.P.ByObj[f] != nil && shortPkg(c.P.ByObj[f].Pkg.PkgPath) == pkg && f != v.bSend && f != v.cSend {
							ok = true
							work = append(work, c.P.ByObj[f])
							deps = append(deps, pending{fi, t, f})
						}
					}
				}
			}
			if !ok && pkg == "broker" && t.has(callTo(v.connClose)) && t.has(tombCall("Kill")) {
				ok = true
			}
			if !ok && w == nil {
				w, why = t, "error returned without die(): "+c.P.exprStr(res)
			}
		}
		if w != nil {
			bad[fi.Obj] = true
		}
		r.Check(fi.Name+":errors pass die()", w == nil, fi.Decl.Pos(), len(in.Traces),
			why+" — the goroutine ends and the tomb dies, but the connection stays open, cleanup/callback never run and pending futures stay unresolved", c.witness(w)...)
	}
	_ = deps
}

// ------------------------------------------------------------------ ERRCHK

func errchkRule(c *Ctx, v *vocab, rule, pkg string, floor int) {
	r := c.Rule(rule, "TRACE", "every error result of Session.*, Backend.*, Conn.Send/Receive and send() calls is tested, returned or passed on, on every path", floor)
	var watched []*types.Func
	if pkg == "broker" {
		watched = []*types.Func{v.bsSave, v.bsLookup, v.bsDelete, v.bsAll, v.bkAuth, v.bkSetup, v.bkRestore, v.bkSubscribe, v.bkUnsubscribe, v.bkPublish, v.bkDequeue, v.bkTerminate, v.bSend, v.connSend, v.connReceive}
	} else {
		watched = []*types.Func{v.csSave, v.csLookup, v.csDelete, v.csAll, v.csReset, v.cSend, v.connSend, v.connReceive}
	}
	type site struct {
		fi      *FuncInfo
		ev      *Event
		handled bool
		w       *Trace
		n       int
	}
	sites := map[ast.Node]*site{}
	var order []ast.Node
	scan := func(fi *FuncInfo, in *Interp) {
		h := &Interp{P: c.P, Info: fi.Pkg.TypesInfo}
		for _, t := range in.Traces {
			for i, e := range t.Ev {
				if !callTo(watched...)(e) {
					continue
				}
				s, ok := sites[e.Node]
				if !ok {
					s = &site{fi: fi, ev: e, handled: true}
					sites[e.Node] = s
					order = append(order, e.Node)
				}
				s.n++
				good := t.errOutcome(e) != 0
				// returned directly
				for _, res := range t.Results {
					if ast.Unparen(res) == ast.Expr(e.Call) {
						good = true
					}
				}
				// error variable returned or passed on
				var errVar types.Object
				for _, a := range t.Ev[i+1:] {
					if a.Kind == EvAssign && ast.Unparen(a.RHS) == ast.Expr(e.Call) && a.LObj != nil && isErrType(a.LObj.Type()) {
						errVar = a.LObj
					}
					if a.Kind != EvAssign {
						break
					}
				}
				if errVar != nil && !good {
					for _, res := range t.Results {
						if h.objOf(res) == errVar {
							good = true
						}
					}
					for _, a := range t.Ev[i+1:] {
						if a.Kind == EvCall {
							for _, arg := range a.Call.Args {
								if h.objOf(arg) == errVar {
									good = true
								}
							}
						}
						if a.Kind == EvAssign && a.LObj == errVar && ast.Unparen(a.RHS) != ast.Expr(e.Call) {
							break
						}
					}
				}
				// the variable is an operand of a short-circuit condition that this path started to evaluate
				// (`if err == nil && sessErr != nil`: an earlier error takes precedence, as in `sessErr != nil && err == nil`)
				if errVar != nil && !good {
					for _, a := range t.Ev[i+1:] {
						{
							ast.Inspect(fi.Decl.Body, func(n ast.Node) bool {
								is, ok := n.(*ast.IfStmt)
								// the path went past the condition (an operand decided by what the path already knows leaves no event)
								if !ok || good || is.Cond.Pos() < e.Pos || a.Pos < is.Cond.Pos() || a.Pos > fi.Decl.End() {
									return !good
								}
								if _, isBin := ast.Unparen(is.Cond).(*ast.BinaryExpr); isBin {
									ast.Inspect(is.Cond, func(m ast.Node) bool {
										if id, ok := m.(*ast.Ident); ok && h.objOf(id) == errVar {
											good = true
										}
										return !good
									})
								}
								return !good
							})
						}
						if a.Kind == EvAssign && a.LObj == errVar && ast.Unparen(a.RHS) != ast.Expr(e.Call) {
							break
						}
					}
				}
				if !good && s.handled {
					s.handled, s.w = false, t
				}
			}
		}
	}
	for _, fi := range c.P.LibFuncsAll(pkg) {
		if fi.Decl.Body == nil {
			continue
		}
		// a NEW helper is seen inlined in its callers; only its function literals are units of their own
		if !c.P.NewFuncs[fi.Obj] {
			scan(fi, c.traces(fi))
		}
		for _, lit := range funcLits(fi.Decl.Body) {
			scan(fi, c.P.TraceLit(fi, lit, c.defOpts()))
		}
	}
	ord := map[string]int{}
	for _, n := range order {
		s := sites[n]
		name := FuncName(s.ev.Callee.(*types.Func))
		key := fmt.Sprintf("%s:%s", s.fi.Name, name)
		if len(s.ev.ArgVals) > 0 && s.ev.ArgVals[0].K == VInt && strings.Contains(name, "Session") {
			key += fmt.Sprintf("(dir=%d)", s.ev.ArgVals[0].I)
		}
		if len(s.ev.ArgTypes) > 0 && strings.HasSuffix(name, "send") {
			key += "(" + typeStr(s.ev.ArgTypes[0]) + ")"
		}
		ord[key]++
		if ord[key] > 1 {
			key = fmt.Sprintf("%s#%d", key, ord[key])
		}
		r.Check(key, s.handled, s.ev.Pos, s.n, "the error result is dropped on some path", c.witness(s.w)...)
	}
}

// ------------------------------------------------------------------ ESCAPE

var escapeExempt = map[string]string{
	"future.(*Future).Wait":   "caller-chosen timeout semantics: a non-positive timeout means wait for ever by contract",
	"future.(*Future).Attach": "selects only after f.done, when one of the two channels is already closed",
	"broker.Run":              "test helper: waits for the caller's quit signal",
}

func escapeRule(c *Ctx, v *vocab, rule string, pkgs []string, floor int) {
	r := c.Rule(rule, "ESCAPE", "every blocking select / bare channel operation has an escape: a receive from tomb.Dying(), Client.Closing()/Closed(), time.After(...), or is a fill of a channel made in the same function", floor)
	for _, pkg := range pkgs {
		for _, fi := range c.P.LibFuncsAll(pkg) {
			if fi.Decl.Body == nil {
				continue
			}
			h := &Interp{P: c.P, Info: fi.Pkg.TypesInfo}
			type unit struct {
				name string
				in   *Interp
			}
			var units []unit
			if !c.P.NewFuncs[fi.Obj] {
				units = append(units, unit{fi.Name, c.traces(fi)})
			}
			for i, lit := range funcLits(fi.Decl.Body) {
				units = append(units, unit{fmt.Sprintf("%s$%d", fi.Name, i+1), c.P.TraceLit(fi, lit, c.defOpts())})
			}
			isEscapeChan := func(ch ast.Expr) bool {
				ch = ast.Unparen(ch)
				if call, ok := ch.(*ast.CallExpr); ok {
					f, _ := h.callee(&state{env: newEnv()}, call).(*types.Func)
					if f == nil {
						return false
					}
					if isTomb(f, "Dying") || isTomb(f, "Dead") {
						return true
					}
					if f.Pkg() != nil && f.Pkg().Path() == "time" && f.Name() == "After" {
						return true
					}
					if f.Pkg() != nil && f.Pkg().Name() == "broker" && (f.Name() == "Closing" || f.Name() == "Closed") {
						return true
					}
					return false
				}
				// a variable assigned from time.After in this function
				o := h.objOf(ch)
				if o == nil {
					return false
				}
				found := false
				ast.Inspect(fi.Decl.Body, func(m ast.Node) bool {
					if as, ok := m.(*ast.AssignStmt); ok {
						for i, l := range as.Lhs {
							if h.objOf(l) == o && i < len(as.Rhs) {
								if call, ok := ast.Unparen(as.Rhs[i]).(*ast.CallExpr); ok {
									if f, _ := h.callee(&state{env: newEnv()}, call).(*types.Func); f != nil && f.Pkg() != nil && f.Pkg().Path() == "time" && f.Name() == "After" {
										found = true
									}
								}
							}
						}
					}
					return true
				})
				return found
			}
			seenSel := map[*ast.SelectStmt]bool{}
			seenOp := map[ast.Node]bool{}
			for _, u := range units {
				for _, t := range u.in.Traces {
					for _, e := range t.Ev {
						switch {
						case e.Kind == EvSelect && e.Blocking && e.Select != nil && !seenSel[e.Select]:
							seenSel[e.Select] = true
							esc := false
							var chans []string
							for _, cl := range e.Select.Body.List {
								cc := cl.(*ast.CommClause)
								var ch ast.Expr
								switch m := cc.Comm.(type) {
								case *ast.ExprStmt:
									if un, ok := ast.Unparen(m.X).(*ast.UnaryExpr); ok {
										ch = un.X
									}
								case *ast.AssignStmt:
									if un, ok := ast.Unparen(m.Rhs[0]).(*ast.UnaryExpr); ok {
										ch = un.X
									}
								case *ast.SendStmt:
									chans = append(chans, c.P.exprStr(m.Chan)+"<-")
									continue
								}
								if ch != nil {
									chans = append(chans, "<-"+c.P.exprStr(ch))
									if isEscapeChan(ch) {
										esc = true
									}
								}
							}
							key := fmt.Sprintf("%s:select{%s}", u.name, strings.Join(chans, " | "))
							base := strings.Split(u.name, "$")[0]
							if why, ok := escapeExempt[base]; ok && !esc {
								r.Pass(key, e.Select.Pos(), 1, "exempt by name: "+why)
								continue
							}
							r.Check(key, esc, e.Select.Pos(), 1, "a blocking select without dying/closed/timeout case: the goroutine can block for ever (under the global mutex when reached from Publish)")
						case (e.Kind == EvSend || e.Kind == EvRecv) && e.Blocking && e.Select == nil && !seenOp[e.Node]:
							seenOp[e.Node] = true
							key := fmt.Sprintf("%s:bare %s", u.name, strings.TrimSuffix(c.P.EvString(e)[:strings.Index(c.P.EvString(e), " @")], " "))
							base := strings.Split(u.name, "$")[0]
							if why, ok := escapeExempt[base]; ok {
								r.Pass(key, e.Pos, 1, "exempt by name: "+why)
								continue
							}
							// fill of a channel made in the same function
							made := false
							if e.Kind == EvSend && e.ChanObj != nil {
								for _, t2 := range u.in.Traces {
									for _, a := range t2.Ev {
										// (through a helper interpreted in place: Event.Made)
										if a.Kind == EvAssign && a.LObj == e.ChanObj && a.Made != nil && len(a.Made.Call.Args) == 2 {
											made = true
										}
									}
								}
							}
							r.Check(key, made, e.Pos, 1, "a bare blocking channel operation that is not the initial fill of a buffered channel made in the same function (capacity==count is decided by C16/CAP)")
						}
					}
				}
			}
		}
	}
}

func c14DieClose(c *Ctx, v *vocab) {
	r := c.Rule("C14/DIECLOSE", "TRACE", "die(), Client.Close() and the DISCONNECT handler close the connection and kill the tomb on every path (else the processor stays blocked in Receive)", 3)
	disc := c.handlerOf(r, "broker", "Disconnect")
	for _, fi := range []*FuncInfo{c.P.ByObj[v.bDie], c.P.ByObj[v.bClose], disc} {
		if fi == nil {
			r.Undecided("die/Close/disconnect", 0, "anchor missing")
			continue
		}
		in := c.traces(fi)
		ok := len(in.Traces) > 0
		var w *Trace
		for _, t := range in.Traces {
			if !t.has(callTo(v.connClose)) || !t.has(tombCall("Kill")) {
				ok, w = false, t
			}
		}
		r.Check(fi.Name+":conn.Close ∧ tomb.Kill", ok, fi.Decl.Pos(), len(in.Traces), "a path ends the client without closing its connection or without killing its goroutine group", c.witness(w)...)
	}
	// die returns its (non-nil) error argument, so that callers propagate a non-nil error
	if fi := c.P.ByObj[v.bDie]; fi != nil {
		in := c.traces(fi)
		sig := fi.Obj.Type().(*types.Signature)
		ok := true
		for _, t := range in.Traces {
			if t.Exit != ExitReturn || len(t.Results) != 1 || (&Interp{P: c.P, Info: fi.Pkg.TypesInfo}).objOf(t.Results[0]) != sig.Params().At(sig.Params().Len()-1) {
				ok = false
			}
		}
		r.Check(fi.Name+":returns err", ok, fi.Decl.Pos(), len(in.Traces), "die must hand back the error it was given (the goroutine returns it, which kills the tomb)")
	}
}

// ------------------------------------------------------------------ PANIC

func c14Panic(c *Ctx, v *vocab) {
	r := c.Rule("C14/PANIC", "REACH", "explicit panics in functions used by the client-driven goroutines are discharged: the discriminating parameter is a constant of the handled set at every in-repo call site", 2)
	// panicking functions (explicit panic with a source position)
	type pf struct {
		fi    *FuncInfo
		param *types.Var
	}
	var list []pf
	for _, pk := range []string{"packet", "session", "topic", "transport", "broker"} {
		for _, fi := range c.P.LibFuncsAll(pk) {
			if fi.Decl.Body == nil {
				continue
			}
			has := false
			ast.Inspect(fi.Decl.Body, func(m ast.Node) bool {
				if call, ok := m.(*ast.CallExpr); ok {
					if id, ok := call.Fun.(*ast.Ident); ok && id.Name == "panic" {
						if _, isB := fi.Pkg.TypesInfo.Uses[id].(*types.Builtin); isB {
							has = true
						}
					}
				}
				return true
			})
			if has {
				list = append(list, pf{fi: fi})
			}
		}
	}
	reach := c.reachableFromBrokerRoots()
	for _, p := range list {
		fi := p.fi
		c.Touch(fi.Name)
		if !reach[fi.Obj] {
			r.Pass(fi.Name+":panic not reachable", fi.Decl.Pos(), 1, "not reachable (CHA call graph) from processor/dequeuer/acker/reaper or Decoder.Read: API-misuse guard")
			continue
		}
		// discharge by constants: try every int-typed parameter
		sig := fi.Obj.Type().(*types.Signature)
		discharged := false
		detail := ""
		for i := 0; i < sig.Params().Len(); i++ {
			pr := sig.Params().At(i)
			if b, ok := pr.Type().Underlying().(*types.Basic); !ok || b.Info()&types.IsInteger == 0 {
				continue
			}
			vals, ok, n := c.constArgs(fi.Obj, i, 0)
			if !ok || len(vals) == 0 {
				detail = fmt.Sprintf("parameter %s is not a constant at every call site", pr.Name())
				continue
			}
			allSafe := true
			for val := range vals {
				in := c.P.TraceFunc(fi, TraceOpts{Force: map[types.Object]Val{pr: vInt(val)}})
				for _, t := range in.Traces {
					if t.Exit == ExitPanic {
						allSafe = false
					}
				}
			}
			if allSafe {
				discharged = true
				var vs []string
				for val := range vals {
					vs = append(vs, fmt.Sprint(val))
				}
				sort.Strings(vs)
				detail = fmt.Sprintf("parameter %s ∈ {%s} at all %d call sites; no path panics under these values", pr.Name(), strings.Join(vs, ","), n)
				break
			}
			detail = fmt.Sprintf("a call site passes a value of %s that reaches the panic", pr.Name())
		}
		r.Check(fi.Name+":panic discharged", discharged, fi.Decl.Pos(), 1, "reachable explicit panic: "+detail)
	}
}

// constArgs collects the constant values passed for parameter idx of f over all in-repo call sites,
// following parameters of callers (also through interface methods of the same name).
func (c *Ctx) constArgs(f *types.Func, idx int, depth int) (map[int64]bool, bool, int) {
	vals := map[int64]bool{}
	if depth > 3 {
		return vals, false, 0
	}
	n := 0
	ok := true
	for _, pk := range c.P.All {
		for _, file := range pk.Syntax {
			if strings.HasSuffix(c.P.Fset.File(file.Pos()).Name(), "_test.go") {
				continue
			}
			for _, d := range file.Decls {
				fd, isF := d.(*ast.FuncDecl)
				if !isF || fd.Body == nil {
					continue
				}
				caller, _ := pk.TypesInfo.Defs[fd.Name].(*types.Func)
				h := &Interp{P: c.P, Info: pk.TypesInfo}
				ast.Inspect(fd.Body, func(m ast.Node) bool {
					call, isC := m.(*ast.CallExpr)
					if !isC || idx >= len(call.Args) {
						return true
					}
					g, _ := h.callee(&state{env: newEnv()}, call).(*types.Func)
					if g == nil {
						return true
					}
					match := g == f
					if !match && g.Name() == f.Name() {
						// interface method with the same name and an implementation relation
						if gs, ok := g.Type().(*types.Signature); ok && gs.Recv() != nil {
							if it, ok := gs.Recv().Type().Underlying().(*types.Interface); ok {
								if fs := f.Type().(*types.Signature); fs.Recv() != nil && (types.Implements(fs.Recv().Type(), it) || types.Implements(types.NewPointer(fs.Recv().Type()), it)) {
									match = true
								}
							}
						}
					}
					if !match {
						return true
					}
					n++
					arg := call.Args[idx]
					if tv, has := pk.TypesInfo.Types[arg]; has && tv.Value != nil {
						if val, isInt := constVal(tv); isInt && val.K == VInt {
							vals[val.I] = true
							return true
						}
					}
					// parameter of the caller
					if caller != nil {
						cs := caller.Type().(*types.Signature)
						for j := 0; j < cs.Params().Len(); j++ {
							if h.objOf(arg) == cs.Params().At(j) {
								sub, subOK, sn := c.constArgs(caller, j, depth+1)
								if !subOK || sn == 0 {
									ok = false
								}
								for k := range sub {
									vals[k] = true
								}
								return true
							}
						}
					}
					ok = false
					return true
				})
			}
		}
	}
	return vals, ok, n
}

func (c *Ctx) reachableFromBrokerRoots() map[*types.Func]bool {
	prog, _ := c.P.SSA()
	v := c.vocab()
	res := map[*types.Func]bool{}
	var roots []*ssa.Function
	for _, fi := range c.goroutineRoots("broker") {
		if fn := prog.FuncValue(fi.Obj); fn != nil {
			roots = append(roots, fn)
		}
	}
	if fn := prog.FuncValue(v.bCleanup); fn != nil {
		roots = append(roots, fn)
	}
	if m := c.P.Method("packet", "Decoder", "Read"); m != nil {
		if fn := prog.FuncValue(m); fn != nil {
			roots = append(roots, fn)
		}
	}
	if m := c.P.Method("packet", "Encoder", "Write"); m != nil {
		if fn := prog.FuncValue(m); fn != nil {
			roots = append(roots, fn)
		}
	}
	// class-hierarchy style reachability restricted to the module: static callees plus every
	// in-repo method with the invoked name.
	byName := map[string][]*ssa.Function{}
	for _, fi := range c.P.Funcs {
		if fn := prog.FuncValue(fi.Obj); fn != nil {
			byName[fi.Obj.Name()] = append(byName[fi.Obj.Name()], fn)
		}
	}
	seen := map[*ssa.Function]bool{}
	var stack []*ssa.Function
	stack = append(stack, roots...)
	for len(stack) > 0 {
		fn := stack[len(stack)-1]
		stack = stack[:len(stack)-1]
		if fn == nil || seen[fn] {
			continue
		}
		seen[fn] = true
		if o, ok := fn.Object().(*types.Func); ok {
			res[o] = true
		}
		for _, a := range fn.AnonFuncs {
			stack = append(stack, a)
		}
		for _, b := range fn.Blocks {
			for _, ins := range b.Instrs {
				var com *ssa.CallCommon
				switch x := ins.(type) {
				case *ssa.Call:
					com = x.Common()
				case *ssa.Go:
					com = x.Common()
				case *ssa.Defer:
					com = x.Common()
				}
				if com == nil {
					continue
				}
				if sc := com.StaticCallee(); sc != nil {
					stack = append(stack, sc)
					continue
				}
				if com.IsInvoke() {
					stack = append(stack, byName[com.Method.Name()]...)
				}
			}
		}
	}
	return res
}

// ------------------------------------------------------------------ C15

const c15Explanation = "Static analysis of the ordering mechanisms: (ORDERED, SSA origin) no in-repo implementation reachable through Session.AllPackets may build its result by appending while ranging over a map unless it sorts afterwards — resend loops iterate exactly that slice; " +
	"(SINGLE) each per-connection goroutine function (processor, dequeuer, acker; client processor; service dispatcher) is started once, outside loops, and each queue (ackQueue, commandQueue) has a single receiving function; (FIFO) every send into a session queue holds the backend's global mutex, so all sessions observe one publish order; session queues are channels (FIFO by construction). End-to-end order under schedules and ordering inside third-party writers are not decided."

func propC15(c *Ctx) string {
	v := c.vocab()
	gate := c.Rule("C15/VOCAB", "TABLE", "vocabulary resolves", 1)
	if m := v.missing(); len(m) > 0 {
		gate.Undecided("vocabulary", 0, strings.Join(m, ","))
		return c15Explanation
	}
	gate.Pass("vocabulary", 0, 1, "resolved")
	c15Ordered(c, v)
	c15Single(c, v)
	c15Fifo(c, v)
	// queued service commands are executed first-in first-out: nothing inside the service re-queues a command
	c17Queue(c, v)
	// retransmissions keep the original order only if the resend loops walk the whole stored listing as it is
	c08Resend(c, v, "C15")
	c09Resend(c, v)
	c.NotDecide("end-to-end order under all schedules", "order inside mercury.Writer / bufio (trusted FIFO byte streams)", "order between different QoS levels (not promised)",
		"Dequeue's random choice between temporary and stored queue (different published-QoS classes)")
	c.Assume("Go channels are FIFO", "one MemoryBackend per broker")
	return c15Explanation
}

func c15Ordered(c *Ctx, v *vocab) {
	r := c.Rule("C15/ORDERED", "ORIGIN(SSA)", "no implementation of Session.AllPackets in the repo returns a slice built in map-iteration order (append inside range-over-map without a later sort); the resend loops range over exactly that result", 1)
	prog, _ := c.P.SSA()
	// implementations of AllPackets (broker.Session and client.Session share the method set)
	impls := c.implementations("broker", "Session", "AllPackets")
	for _, fi := range c.implementations("client", "Session", "AllPackets") {
		dup := false
		for _, g := range impls {
			if g == fi {
				dup = true
			}
		}
		if !dup {
			impls = append(impls, fi)
		}
	}
	if len(impls) == 0 {
		r.Undecided("AllPackets implementations", 0, "none found")
		return
	}
	for _, fi := range impls {
		c.Touch(fi.Name)
		fn := prog.FuncValue(fi.Obj)
		if fn == nil {
			r.Undecided(fi.Name, fi.Decl.Pos(), "no SSA")
			continue
		}
		site, sorted, work := mapOrderReturn(fn, 0, map[*ssa.Function]bool{})
		r.Check(fi.Name+":result order", site == "" || sorted, fi.Decl.Pos(), work,
			"the returned slice is appended to while ranging over a map ("+site+") and not sorted: retransmission order after a resume is Go's random map order, not the order of original transmission")
	}
	c15SortKey(c, r, impls)
}

// mapOrderReturn: does some return value of fn (result 0) originate from an append performed inside
// a loop that ranges over a map (ssa.Next over a map Range), transitively through static callees?
func mapOrderReturn(fn *ssa.Function, depth int, seen map[*ssa.Function]bool) (site string, sorted bool, work int) {
	if depth > 4 || seen[fn] || fn.Blocks == nil {
		return "", false, 0
	}
	seen[fn] = true
	// blocks inside a map-range loop: blocks on a cycle that contain / are reachable from a Next on a map iterator
	mapLoopBlocks := map[*ssa.BasicBlock]bool{}
	for _, b := range fn.Blocks {
		for _, ins := range b.Instrs {
			if nx, ok := ins.(*ssa.Next); ok && !nx.IsString {
				if rg, ok := nx.Iter.(*ssa.Range); ok {
					if _, isMap := rg.X.Type().Underlying().(*types.Map); isMap {
						for _, bb := range fn.Blocks {
							if reaches(b, bb) && reaches(bb, b) {
								mapLoopBlocks[bb] = true
							}
						}
					}
				}
			}
		}
	}
	sortCalled := false
	for _, b := range fn.Blocks {
		for _, ins := range b.Instrs {
			if call, ok := ins.(*ssa.Call); ok {
				if sc := call.Common().StaticCallee(); sc != nil && sc.Pkg != nil {
					p := sc.Pkg.Pkg.Path()
					if p == "sort" || p == "slices" {
						sortCalled = true
					}
				}
			}
		}
	}
	// trace returned values
	var visit func(v ssa.Value, d int, seenV map[ssa.Value]bool) string
	visit = func(v ssa.Value, d int, seenV map[ssa.Value]bool) string {
		work++
		if d > 20 || seenV[v] {
			return ""
		}
		seenV[v] = true
		switch x := v.(type) {
		case *ssa.Phi:
			for _, e := range x.Edges {
				if s := visit(e, d+1, seenV); s != "" {
					return s
				}
			}
		case *ssa.Call:
			if bi, ok := x.Common().Value.(*ssa.Builtin); ok && bi.Name() == "append" {
				if mapLoopBlocks[x.Block()] {
					return fn.Prog.Fset.Position(x.Pos()).String()
				}
				return visit(x.Common().Args[0], d+1, seenV)
			}
			if sc := x.Common().StaticCallee(); sc != nil && sc.Pkg != nil && strings.HasPrefix(sc.Pkg.Pkg.Path(), modPath) {
				s, srt, w := mapOrderReturn(sc, depth+1, seen)
				work += w
				if s != "" && !srt {
					return s
				}
			}
		case *ssa.Extract:
			return visit(x.Tuple, d+1, seenV)
		case *ssa.UnOp:
			if al, ok := x.X.(*ssa.Alloc); ok {
				for _, b := range fn.Blocks {
					for _, ins := range b.Instrs {
						if st, ok := ins.(*ssa.Store); ok && st.Addr == al {
							if s := visit(st.Val, d+1, seenV); s != "" {
								return s
							}
						}
					}
				}
			}
		case *ssa.Slice:
			return visit(x.X, d+1, seenV)
		case *ssa.ChangeType:
			return visit(x.X, d+1, seenV)
		}
		return ""
	}
	for _, b := range fn.Blocks {
		for _, ins := range b.Instrs {
			if ret, ok := ins.(*ssa.Return); ok && len(ret.Results) > 0 {
				if s := visit(ret.Results[0], 0, map[ssa.Value]bool{}); s != "" {
					return s, sortCalled, work
				}
			}
		}
	}
	return "", sortCalled, work
}

func c15Single(c *Ctx, v *vocab) {
	r := c.Rule("C15/SINGLE", "WHO", "goroutine functions are started once per connection, outside loops; ackQueue and the service command queue have one receiving function each", 6)
	for _, pkg := range []string{"broker", "client"} {
		starts := map[string][]string{}
		for _, fi := range c.P.LibFuncs(pkg) {
			if fi.Decl.Body == nil {
				continue
			}
			in := c.traces(fi)
			seen := map[ast.Node]bool{}
			for _, t := range in.Traces {
				for i, e := range t.Ev {
					if e.Kind == EvCall && isTomb(e.Callee, "Go") && len(e.Call.Args) == 1 && !seen[e.Node] {
						seen[e.Node] = true
						name := c.P.exprStr(e.Call.Args[0])
						if sel, ok := ast.Unparen(e.Call.Args[0]).(*ast.SelectorExpr); ok {
							if g, ok := fi.Pkg.TypesInfo.Uses[sel.Sel].(*types.Func); ok {
								name = FuncName(g)
							}
						}
						where := fi.Name
						if len(t.loopsAt(i)) > 0 {
							where += " (in loop)"
						}
						starts[name] = append(starts[name], where)
					}
				}
			}
		}
		var names []string
		for n := range starts {
			names = append(names, n)
		}
		sort.Strings(names)
		for _, n := range names {
			ok := len(starts[n]) == 1 && !strings.Contains(starts[n][0], "(in loop)")
			r.Check("tomb.Go("+n+")", ok, 0, 1, fmt.Sprintf("started at: %v — a second consumer of the same queue reorders deliveries", starts[n]))
		}
	}
	// single receivers
	cq := c.P.Field("client", "Service", "commandQueue")
	for _, q := range []struct {
		pkg string
		f   *types.Var
	}{{"broker", v.fAckQueue}, {"client", cq}} {
		if q.f == nil {
			r.Undecided(q.pkg+" queue", 0, "field not found")
			continue
		}
		var recvs []string
		for _, fi := range c.P.LibFuncs(q.pkg) {
			if fi.Decl.Body == nil {
				continue
			}
			found := false
			for _, t := range c.traces(fi).Traces {
				if t.has(recvOn(q.f)) {
					found = true
				}
			}
			for _, lit := range funcLits(fi.Decl.Body) {
				for _, t := range c.P.TraceLit(fi, lit, c.defOpts()).Traces {
					if t.has(recvOn(q.f)) {
						found = true
					}
				}
			}
			if found {
				recvs = append(recvs, fi.Name)
			}
		}
		r.Check(q.f.Name()+":single receiver", len(recvs) == 1, 0, 1, fmt.Sprintf("receivers: %v", recvs))
	}
}

func c15Fifo(c *Ctx, v *vocab) {
	r := c.Rule("C15/FIFO", "LOCK", "every send into a session queue (chan *packet.Message) in package broker holds MemoryBackend.globalMutex: all sessions see one publish order", 5)
	gm := c.P.Field("broker", "MemoryBackend", "globalMutex")
	if gm == nil {
		r.Undecided("globalMutex", 0, "not found")
		return
	}
	res := c.lockAnalysisEv("broker", map[*types.Var]guardSpec{}, nil, func(fi *FuncInfo, e *Event) bool { return c.isQueueSend(fi)(e) })
	seen := map[ast.Node]*lockAccess{}
	okAt := map[ast.Node]bool{}
	var order []ast.Node
	for i := range res.watched {
		a := res.watched[i]
		if _, s := seen[a.ev.Node]; !s {
			seen[a.ev.Node] = &res.watched[i]
			okAt[a.ev.Node] = true
			order = append(order, a.ev.Node)
		}
		if a.held[gm] != lockW {
			okAt[a.ev.Node] = false
			seen[a.ev.Node] = &res.watched[i]
		}
	}
	ord := map[string]int{}
	for _, n := range order {
		a := seen[n]
		key := fmt.Sprintf("%s:%s", a.fn.Name, c.P.exprStr(a.ev.Chan)+"<-")
		ord[key]++
		if ord[key] > 1 {
			key = fmt.Sprintf("%s#%d", key, ord[key])
		}
		r.Check(key, okAt[n], a.ev.Pos, 1, "queue send without the global mutex: two publishers can interleave their fan-outs differently for different sessions", c.witness(a.trace)...)
	}
	// sends inside function literals: a literal started with `go` runs without the caller's locks; it must take
	// the global mutex itself before it sends (a parked hand-over goroutine is overtaken by later publishes)
	var brokerFuncs []*FuncInfo
	for _, fi := range c.P.Funcs {
		if shortPkg(fi.Pkg.PkgPath) == "broker" { // NEW helpers included: literals are not inlined
			brokerFuncs = append(brokerFuncs, fi)
		}
	}
	sort.Slice(brokerFuncs, func(i, j int) bool { return brokerFuncs[i].Name < brokerFuncs[j].Name })
	for _, fi := range brokerFuncs {
		if fi.Decl.Body == nil {
			continue
		}
		info := fi.Pkg.TypesInfo
		h := &Interp{P: c.P, Info: info}
		goLits := map[*ast.FuncLit]bool{}
		ast.Inspect(fi.Decl.Body, func(m ast.Node) bool {
			if g, ok := m.(*ast.GoStmt); ok {
				if fl, ok := ast.Unparen(g.Call.Fun).(*ast.FuncLit); ok {
					goLits[fl] = true
				}
			}
			return true
		})
		ast.Inspect(fi.Decl.Body, func(m ast.Node) bool {
			fl, ok := m.(*ast.FuncLit)
			if !ok {
				return true
			}
			ast.Inspect(fl.Body, func(n ast.Node) bool {
				snd, ok := n.(*ast.SendStmt)
				if !ok {
					return true
				}
				ct, _ := info.TypeOf(snd.Chan).Underlying().(*types.Chan)
				if ct == nil || !typeIs(ct.Elem(), "packet", "Message", true) {
					return true
				}
				locked := false
				ast.Inspect(fl.Body, func(k ast.Node) bool {
					if call, ok := k.(*ast.CallExpr); ok && call.Pos() < snd.Pos() {
						if sel, ok := ast.Unparen(call.Fun).(*ast.SelectorExpr); ok && sel.Sel.Name == "Lock" && h.objOf(sel.X) == types.Object(gm) {
							locked = true
						}
					}
					return true
				})
				key := fmt.Sprintf("%s$literal:%s<-", fi.Name, c.P.exprStr(snd.Chan))
				switch {
				case goLits[fl]:
					r.Check(key, locked, snd.Pos(), 1, "a goroutine started for the hand-over sends into a session queue without the global mutex: messages parked in such goroutines are overtaken by later publishes (per-publisher order is lost under back-pressure)")
				case !locked:
					r.Undecided(key, snd.Pos(), "queue send inside a function literal whose caller's lockset is not tracked")
				}
				return true
			})
			return true
		})
	}
}

// c15SortKey: where the resend order is produced by sorting (a listing collected in map order and sorted
// afterwards), the sort key must be a save-sequence number: a value looked up in a receiver field whose every
// element store takes its value from a counter field that is only ever incremented (or re-initialised together
// with the store). Sorting by the packet id itself is not the order of original transmission: ids wrap around at
// 65535, so after a wrap the retransmission order is reversed for the packets around it.
func c15SortKey(c *Ctx, r *Rule, impls []*FuncInfo) {
	// functions reachable from the AllPackets implementations through static in-repo calls
	reach := map[*types.Func]*FuncInfo{}
	var via func(fi *FuncInfo)
	via = func(fi *FuncInfo) {
		if reach[fi.Obj] != nil || fi.Decl.Body == nil {
			return
		}
		reach[fi.Obj] = fi
		ast.Inspect(fi.Decl.Body, func(m ast.Node) bool {
			if call, ok := m.(*ast.CallExpr); ok {
				if g, ok := typeutilCallee(fi.Pkg.TypesInfo, call).(*types.Func); ok {
					if h := c.P.ByObj[g]; h != nil {
						via(h)
					}
				}
			}
			return true
		})
	}
	for _, fi := range impls {
		via(fi)
	}
	var fis []*FuncInfo
	for _, fi := range reach {
		fis = append(fis, fi)
	}
	sort.Slice(fis, func(i, j int) bool { return fis[i].Name < fis[j].Name })
	for _, fi := range fis {
		info := fi.Pkg.TypesInfo
		h := &Interp{P: c.P, Info: info}
		// a listing read off a slice kept by the store: the slice must stay in save order
		ast.Inspect(fi.Decl.Body, func(m ast.Node) bool {
			rs, ok := m.(*ast.RangeStmt)
			if !ok {
				return true
			}
			fv, _ := h.objOf(rs.X).(*types.Var)
			if fv == nil || !fv.IsField() {
				return true
			}
			if _, isSlice := fv.Type().Underlying().(*types.Slice); !isSlice {
				return true
			}
			good, why := c.orderPreservingSlice(fv)
			r.Check(fi.Name+":listing over "+fv.Name()+" keeps save order", good, rs.Pos(), 1, "the listing follows the slice "+fv.Name()+", which does not stay in save order: "+why)
			return true
		})
		ast.Inspect(fi.Decl.Body, func(m ast.Node) bool {
			call, ok := m.(*ast.CallExpr)
			if !ok {
				return true
			}
			f, ok := typeutilCallee(info, call).(*types.Func)
			if !ok || f.Pkg() == nil || (f.Pkg().Path() != "sort" && f.Pkg().Path() != "slices") {
				return true
			}
			key := fi.Name + ":" + f.Pkg().Name() + "." + f.Name() + " key"
			var less *ast.FuncLit
			for _, a := range call.Args {
				if fl, ok := ast.Unparen(a).(*ast.FuncLit); ok {
					less = fl
				}
			}
			if less == nil || len(less.Body.List) != 1 {
				r.Undecided(key, call.Pos(), "the ordering function is not a single-return function literal: the sort key cannot be identified")
				return true
			}
			ret, ok := less.Body.List[0].(*ast.ReturnStmt)
			if !ok || len(ret.Results) != 1 {
				r.Undecided(key, call.Pos(), "the ordering function is not a single-return function literal")
				return true
			}
			cmp, ok := ast.Unparen(ret.Results[0]).(*ast.BinaryExpr)
			if !ok || (cmp.Op != token.LSS && cmp.Op != token.GTR && cmp.Op != token.LEQ && cmp.Op != token.GEQ) {
				r.Undecided(key, call.Pos(), "the ordering function does not compare two keys")
				return true
			}
			// each side: lookup in a receiver field F
			var field *types.Var
			okSides := true
			for _, side := range []ast.Expr{cmp.X, cmp.Y} {
				ix, isIx := ast.Unparen(side).(*ast.IndexExpr)
				if !isIx {
					okSides = false
					break
				}
				fv, _ := h.objOf(ix.X).(*types.Var)
				if fv == nil || !fv.IsField() {
					okSides = false
					break
				}
				if field != nil && field != fv {
					okSides = false
				}
				field = fv
			}
			if !okSides || field == nil {
				r.Fail(key, call.Pos(), 1, "the listing is sorted by "+types.ExprString(cmp.X)+" — not by a save-sequence number kept by the store: packet ids wrap around, so this is not the order of original transmission")
				return true
			}
			// every element store into F takes its value from a counter field that is only incremented
			good, why := c.monotoneSequence(field)
			r.Check(key, good, call.Pos(), 1, "the sort key "+field.Name()+" is not a monotone save-sequence: "+why)
			return true
		})
	}
}

// monotoneSequence: every store F[k] = v in F's package has v read from one counter field G; G is incremented in
// the storing function; G is otherwise only assigned constants (re-initialisation).
func (c *Ctx) monotoneSequence(F *types.Var) (bool, string) {
	var pkgFuncs []*FuncInfo
	for _, fi := range c.P.Funcs {
		if fi.Pkg.Types == F.Pkg() && fi.Decl.Body != nil {
			pkgFuncs = append(pkgFuncs, fi)
		}
	}
	sort.Slice(pkgFuncs, func(i, j int) bool { return pkgFuncs[i].Name < pkgFuncs[j].Name })
	var counter *types.Var
	stores := 0
	for _, fi := range pkgFuncs {
		h := &Interp{P: c.P, Info: fi.Pkg.TypesInfo}
		bad := ""
		ast.Inspect(fi.Decl.Body, func(m ast.Node) bool {
			as, ok := m.(*ast.AssignStmt)
			if !ok {
				return true
			}
			for i, l := range as.Lhs {
				ix, isIx := ast.Unparen(l).(*ast.IndexExpr)
				if !isIx || h.objOf(ix.X) != types.Object(F) || i >= len(as.Rhs) {
					continue
				}
				stores++
				g, _ := h.objOf(as.Rhs[i]).(*types.Var)
				if g == nil || !g.IsField() || as.Tok != token.ASSIGN {
					bad = "element store in " + fi.Name + " does not take its value from a counter field"
					continue
				}
				if counter != nil && counter != g {
					bad = "element stores use different counters"
				}
				counter = g
				// the counter is incremented in this function
				inc := false
				ast.Inspect(fi.Decl.Body, func(n ast.Node) bool {
					switch x := n.(type) {
					case *ast.IncDecStmt:
						if x.Tok == token.INC && h.objOf(x.X) == types.Object(g) {
							inc = true
						}
					case *ast.AssignStmt:
						if x.Tok == token.ADD_ASSIGN && len(x.Lhs) == 1 && h.objOf(x.Lhs[0]) == types.Object(g) {
							if tv, ok := fi.Pkg.TypesInfo.Types[x.Rhs[0]]; ok && tv.Value != nil && tv.Value.String() != "0" {
								inc = true
							}
						}
					}
					return true
				})
				if !inc {
					bad = "the counter " + g.Name() + " is not incremented in " + fi.Name
				}
			}
			return true
		})
		if bad != "" {
			return false, bad
		}
	}
	if stores == 0 || counter == nil {
		return false, "no element store into " + F.Name() + " found"
	}
	// other writers of the counter: only constants, never decrements
	for _, fi := range pkgFuncs {
		h := &Interp{P: c.P, Info: fi.Pkg.TypesInfo}
		bad := ""
		ast.Inspect(fi.Decl.Body, func(m ast.Node) bool {
			switch x := m.(type) {
			case *ast.IncDecStmt:
				if x.Tok == token.DEC && h.objOf(x.X) == types.Object(counter) {
					bad = "the counter is decremented in " + fi.Name
				}
			case *ast.AssignStmt:
				for i, l := range x.Lhs {
					if h.objOf(l) != types.Object(counter) {
						continue
					}
					switch x.Tok {
					case token.ADD_ASSIGN:
					case token.ASSIGN, token.DEFINE:
						if i < len(x.Rhs) {
							if tv, ok := fi.Pkg.TypesInfo.Types[x.Rhs[i]]; !ok || tv.Value == nil {
								bad = "the counter is assigned a non-constant in " + fi.Name
							}
						}
					default:
						bad = "the counter is modified by " + x.Tok.String() + " in " + fi.Name
					}
				}
			}
			return true
		})
		if bad != "" {
			return false, bad
		}
	}
	return true, ""
}

// orderPreservingSlice: every write to the slice field F in its package is a tail append of a new element
// (F = append(F, x)), an order-preserving removal (F = append(F[:i], F[i+1:]...), copy(F[i:], F[i+1:]) followed by a
// truncation), a truncation F = F[:n] or a re-initialisation; no element is overwritten in place and the slice is
// neither sorted nor swapped.
func (c *Ctx) orderPreservingSlice(F *types.Var) (bool, string) {
	pkgName := F.Pkg().Name()
	good, why := true, ""
	bad := func(pos token.Pos, msg string) {
		if good {
			good, why = false, msg+" at "+c.P.Pos(pos)
		}
	}
	for _, fi := range c.P.LibFuncsAll(pkgName) {
		if fi.Decl.Body == nil {
			continue
		}
		h := &Interp{P: c.P, Info: fi.Pkg.TypesInfo}
		isF := func(e ast.Expr) bool { return h.objOf(e) == types.Object(F) }
		sliceOfF := func(e ast.Expr) bool {
			sl, ok := ast.Unparen(e).(*ast.SliceExpr)
			return ok && isF(sl.X)
		}
		ast.Inspect(fi.Decl.Body, func(m ast.Node) bool {
			switch y := m.(type) {
			case *ast.AssignStmt:
				for i, l := range y.Lhs {
					if ix, ok := ast.Unparen(l).(*ast.IndexExpr); ok && isF(ix.X) {
						bad(y.Pos(), "an element is overwritten in place ("+c.P.exprStr(l)+" = …), which moves a later element forward")
						continue
					}
					if !isF(l) || i >= len(y.Rhs) && len(y.Rhs) != 1 {
						continue
					}
					rhs := ast.Unparen(y.Rhs[min(i, len(y.Rhs)-1)])
					switch v := rhs.(type) {
					case *ast.Ident:
						if v.Name != "nil" {
							bad(y.Pos(), "the slice is replaced by "+v.Name)
						}
					case *ast.SliceExpr:
						if !isF(v.X) {
							bad(y.Pos(), "the slice is replaced by a slice of something else")
						}
					case *ast.CallExpr:
						fn, _ := ast.Unparen(v.Fun).(*ast.Ident)
						switch {
						case fn != nil && fn.Name == "make":
						case fn != nil && fn.Name == "append" && len(v.Args) >= 1:
							switch {
							case isF(v.Args[0]):
								for _, a := range v.Args[1:] {
									if isF(a) || sliceOfF(a) {
										bad(y.Pos(), "the slice is appended to itself")
									}
								}
							case sliceOfF(v.Args[0]) && len(v.Args) == 2 && v.Ellipsis.IsValid() && sliceOfF(v.Args[1]):
								// append(F[:i], F[j:]...) keeps the relative order of what remains
								lo := ast.Unparen(v.Args[0]).(*ast.SliceExpr)
								hi := ast.Unparen(v.Args[1]).(*ast.SliceExpr)
								if lo.Low != nil || hi.High != nil {
									bad(y.Pos(), "removal is not of the form append(F[:i], F[j:]...)")
								}
							default:
								bad(y.Pos(), "the slice is rebuilt by an append that is neither a tail append nor an order-preserving removal")
							}
						default:
							bad(y.Pos(), "the slice is replaced by the result of a call")
						}
					default:
						bad(y.Pos(), "the slice is replaced by "+c.P.exprStr(rhs))
					}
				}
			case *ast.CallExpr:
				if f, ok := typeutilCallee(fi.Pkg.TypesInfo, y).(*types.Func); ok && f.Pkg() != nil && (f.Pkg().Path() == "sort" || f.Pkg().Path() == "slices") {
					for _, a := range y.Args {
						if isF(a) || sliceOfF(a) {
							bad(y.Pos(), "the slice is reordered by "+f.Pkg().Name()+"."+f.Name())
						}
					}
				}
				if id, ok := ast.Unparen(y.Fun).(*ast.Ident); ok && id.Name == "copy" && len(y.Args) == 2 && (isF(y.Args[0]) || sliceOfF(y.Args[0])) {
					// copy(F[i:], F[i+1:]) shifts the tail down by one: order preserving
					d, dok := ast.Unparen(y.Args[0]).(*ast.SliceExpr)
					sr, sok := ast.Unparen(y.Args[1]).(*ast.SliceExpr)
					if !dok || !sok || !isF(sr.X) || d.Low == nil || sr.Low == nil || d.High != nil || sr.High != nil {
						bad(y.Pos(), "elements are copied over the slice")
					}
				}
			}
			return true
		})
	}
	return good, why
}
