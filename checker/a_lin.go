package main

// LIN: path-sensitive abstract interpretation with a linear-inequality domain, used to decide that the
// decode side of package packet cannot index or slice out of range (and never reports more bytes consumed
// than supplied) for ANY input buffer.
//
//   * values: integers are linear expressions over symbolic atoms (buffer lengths, helper results, loop
//     counters); slices and strings carry a linear expression for their length; booleans are 0/1 integers;
//     error values carry nil / non-nil / unknown.
//   * a state is a conjunction of linear constraints (path conditions, type ranges, callee facts).
//   * every index, slice, make and standard-library precondition is an OBLIGATION proved by refutation:
//     constraints ∧ ¬goal must be infeasible over the rationals (Fourier–Motzkin elimination inside this
//     file; rational infeasibility implies integer infeasibility, so a proof is sound; failure to prove is
//     reported, never assumed).
//   * in-package callees are summarised once (one disjunct per path: constraints + results + obligations that
//     could not be proved locally, which the caller must prove after substitution); loops are handled with
//     candidate invariants (0 ≤ v ≤ len(s) for every integer v assigned in the loop and every slice s in
//     scope) checked inductively (Houdini: failing candidates are dropped and the loop is re-analysed).
//   * machine-integer overflow is not modelled (all quantities are bounded by a buffer length or by 2^28,
//     stated as an assumption); nil dereferences are not in scope; explicit panic() calls end a path and are
//     discharged by C14/PANIC.

import (
	"fmt"
	"go/ast"
	"go/token"
	"go/types"
	"math"
	"sort"
	"strings"
)

// ---------------------------------------------------------------- linear expressions

type lterm struct {
	a int
	c int64
}

// LE is sum(c_i * atom_i) + k. Terms are sorted by atom and have non-zero coefficients.
type LE struct {
	t []lterm
	k int64
}

func leConst(k int64) LE { return LE{k: k} }
func leAtom(a int) LE    { return LE{t: []lterm{{a, 1}}} }

func (l LE) isConst() bool { return len(l.t) == 0 }

func (l LE) add(m LE) LE {
	out := LE{k: l.k + m.k}
	i, j := 0, 0
	for i < len(l.t) || j < len(m.t) {
		switch {
		case j >= len(m.t) || (i < len(l.t) && l.t[i].a < m.t[j].a):
			out.t = append(out.t, l.t[i])
			i++
		case i >= len(l.t) || m.t[j].a < l.t[i].a:
			out.t = append(out.t, m.t[j])
			j++
		default:
			if c := l.t[i].c + m.t[j].c; c != 0 {
				out.t = append(out.t, lterm{l.t[i].a, c})
			}
			i++
			j++
		}
	}
	return out
}

func (l LE) scale(n int64) LE {
	if n == 0 {
		return LE{}
	}
	out := LE{k: l.k * n}
	for _, t := range l.t {
		out.t = append(out.t, lterm{t.a, t.c * n})
	}
	return out
}

func (l LE) sub(m LE) LE { return l.add(m.scale(-1)) }

func (l LE) coef(a int) int64 {
	for _, t := range l.t {
		if t.a == a {
			return t.c
		}
	}
	return 0
}

func (l LE) key() string {
	var sb strings.Builder
	for _, t := range l.t {
		fmt.Fprintf(&sb, "%d*%d,", t.c, t.a)
	}
	fmt.Fprintf(&sb, "%d", l.k)
	return sb.String()
}

func gcd64(a, b int64) int64 {
	if a < 0 {
		a = -a
	}
	if b < 0 {
		b = -b
	}
	for b != 0 {
		a, b = b, a%b
	}
	return a
}

// normalize divides a constraint l >= 0 by the gcd of its coefficients (flooring the constant: valid over the
// integers and also a consequence over the rationals, because the atoms are integers).
func (l LE) normalize() LE {
	if len(l.t) == 0 {
		return l
	}
	g := int64(0)
	for _, t := range l.t {
		g = gcd64(g, t.c)
	}
	if g <= 1 {
		return l
	}
	out := LE{}
	for _, t := range l.t {
		out.t = append(out.t, lterm{t.a, t.c / g})
	}
	// floor division of the constant
	k := l.k / g
	if l.k%g != 0 && l.k < 0 {
		k--
	}
	out.k = k
	return out
}

// subst replaces atoms by linear expressions (atoms absent from m are kept).
func (l LE) subst(m map[int]LE) LE {
	out := leConst(l.k)
	for _, t := range l.t {
		if r, ok := m[t.a]; ok {
			out = out.add(r.scale(t.c))
		} else {
			out = out.add(LE{t: []lterm{t}})
		}
	}
	return out
}

// infeasible decides by Fourier–Motzkin elimination whether the conjunction cons (each >= 0) has no rational
// solution. A true answer is a proof; on budget exhaustion the answer is false (not proven).
func infeasible(cons []LE, budget *int) bool {
	cur := make([]LE, 0, len(cons))
	seen := map[string]bool{}
	for _, c := range cons {
		c = c.normalize()
		if c.isConst() {
			if c.k < 0 {
				return true
			}
			continue
		}
		k := c.key()
		if !seen[k] {
			seen[k] = true
			cur = append(cur, c)
		}
	}
	for {
		// pick the atom with the fewest pos*neg combinations
		cnt := map[int][2]int{}
		for _, c := range cur {
			for _, t := range c.t {
				x := cnt[t.a]
				if t.c > 0 {
					x[0]++
				} else {
					x[1]++
				}
				cnt[t.a] = x
			}
		}
		if len(cnt) == 0 {
			return false
		}
		best, bestCost := -1, math.MaxInt64
		var atoms []int
		for a := range cnt {
			atoms = append(atoms, a)
		}
		sort.Ints(atoms)
		for _, a := range atoms {
			x := cnt[a]
			cost := x[0]*x[1] - x[0] - x[1]
			if cost < bestCost {
				best, bestCost = a, cost
			}
		}
		var pos, neg, rest []LE
		for _, c := range cur {
			switch co := c.coef(best); {
			case co > 0:
				pos = append(pos, c)
			case co < 0:
				neg = append(neg, c)
			default:
				rest = append(rest, c)
			}
		}
		seen = map[string]bool{}
		next := rest[:len(rest):len(rest)]
		for _, c := range rest {
			seen[c.key()] = true
		}
		for _, p := range pos {
			for _, n := range neg {
				*budget--
				if *budget < 0 {
					return false
				}
				cp, cn := p.coef(best), -n.coef(best)
				g := gcd64(cp, cn)
				comb := p.scale(cn / g).add(n.scale(cp / g)).normalize()
				if comb.isConst() {
					if comb.k < 0 {
						return true
					}
					continue
				}
				// guard against coefficient blow-up
				big := false
				for _, t := range comb.t {
					if t.c > 1<<40 || t.c < -(1<<40) {
						big = true
					}
				}
				if big || comb.k > 1<<50 || comb.k < -(1<<50) {
					continue // dropping a constraint is sound (weakens the system)
				}
				k := comb.key()
				if !seen[k] {
					seen[k] = true
					next = append(next, comb)
				}
			}
		}
		cur = next
		if len(cur) > 4000 {
			return false
		}
	}
}

// ---------------------------------------------------------------- abstract values and states

type lkind int

const (
	lkOther lkind = iota
	lkInt         // lin
	lkSeq         // slice / string / array: ln is its length
	lkErr         // error / pointer: nilness
)

type lval struct {
	kind lkind
	lin  LE
	ln   LE
	nil_ int // lkErr: -1 nil, +1 non-nil, 0 unknown
	// lkSeq: a lower bound of the capacity, when one is known (bytes.Buffer.Bytes() after Grow)
	hasCap bool
	cp     LE
}

type lstate struct {
	cons []LE
	env  map[types.Object]*lval
	flds map[string]*lval
	pend []lobl                  // obligations of this path that could not be proved locally (non-root functions)
	memo map[*ast.CallExpr]*lval // value of an in-repo call that was interpreted (forking) ahead of its expression
}

func (s *lstate) clone() *lstate {
	n := &lstate{cons: s.cons[:len(s.cons):len(s.cons)], env: make(map[types.Object]*lval, len(s.env)), flds: make(map[string]*lval, len(s.flds)),
		pend: s.pend[:len(s.pend):len(s.pend)]}
	if len(s.memo) > 0 {
		n.memo = make(map[*ast.CallExpr]*lval, len(s.memo))
		for k, v := range s.memo {
			n.memo[k] = v
		}
	}
	for k, v := range s.env {
		n.env[k] = v
	}
	for k, v := range s.flds {
		n.flds[k] = v
	}
	return n
}

func (s *lstate) assume(l LE) { s.cons = append(s.cons, l) }

// lobl is an obligation goal >= 0 in the context of the first nctx constraints of its path.
type lobl struct {
	goal LE
	ctx  []LE
	what string
	pos  token.Pos
	fn   string
}

type lpath struct {
	cons    []LE
	results []*lval
	pre     []lobl
}

type lsummary struct {
	fi      *FuncInfo
	params  []*lval // abstract value handed to each parameter (receiver first)
	natoms  int
	paths   []*lpath
	undec   []string
	inProg  bool
	nObl    int
	nProved int
}

// LoopFact: what the analysis established about one integer variable assigned in one loop.
type LoopFact struct {
	Fn        string
	Pos       token.Pos
	Var       types.Object
	EntryOK   bool  // the value at loop entry is a constant
	Entry     int64 // that constant
	StepOne   bool  // on every back edge the variable is exactly one larger than at the loop head
	BackEdges int
}

// LinResult is what the rules see.
type LinObligation struct {
	Fn, What string
	Pos      token.Pos
	Proved   bool
	Pending  bool // left to the callers (non-root helper)
	Term     bool // a termination obligation
}

type linAnalysis struct {
	p       *Program
	sums    map[*types.Func]*lsummary
	Obls    []*LinObligation
	oblSeen map[string]*LinObligation
	Undec   []string
	FM      int // Fourier–Motzkin combination steps
	Paths   int
	intBits int

	// per function being summarised
	cur    *lsummary
	natoms int
	probe  int
	info   *types.Info
	over   bool
	root   bool
	multi  *multiVal    // results of the last multi-value library call in expression position
	named  []*types.Var // named results of the function being summarised

	// observation hooks for rules (called in every function that is summarised, probe passes excluded)
	OnCall   func(a *linAnalysis, st *lstate, fn string, call *ast.CallExpr, callee types.Object, args []*lval)
	OnReturn func(a *linAnalysis, st *lstate, fn string, ret *ast.ReturnStmt)
	Loops    []LoopFact
}

func (p *Program) newLin() *linAnalysis {
	bits := 64
	if p.GOARCH == "386" || p.GOARCH == "arm" || p.GOARCH == "mips" {
		bits = 32
	}
	return &linAnalysis{p: p, sums: map[*types.Func]*lsummary{}, oblSeen: map[string]*LinObligation{}, intBits: bits}
}

func (a *linAnalysis) fresh() int { a.natoms++; return a.natoms }

func (a *linAnalysis) undecided(msg string, pos token.Pos) {
	s := fmt.Sprintf("%s: %s at %s", a.cur.fi.Name, msg, a.p.Pos(pos))
	a.cur.undec = append(a.cur.undec, s)
}

// typeRange returns the value range of a basic integer type (ok=false when unbounded on that side).
func (a *linAnalysis) typeRange(t types.Type) (lo, hi int64, hasLo, hasHi bool) {
	b, ok := t.Underlying().(*types.Basic)
	if !ok {
		return
	}
	switch b.Kind() {
	case types.Bool, types.UntypedBool:
		return 0, 1, true, true
	case types.Uint8:
		return 0, 255, true, true
	case types.Uint16:
		return 0, 65535, true, true
	case types.Uint32:
		return 0, math.MaxUint32, true, true
	case types.Uint64, types.Uint, types.Uintptr:
		return 0, 0, true, false
	case types.Int8:
		return -128, 127, true, true
	case types.Int16:
		return -32768, 32767, true, true
	case types.Int32:
		return math.MinInt32, math.MaxInt32, true, true
	case types.Int:
		if a.intBits == 32 {
			return math.MinInt32, math.MaxInt32, true, true
		}
	}
	return
}

func isIntLike(t types.Type) bool {
	b, ok := t.Underlying().(*types.Basic)
	return ok && b.Info()&(types.IsInteger|types.IsBoolean) != 0
}

func isSeq(t types.Type) bool {
	switch u := t.Underlying().(type) {
	case *types.Slice, *types.Array:
		return true
	case *types.Basic:
		return u.Info()&types.IsString != 0
	case *types.Pointer:
		_, ok := u.Elem().Underlying().(*types.Array)
		return ok
	}
	return false
}

func isNilable(t types.Type) bool {
	switch t.Underlying().(type) {
	case *types.Interface, *types.Pointer, *types.Map, *types.Chan, *types.Signature:
		return true
	}
	return false
}

// freshFor makes an unconstrained abstract value of type t (with the type's range as constraints).
func (a *linAnalysis) freshFor(st *lstate, t types.Type) *lval {
	switch {
	case t == nil:
		return &lval{}
	case isIntLike(t):
		at := a.fresh()
		l := leAtom(at)
		lo, hi, hasLo, hasHi := a.typeRange(t)
		if hasLo {
			st.assume(l.sub(leConst(lo)))
		}
		if hasHi {
			st.assume(leConst(hi).sub(l))
		}
		return &lval{kind: lkInt, lin: l}
	case isSeq(t):
		if arr, ok := t.Underlying().(*types.Array); ok {
			return &lval{kind: lkSeq, ln: leConst(arr.Len())}
		}
		at := a.fresh()
		st.assume(leAtom(at))
		return &lval{kind: lkSeq, ln: leAtom(at)}
	case isNilable(t):
		return &lval{kind: lkErr}
	}
	return &lval{}
}

// prove: cons ⊢ goal >= 0 ?
func (a *linAnalysis) prove(cons []LE, goal LE) bool {
	if goal.isConst() {
		return goal.k >= 0
	}
	// cone of influence: constraints transitively sharing atoms with the goal
	rel := map[int]bool{}
	for _, t := range goal.t {
		rel[t.a] = true
	}
	used := make([]bool, len(cons))
	sel := []LE{goal.scale(-1).add(leConst(-1))}
	for changed := true; changed; {
		changed = false
		for i, c := range cons {
			if used[i] {
				continue
			}
			hit := false
			for _, t := range c.t {
				if rel[t.a] {
					hit = true
					break
				}
			}
			if hit {
				used[i] = true
				sel = append(sel, c)
				for _, t := range c.t {
					if !rel[t.a] {
						rel[t.a] = true
						changed = true
					}
				}
			}
		}
	}
	budget := 200000
	r := infeasible(sel, &budget)
	a.FM += 200000 - budget
	return r
}

func (a *linAnalysis) feasible(st *lstate) bool {
	budget := 100000
	r := infeasible(st.cons, &budget)
	a.FM += 100000 - budget
	return !r
}

// oblige records the obligation goal >= 0 at this program point.
func (a *linAnalysis) oblige(st *lstate, goal LE, what string, pos token.Pos) {
	if a.probe > 0 {
		return
	}
	ok := a.prove(st.cons, goal)
	key := a.cur.fi.Name + "|" + what + "|" + a.p.Pos(pos)
	o := a.oblSeen[key]
	if o == nil {
		o = &LinObligation{Fn: a.cur.fi.Name, What: what, Pos: pos, Proved: true}
		a.oblSeen[key] = o
		a.Obls = append(a.Obls, o)
	}
	if ok {
		return
	}
	if a.root {
		o.Proved = false
		return
	}
	// leave it to the callers: remember goal and context
	o.Pending = true
	st.pend = append(st.pend, lobl{goal: goal, ctx: st.cons[:len(st.cons):len(st.cons)], what: what, pos: pos, fn: a.cur.fi.Name})
}
