package main

import (
	"fmt"
	"go/ast"
	"go/types"
	"strings"
)

func init() {
	register("C18", propC18)
	register("C19", propC19)
}

// ------------------------------------------------------------------ C18

const c18Explanation = "Static analysis of session/id_counter.go, packet_store.go, memory_session.go and packet.GetID: (NONZERO) a three-point abstract interpretation {0, non-zero} of NextID shows the returned id is never zero on any path; (INC) the counter is read once and incremented exactly once after the read (plus the zero skip), Reset stores 1; " +
	"(LOCK/ATOMIC) IDCounter.next and PacketStore.packets are only touched under their mutex, each exported method is one critical section; (GETID) the set of packet types with an ID field equals the set of GetID cases answering true, each case tag equals that type's Type(); (STORE) Save keys by GetID and ignores id-less packets, Lookup/Delete/Reset/All act on the one map, All returns a fresh slice; " +
	"(DIR) directions map to two distinct stores and every MemorySession method routes through its own direction argument. Pairwise distinctness of 65535 consecutive ids is modular arithmetic over the increment and is argued from INC, not mechanised; map semantics are Go's."

func propC18(c *Ctx) string {
	c18Counter(c)
	c18Locks(c)
	c18GetID(c)
	c18Store(c)
	c18Dir(c)
	c.NotDecide("pairwise distinctness of any 65535 consecutive ids (follows from 'exactly one +1 per call, zero skipped' by modular arithmetic; not mechanised)", "Go map semantics (last writer wins per key)", "concurrency beyond the lock discipline")
	c.Assume("packet.ID is an unsigned 16-bit integer (checked)", "sync.Mutex/RWMutex are correct")
	return c18Explanation
}

func c18Counter(c *Ctx) {
	r := c.Rule("C18/NONZERO", "NONZERO", "IDCounter.NextID returns a non-zero id on every path from every counter state (abstract states: 0, non-zero)", 2)
	fi := c.mustFunc(r, "session.(*IDCounter).NextID")
	next := c.P.Field("session", "IDCounter", "next")
	if fi == nil || next == nil {
		return
	}
	// packet.ID is uint16
	if id := c.P.Named("packet", "ID"); id != nil {
		b, ok := id.Underlying().(*types.Basic)
		c.Rule("C18/IDTYPE", "TABLE", "packet.ID is a 16-bit unsigned integer", 1).Check("packet.ID", ok && b.Kind() == types.Uint16, 0, 1, "id space is 1..65535")
	}
	for _, st := range []Val{vInt(0), {K: VPos}} {
		in := c.P.TraceFunc(fi, TraceOpts{Init: map[types.Object]Val{next: st}})
		var bad *Trace
		for _, t := range in.Traces {
			if t.Exit != ExitReturn || len(t.RVals) != 1 {
				bad = t
				continue
			}
			v := t.RVals[0]
			if !(v.K == VPos || (v.K == VInt && v.I != 0)) {
				bad = t
			}
		}
		r.Check(fmt.Sprintf("%s@next=%s", fi.Name, st), bad == nil && len(in.Traces) > 0, fi.Decl.Pos(), len(in.Traces), "a path can hand out packet id 0 (invalid in MQTT; acknowledgements could never be matched)", c.witness(bad)...)
	}
	ri := c.Rule("C18/INC", "TRACE", "NextID: the returned value is read from the counter and the counter is incremented exactly once after that read (and once before it only when it was 0); Reset stores the constant 1", 3)
	h := &Interp{P: c.P, Info: fi.Pkg.TypesInfo}
	for _, st := range []Val{vInt(0), {K: VPos}} {
		in := c.P.TraceFunc(fi, TraceOpts{Init: map[types.Object]Val{next: st}})
		var bad *Trace
		why := ""
		for _, t := range in.Traces {
			if t.Exit != ExitReturn || len(t.Results) != 1 {
				continue
			}
			ro := h.objOf(t.Results[0])
			read := -1
			for i, e := range t.Ev {
				if e.Kind == EvAssign && e.LObj == ro && ro != nil && evRHSObj(h, e) == next {
					read = i
				}
			}
			if read < 0 {
				bad, why = t, "the returned id is not read from the counter"
				continue
			}
			before, after := 0, 0
			for i, e := range t.Ev {
				if e.Kind == EvAssign && e.LObj == next {
					if _, isInc := e.Node.(*ast.IncDecStmt); !isInc {
						bad, why = t, "the counter is written by something other than ++"
					}
					if i < read {
						before++
					} else {
						after++
					}
				}
			}
			wantBefore := 0
			if st.K == VInt {
				wantBefore = 1
			}
			if after != 1 || before != wantBefore {
				bad, why = t, fmt.Sprintf("%d increments before and %d after the read (expected %d and 1): ids repeat or are skipped", before, after, wantBefore)
			}
		}
		ri.Check(fmt.Sprintf("%s@next=%s:one increment after read", fi.Name, st), bad == nil && len(in.Traces) > 0, fi.Decl.Pos(), len(in.Traces), why, c.witness(bad)...)
	}
	if rs := c.mustFunc(ri, "session.(*IDCounter).Reset"); rs != nil {
		in := c.traces(rs)
		ok := len(in.Traces) > 0
		for _, t := range in.Traces {
			w := t.all(storeTo(next))
			if len(w) != 1 || t.Ev[w[0]].RVal.K != VInt || t.Ev[w[0]].RVal.I != 1 {
				ok = false
			}
		}
		ri.Check(rs.Name+":next=1", ok, rs.Decl.Pos(), len(in.Traces), "a reset restarts at 1")
	}
}

func c18Locks(c *Ctx) {
	r := c.Rule("C18/LOCK", "LOCK", "IDCounter.next and PacketStore.packets are accessed only under their mutex (exclusive for writes)", 7)
	g := map[*types.Var]guardSpec{}
	if f, m := c.P.Field("session", "IDCounter", "next"), c.P.Field("session", "IDCounter", "mutex"); f != nil && m != nil {
		g[f] = guardSpec{mutex: m, anyW: true}
	}
	if f, m := c.P.Field("session", "PacketStore", "packets"), c.P.Field("session", "PacketStore", "mutex"); f != nil && m != nil {
		g[f] = guardSpec{mutex: m}
	}
	if len(g) != 2 {
		r.Undecided("session guards", 0, "fields not found")
		return
	}
	res := c.lockAnalysis("session", g, nil, 0)
	c.judgeLocks(r, res, g, nil)
	// atomic: one critical section per exported method of the two types
	ra := c.Rule("C18/ATOMIC", "TRACE", "every exported method of IDCounter and PacketStore is one critical section: acquire first, release by defer only", 7)
	for _, tn := range []string{"IDCounter", "PacketStore"} {
		n := c.P.Named("session", tn)
		mu := c.P.Field("session", tn, "mutex")
		if n == nil || mu == nil {
			ra.Undecided("session."+tn, 0, "not found")
			continue
		}
		for i := 0; i < n.NumMethods(); i++ {
			m := n.Method(i)
			fi := c.P.ByObj[m]
			if !m.Exported() || fi == nil || fi.Decl.Body == nil {
				continue
			}
			in := c.traces(fi)
			ok := len(in.Traces) > 0
			why := ""
			var w *Trace
			for _, t := range in.Traces {
				acq, rel, first, other := 0, 0, false, false
				for _, e := range t.Ev {
					if mo, op := c.mutexOp(in, e); mo == mu && mo != nil {
						if e.Kind != EvCall {
							continue
						}
						if op == "Lock" || op == "RLock" {
							acq++
							if !other && acq == 1 {
								first = true
							}
						} else {
							rel++
							if !e.Deferred {
								ok, why, w = false, "explicit unlock splits the critical section", t
							}
						}
						continue
					}
					if e.Kind == EvCall || e.Kind == EvAssign {
						other = true
					}
				}
				if acq != 1 || rel != 1 || !first {
					ok, why, w = false, fmt.Sprintf("acquires=%d releases=%d acquire-first=%v: the operation is not atomic (two callers can interleave inside it)", acq, rel, first), t
				}
			}
			ra.Check(fi.Name+":single critical section", ok, fi.Decl.Pos(), len(in.Traces), why, c.witness(w)...)
		}
	}
}

func c18GetID(c *Ctx) {
	r := c.Rule("C18/GETID", "TABLE", "GetID(pkt) answers (pkt.ID, true) exactly for the packet types that have an ID field, and (0,false) for the others; case tags equal the asserted type's Type()", 14)
	fi := c.mustFunc(r, "packet.GetID")
	if fi == nil {
		return
	}
	pts := c.packetTypes()
	for _, pt := range pts {
		var kv int64
		fmt.Sscan(pt.k, &kv)
		hasID := c.P.Field("packet", pt.name, "ID") != nil
		oracle := func(in *Interp, st *state, e ast.Expr) (Val, bool) {
			if call, ok := ast.Unparen(e).(*ast.CallExpr); ok {
				if sel, ok := ast.Unparen(call.Fun).(*ast.SelectorExpr); ok && sel.Sel.Name == "Type" && len(call.Args) == 0 {
					return vInt(kv), true
				}
			}
			return unknown, false
		}
		in := c.P.TraceFunc(fi, TraceOpts{Oracle: oracle})
		ok := len(in.Traces) == 1
		detail := ""
		for _, t := range in.Traces {
			if len(t.RVals) != 2 || t.RVals[1].K != VBool || t.RVals[1].B != hasID {
				ok = false
				detail = fmt.Sprintf("answers ok=%v for a type whose ID field presence is %v", t.RVals, hasID)
				continue
			}
			if hasID {
				// result 0 is X.(*T).ID with T == this type
				sel, isSel := ast.Unparen(t.Results[0]).(*ast.SelectorExpr)
				if !isSel {
					ok = false
					continue
				}
				ta, isTA := ast.Unparen(sel.X).(*ast.TypeAssertExpr)
				if !isTA || !typeIs(fi.Pkg.TypesInfo.TypeOf(ta.Type), "packet", pt.name, true) || sel.Sel.Name != "ID" {
					ok = false
					detail = "the id is read from a different packet type"
				}
			}
		}
		r.Check(fmt.Sprintf("%s@%s", fi.Name, pt.name), ok, fi.Decl.Pos(), len(in.Traces), detail)
	}
}

func c18Store(c *Ctx) {
	r := c.Rule("C18/STORE", "TRACE+ORIGIN", "PacketStore: Save writes packets[GetID(pkt)] = pkt iff GetID says ok; Lookup reads packets[id]; Delete deletes packets[id]; Reset installs a fresh map; All returns a fresh slice holding the map's values", 5)
	packets := c.P.Field("session", "PacketStore", "packets")
	getID, _ := c.P.Global("packet", "GetID").(*types.Func)
	if packets == nil || getID == nil {
		r.Undecided("session.PacketStore", 0, "not found")
		return
	}
	if fi := c.mustFunc(r, "session.(*PacketStore).Save"); fi != nil {
		in := c.traces(fi)
		h := &Interp{P: c.P, Info: fi.Pkg.TypesInfo}
		sig := fi.Obj.Type().(*types.Signature)
		ok, nT, nF := true, 0, 0
		for _, t := range in.Traces {
			g := t.first(callTo(getID))
			if g < 0 {
				ok = false
				continue
			}
			okv := 0
			for _, e := range t.Ev {
				if e.Kind == EvOutcome && e.DefCall == t.Ev[g] && e.Nilness == 0 {
					if e.Outcome {
						okv = 1
					} else {
						okv = -1
					}
				}
			}
			var wr *Event
			for _, e := range t.Ev {
				if e.Kind == EvAssign {
					if ix, isIx := ast.Unparen(e.LHS).(*ast.IndexExpr); isIx && h.objOf(ix.X) == packets {
						wr = e
						// key is GetID's first result, value is the packet
						if d, isD := t.Env.defs[h.objOf(ix.Index)]; !isD || d != t.Ev[g] || evRHSObj(h, e) != sig.Params().At(0) {
							ok = false
						}
					}
				}
			}
			switch okv {
			case 1:
				nT++
				if wr == nil {
					ok = false
				}
			case -1:
				nF++
				if wr != nil {
					ok = false
				}
			default:
				ok = false
			}
		}
		r.Check(fi.Name+":packets[GetID(pkt)]=pkt iff ok", ok && nT > 0 && nF > 0, fi.Decl.Pos(), len(in.Traces), "packets without an id are ignored, others are stored under their own id (last save wins)")
	}
	for _, m := range []struct{ name, want string }{{"Lookup", "index"}, {"Delete", "delete"}, {"Reset", "fresh"}} {
		fi := c.mustFunc(r, "session.(*PacketStore)."+m.name)
		if fi == nil {
			continue
		}
		in := c.traces(fi)
		h := &Interp{P: c.P, Info: fi.Pkg.TypesInfo}
		sig := fi.Obj.Type().(*types.Signature)
		ok := len(in.Traces) > 0
		for _, t := range in.Traces {
			switch m.want {
			case "index":
				ix, isIx := ast.Unparen(t.Results[0]).(*ast.IndexExpr)
				if !isIx || h.objOf(ix.X) != packets || h.objOf(ix.Index) != sig.Params().At(0) {
					ok = false
				}
			case "delete":
				d := t.first(func(e *Event) bool {
					b, isB := e.Callee.(*types.Builtin)
					return e.Kind == EvCall && isB && b.Name() == "delete" && h.objOf(e.Call.Args[0]) == packets && h.objOf(e.Call.Args[1]) == sig.Params().At(0)
				})
				if d < 0 {
					// nothing to delete: the path has looked the id up in the map and found it absent
					absent := false
					for _, e := range t.Ev {
						if e.Kind != EvOutcome || e.DefCall == nil || !e.DefCall.CommaOk || e.DefCall.RHS == nil || e.Nilness != 0 || e.Outcome {
							continue
						}
						if ix, isIx := ast.Unparen(e.DefCall.RHS).(*ast.IndexExpr); isIx && h.objOf(ix.X) == packets && h.objOf(ix.Index) == sig.Params().At(0) {
							absent = true
						}
					}
					if !absent {
						ok = false
					}
				}
			case "fresh":
				w := t.first(storeTo(packets))
				if w < 0 {
					ok = false
				} else if call, isC := ast.Unparen(t.Ev[w].RHS).(*ast.CallExpr); !isC || c.P.exprStr(call.Fun) != "make" {
					ok = false
				}
			}
		}
		r.Check(fi.Name, ok, fi.Decl.Pos(), len(in.Traces), "the store behaves as a map from packet id to packet")
	}
	if fi := c.mustFunc(r, "session.(*PacketStore).All"); fi != nil {
		fn := c.P.SSAFunc(fi)
		ot := c.P.newOriginTracer()
		os := ot.returnOrigins(fn, 0)
		alias := false
		for _, o := range os {
			oo := o
			for oo.Kind == OSubslice {
				oo = *oo.Of
			}
			if oo.Kind == OField || oo.Kind == OGlobal || oo.Kind == OUnknown {
				alias = true
			}
		}
		// ranges over the map on every path
		in := c.traces(fi)
		h := &Interp{P: c.P, Info: fi.Pkg.TypesInfo}
		// every path that returns a listing walks the map in this call (a path that answers from a listing kept
		// from an earlier call goes stale when a stored id is overwritten)
		ranges := len(in.Traces) > 0
		for _, t := range in.Traces {
			if t.Exit != ExitReturn {
				continue
			}
			walked := false
			for _, e := range t.Ev {
				if e.Kind == EvLoopBegin || e.Kind == EvLoopEnd || e.Kind == EvLoopZero {
					if rs, ok := e.LoopStmt.(*ast.RangeStmt); ok && h.objOf(rs.X) == packets {
						walked = true
					}
				}
			}
			if !walked {
				// or it walks a key list kept by the store and reads every listed packet from the map now
				viaKeys, reads := false, true
				for _, e := range t.Ev {
					if e.Kind == EvLoopBegin {
						if rs, ok := e.LoopStmt.(*ast.RangeStmt); ok {
							if fv, _ := h.objOf(rs.X).(*types.Var); fv != nil && fv.IsField() && fv != packets {
								viaKeys = true
							}
						}
					}
					if e.Kind == EvCall {
						if b, isB := e.Callee.(*types.Builtin); isB && b.Name() == "append" {
							for _, a := range e.Call.Args[1:] {
								if ix, isIx := ast.Unparen(a).(*ast.IndexExpr); !isIx || h.objOf(ix.X) != packets {
									reads = false
								}
							}
						}
					}
				}
				zero := false
				for _, e := range t.Ev {
					if e.Kind == EvLoopZero {
						zero = true
					}
				}
				if !(reads && (viaKeys || zero)) {
					ranges = false
				}
			}
		}
		r.Check(fi.Name+":fresh listing of the map", !alias && ranges, fi.Decl.Pos(), ot.work, "the listing must be built from the map on every call (a cached or shared slice goes stale when an id is overwritten); origins: "+strings.Join(originStrings(os), ", "))
	}
}

func c18Dir(c *Ctx) {
	r := c.Rule("C18/DIR", "TABLE", "storeForDirection: Incoming→s.Incoming, Outgoing→s.Outgoing; NewMemorySession allocates two distinct stores; each MemorySession method routes through storeForDirection(its own dir); MemorySession.NextID is exactly one Counter.NextID()", 8)
	fi := c.mustFunc(r, "session.(*MemorySession).storeForDirection")
	v := c.vocab()
	if fi != nil {
		p := fi.Obj.Type().(*types.Signature).Params().At(0)
		h := &Interp{P: c.P, Info: fi.Pkg.TypesInfo}
		for _, d := range []struct {
			k    int64
			name string
		}{{v.incoming, "Incoming"}, {v.outgoing, "Outgoing"}} {
			in := c.P.TraceFunc(fi, TraceOpts{Force: map[types.Object]Val{p: vInt(d.k)}})
			ok := len(in.Traces) == 1
			for _, t := range in.Traces {
				if t.Exit != ExitReturn || h.objOf(t.Results[0]) != c.P.Field("session", "MemorySession", d.name) {
					ok = false
				}
			}
			r.Check(fi.Name+"@"+d.name, ok, fi.Decl.Pos(), len(in.Traces), "direction routed to the wrong store: the two directions influence each other")
		}
	}
	if ns := c.mustFunc(r, "session.NewMemorySession"); ns != nil {
		calls := map[string]ast.Expr{}
		ast.Inspect(ns.Decl.Body, func(m ast.Node) bool {
			if kv, ok := m.(*ast.KeyValueExpr); ok {
				if id, ok := kv.Key.(*ast.Ident); ok && (id.Name == "Incoming" || id.Name == "Outgoing") {
					calls[id.Name] = kv.Value
				}
			}
			return true
		})
		a, aok := calls["Incoming"].(*ast.CallExpr)
		b, bok := calls["Outgoing"].(*ast.CallExpr)
		r.Check(ns.Name+":two distinct stores", aok && bok && a != b, ns.Decl.Pos(), 1, "Incoming and Outgoing must be separate NewPacketStore() allocations")
	}
	// the session's NextID is the counter's: one draw per call, handed on unchanged (a wrapper that draws again
	// under some condition makes the sequence depend on the stores and shortens the cycle below 65535)
	if nf := c.mustFunc(r, "session.(*MemorySession).NextID"); nf != nil {
		draw := c.P.Method("session", "IDCounter", "NextID")
		in := c.traces(nf)
		h := &Interp{P: c.P, Info: nf.Pkg.TypesInfo}
		ok, why := len(in.Traces) > 0 && draw != nil, "NextID must return s.Counter.NextID()"
		var w *Trace
		for _, t := range in.Traces {
			n, last := 0, -1
			for i, e := range t.Ev {
				if callTo(draw)(e) {
					n++
					last = i
				}
			}
			good := t.Exit == ExitReturn && n == 1 && len(t.Results) == 1
			if good {
				res := ast.Unparen(t.Results[0])
				if res != ast.Expr(t.Ev[last].Call) {
					// a local that holds the drawn value
					good = false
					for _, a := range t.Ev[last+1:] {
						if a.Kind == EvAssign && a.LObj != nil && a.LObj == h.objOf(res) {
							good = ast.Unparen(a.RHS) == ast.Expr(t.Ev[last].Call)
						}
					}
				}
			}
			if !good && ok {
				ok, w = false, t
				why = fmt.Sprintf("a path draws %d ids from the counter or does not return the drawn id unchanged", n)
			}
		}
		r.Check(nf.Name+"→Counter.NextID() once", ok, nf.Decl.Pos(), len(in.Traces), why, c.witness(w)...)
	}
	for _, m := range []struct{ sess, store string }{{"SavePacket", "Save"}, {"LookupPacket", "Lookup"}, {"DeletePacket", "Delete"}, {"AllPackets", "All"}} {
		mf := c.mustFunc(r, "session.(*MemorySession)."+m.sess)
		if mf == nil || fi == nil {
			continue
		}
		in := c.traces(mf)
		h := &Interp{P: c.P, Info: mf.Pkg.TypesInfo}
		dirP := mf.Obj.Type().(*types.Signature).Params().At(0)
		ok := len(in.Traces) > 0
		for _, t := range in.Traces {
			s := t.first(callTo(fi.Obj))
			if s < 0 || h.objOf(t.Ev[s].Call.Args[0]) != dirP {
				ok = false
				continue
			}
			st := t.first(callTo(c.P.Method("session", "PacketStore", m.store)))
			if st < 0 || st < s {
				ok = false
			}
		}
		r.Check(mf.Name+"→storeForDirection(dir)."+m.store, ok, mf.Decl.Pos(), len(in.Traces), "the session method must act on the store of the direction it was given")
	}
}

// ------------------------------------------------------------------ C19

const c19Explanation = "Static analysis of transport/base_conn.go and websocket_conn.go: (LOCK) every use of the stream encoder (Write, Flush) holds sendMutex, every use of the stream decoder, the read timeout and the read deadline holds receiveMutex, on every path — concurrent senders are serialised around encode+write, and Close's flush+close cannot interleave with a send; " +
	"(ERRCLOSE) a failed stream Write/Read or deadline reset closes the carrier before the error is returned, with a nil packet; (FLUSHCLOSE) Close flushes the buffered writer and then closes the carrier on every path, also when the flush failed; (REARM) every successfully received packet re-arms the read deadline, positive timeout → now+timeout, otherwise no deadline; " +
	"(WSCLOSE) the WebSocket carrier's Close only closes the connection — it must not write, because Receive's error path closes the carrier without holding sendMutex. That nothing blocks after close/error depends on the carriers and on mercury and is not decided."

func propC19(c *Ctx) string {
	c19Lock(c)
	c19ErrClose(c)
	c19WSClose(c)
	// a packet stays whole on the wire only if the encoder ships exactly the slice it encoded and keeps the
	// pooled buffer until the write returned
	c03Ship(c)
	c02Pool(c, "C19/POOL")
	c03WSLimit(c)
	c.NotDecide("that no call blocks or panics after close / error / expired timeout (carrier, mercury.Writer and gorilla behaviour)", "that concurrent packets arrive whole (follows from LOCK only given a correct packet.Stream: C03/SHIP)", "flush-delay timing")
	c.Assume("lock keys are instance-insensitive (one BaseConn)", "net.Conn / websocket.Conn Close unblock pending reads")
	return c19Explanation
}

func c19Lock(c *Ctx) {
	r := c.Rule("C19/LOCK", "LOCK", "BaseConn: Encoder.Write/Flush under sendMutex; Decoder.Read, readTimeout and SetReadDeadline under receiveMutex; carrier.Close inside Close() under sendMutex", 6)
	sm := c.P.Field("transport", "BaseConn", "sendMutex")
	rm := c.P.Field("transport", "BaseConn", "receiveMutex")
	rt := c.P.Field("transport", "BaseConn", "readTimeout")
	if sm == nil || rm == nil || rt == nil {
		r.Undecided("transport.BaseConn", 0, "mutex fields not found")
		return
	}
	g := map[*types.Var]guardSpec{rt: {mutex: rm, anyW: true}}
	need := func(e *Event) *types.Var {
		if e.Kind != EvCall {
			return nil
		}
		f, ok := e.Callee.(*types.Func)
		if !ok {
			return nil
		}
		switch FuncName(f) {
		case "packet.(*Encoder).Write", "packet.(*Encoder).Flush":
			return sm
		case "packet.(*Decoder).Read":
			return rm
		}
		if f.Name() == "SetReadDeadline" {
			return rm
		}
		return nil
	}
	res := c.lockAnalysisEv("transport", g, nil, func(fi *FuncInfo, e *Event) bool {
		return strings.Contains(fi.Name, "BaseConn") && need(e) != nil
	})
	c.judgeLocks(r, res, g, nil)
	type key struct {
		fn   string
		node ast.Node
	}
	okAt := map[key]bool{}
	wit := map[key]lockAccess{}
	var order []key
	for _, a := range res.watched {
		k := key{a.fn.Name, a.ev.Node}
		if _, seen := okAt[k]; !seen {
			okAt[k] = true
			order = append(order, k)
			wit[k] = a
		}
		if a.held[need(a.ev)] != lockW {
			okAt[k] = false
			wit[k] = a
		}
	}
	for _, k := range order {
		a := wit[k]
		f := a.ev.Callee.(*types.Func)
		r.Check(fmt.Sprintf("%s:%s under %s", k.fn, f.Name(), need(a.ev).Name()), okAt[k], a.ev.Pos, 1, fmt.Sprintf("stream/deadline used without its mutex (held: %s): packets of concurrent callers can interleave on the wire", a.held), c.witness(a.trace)...)
	}
}

func c19ErrClose(c *Ctx) {
	r := c.Rule("C19/ERRCLOSE", "TRACE", "Send: Write→err ⇒ carrier.Close ≺ return err; Receive: Read→err or resetTimeout→err ⇒ carrier.Close ≺ return (nil, err); Close: Flush ≺ carrier.Close on every path; every successful Receive re-arms the deadline", 4)
	carrier := c.P.Field("transport", "BaseConn", "carrier")
	isCarrierClose := func(fi *FuncInfo) Pred {
		h := &Interp{P: c.P, Info: fi.Pkg.TypesInfo}
		return func(e *Event) bool {
			if e.Kind != EvCall || e.Callee == nil || e.Callee.Name() != "Close" {
				return false
			}
			sel, ok := ast.Unparen(e.Call.Fun).(*ast.SelectorExpr)
			return ok && h.objOf(sel.X) == carrier
		}
	}
	named := func(n string) Pred {
		return func(e *Event) bool {
			f, ok := e.Callee.(*types.Func)
			return e.Kind == EvCall && ok && FuncName(f) == n
		}
	}
	if fi := c.mustFunc(r, "transport.(*BaseConn).Send"); fi != nil {
		in := c.traces(fi)
		var bad *Trace
		nE, nO := 0, 0
		for _, t := range in.Traces {
			w := t.first(named("packet.(*Encoder).Write"))
			if w < 0 {
				bad = t
				continue
			}
			switch t.errOutcome(t.Ev[w]) {
			case 1:
				nE++
				if t.firstFrom(w, isCarrierClose(fi)) < 0 || t.retErr() == -1 {
					bad = t
				}
			case -1:
				nO++
				if t.retErr() != -1 {
					bad = t
				}
			default:
				bad = t
			}
		}
		r.Check(fi.Name+":Write→err⇒carrier.Close", bad == nil && nE > 0 && nO > 0, fi.Decl.Pos(), len(in.Traces), "after a failed write the connection must be torn down (a half-written packet corrupts the stream) and the error reported", c.witness(bad)...)
	}
	reset := c.P.Method("transport", "BaseConn", "resetTimeout")
	if fi := c.mustFunc(r, "transport.(*BaseConn).Receive"); fi != nil && reset != nil {
		in := c.traces(fi)
		var bad *Trace
		why := ""
		nOK := 0
		for _, t := range in.Traces {
			rd := t.first(named("packet.(*Decoder).Read"))
			if rd < 0 {
				bad, why = t, "no stream read"
				continue
			}
			if t.errOutcome(t.Ev[rd]) == 1 {
				if t.firstFrom(rd, isCarrierClose(fi)) < 0 || len(t.RVals) != 2 || t.RVals[0].K != VNil || t.RVals[1].K == VNil {
					bad, why = t, "failed read must close the carrier and return (nil, err)"
				}
				continue
			}
			rs := t.firstFrom(rd, callTo(reset))
			if rs < 0 {
				bad, why = t, "a received packet does not re-arm the read deadline: the keep-alive timeout is measured from an older packet"
				continue
			}
			if t.errOutcome(t.Ev[rs]) == 1 {
				if t.firstFrom(rs, isCarrierClose(fi)) < 0 || len(t.RVals) != 2 || t.RVals[0].K != VNil {
					bad, why = t, "failed deadline reset must close the carrier and return a nil packet"
				}
				continue
			}
			nOK++
		}
		r.Check(fi.Name+":errors close the carrier; success re-arms", bad == nil && nOK > 0, fi.Decl.Pos(), len(in.Traces), why, c.witness(bad)...)
	}
	if fi := c.mustFunc(r, "transport.(*BaseConn).Close"); fi != nil {
		in := c.traces(fi)
		var bad *Trace
		for _, t := range in.Traces {
			f := t.first(named("packet.(*Encoder).Flush"))
			cl := t.first(isCarrierClose(fi))
			if f < 0 || cl < 0 || f > cl {
				bad = t
			}
		}
		r.Check(fi.Name+":Flush≺carrier.Close on every path", bad == nil && len(in.Traces) > 0, fi.Decl.Pos(), len(in.Traces),
			"Close must deliver what earlier buffered sends accepted and must always close the carrier — also when the flush fails (else a pending Receive stays blocked and the carrier leaks)", c.witness(bad)...)
	}
	if fi := c.P.ByObj[reset]; fi != nil {
		c.Touch(fi.Name)
		rt := c.P.Field("transport", "BaseConn", "readTimeout")
		h := &Interp{P: c.P, Info: fi.Pkg.TypesInfo}
		okPos, okZero := false, false
		for _, pos := range []bool{true, false} {
			v := vInt(0)
			if pos {
				v = Val{K: VPos}
			}
			in := c.P.TraceFunc(fi, TraceOpts{Init: map[types.Object]Val{rt: v}})
			for _, t := range in.Traces {
				d := t.first(func(e *Event) bool {
					return e.Kind == EvCall && e.Callee != nil && e.Callee.Name() == "SetReadDeadline"
				})
				if d < 0 || len(in.Traces) != 1 {
					continue
				}
				arg := ast.Unparen(t.Ev[d].Call.Args[0])
				// a named local: what it was last assigned on this path (never assigned: the zero value)
				zeroLocal := false
				if id, isId := arg.(*ast.Ident); isId {
					if lo, isVar := h.rawObjOf(id).(*types.Var); isVar && !lo.IsField() && lo.Parent() != lo.Pkg().Scope() {
						var last ast.Expr
						for _, p := range t.Ev[:d] {
							if p.Kind == EvAssign && p.LObj == types.Object(lo) && !p.Conditional {
								last = p.RHS
							}
						}
						if last != nil {
							arg = ast.Unparen(last)
						} else {
							zeroLocal = true
						}
					}
				}
				if zeroLocal && !pos {
					okZero = true
					continue
				}
				if pos {
					// time.Now().Add(c.readTimeout)
					if call, ok := arg.(*ast.CallExpr); ok && len(call.Args) == 1 && h.objOf(call.Args[0]) == rt {
						if sel, ok := ast.Unparen(call.Fun).(*ast.SelectorExpr); ok && sel.Sel.Name == "Add" {
							okPos = true
						}
					}
				} else if cl, ok := arg.(*ast.CompositeLit); ok && len(cl.Elts) == 0 {
					okZero = true
				}
			}
		}
		r.Check(fi.Name+":deadline=now+timeout | none", okPos && okZero, fi.Decl.Pos(), 2, "a positive read timeout arms now+timeout, zero disables the deadline")
	}
}

func c19WSClose(c *Ctx) {
	r := c.Rule("C19/WSCLOSE", "TRACE", "wsStream.Close only closes the WebSocket connection and writes nothing (Receive's error path calls carrier.Close without sendMutex: a write there races with an in-flight send); wsStream.Write sends one binary message per call and closes its writer", 2)
	if fi := c.mustFunc(r, "transport.(*wsStream).Close"); fi != nil {
		in := c.traces(fi)
		ok := len(in.Traces) > 0
		var w *Trace
		for _, t := range in.Traces {
			closes := 0
			for _, e := range t.Ev {
				if e.Kind != EvCall || e.Callee == nil {
					continue
				}
				switch n := e.Callee.Name(); {
				case n == "Close":
					closes++
				case strings.HasPrefix(n, "Write") || n == "NextWriter" || strings.HasPrefix(n, "Set"):
					ok, w = false, t
				}
			}
			if closes != 1 {
				ok, w = false, t
			}
		}
		r.Check(fi.Name+":close only", ok, fi.Decl.Pos(), len(in.Traces), "the carrier's Close writes to the connection: concurrent with a send it panics in gorilla/websocket or corrupts a frame", c.witness(w)...)
	}
	if fi := c.mustFunc(r, "transport.(*wsStream).Write"); fi != nil {
		in := c.traces(fi)
		ok, n := true, 0
		for _, t := range in.Traces {
			if t.Exit != ExitReturn || len(t.RVals) != 2 || t.RVals[1].K != VNil {
				continue
			}
			n++
			nw := t.first(func(e *Event) bool { return e.Kind == EvCall && e.Callee != nil && e.Callee.Name() == "NextWriter" })
			wr := t.first(func(e *Event) bool { return e.Kind == EvCall && e.Callee != nil && e.Callee.Name() == "Write" })
			cl := t.first(func(e *Event) bool { return e.Kind == EvCall && e.Callee != nil && e.Callee.Name() == "Close" })
			if !(nw >= 0 && wr > nw && cl > wr) || t.errOutcome(t.Ev[cl]) != -1 {
				ok = false
			}
		}
		r.Check(fi.Name+":NextWriter≺Write≺Close", ok && n > 0, fi.Decl.Pos(), len(in.Traces), "every chunk handed to the carrier becomes one complete binary message")
	}
}
