package main

import (
	"bufio"
	"bytes"
	"encoding/json"
	"fmt"
	"io"
	"os"
	"os/exec"
	"path/filepath"
	"sort"
	"strings"
	"sync"
	"time"
)

// The thorough tier adds to the quick rules (which run first, on the default build configuration,
// with the extra caller packages loaded):
//   1. the same rules on three more build configurations, each in a child process (a build-tagged or
//      GOOS/GOARCH-specific file that changes an anchor is seen there);
//   2. the seeded-change corpus (/verif/seeded/*/patch.diff): every change recorded for this property is
//      applied to a scratch copy of /repo's CURRENT working tree and the property's rules are run on it;
//      the evidence records which changes are detected. The corpus never masks or replaces the verdict
//      on the tree itself: it validates the checker, not the code.

var extraConfigs = [][2]string{{"linux", "386"}, {"windows", "amd64"}, {"darwin", "arm64"}}

type seedMeta struct {
	Property string   `json:"property"`
	Also     []string `json:"also_checked_by"`
	Expect   string   `json:"expect"` // detected | missed
	Rules    []string `json:"detected_by_rules"`
	Needs    string   `json:"needs"`
	Title    string   `json:"title"`
}

func childRun(args []string) (*runSummary, string, error) {
	cmd := exec.Command(os.Args[0], args...)
	var buf bytes.Buffer
	cmd.Stdout = &buf
	cmd.Stderr = &buf
	cmd.Env = os.Environ()
	err := cmd.Run()
	var sum *runSummary
	sc := bufio.NewScanner(bytes.NewReader(buf.Bytes()))
	sc.Buffer(make([]byte, 1<<20), 1<<26)
	for sc.Scan() {
		l := sc.Text()
		if strings.HasPrefix(l, "SUMMARY ") {
			var s runSummary
			if json.Unmarshal([]byte(l[len("SUMMARY "):]), &s) == nil {
				sum = &s
			}
		}
	}
	if sum == nil {
		return nil, buf.String(), fmt.Errorf("child produced no summary: %v", err)
	}
	return sum, buf.String(), nil
}

func copyTree(src, dst string) error {
	return filepath.Walk(src, func(path string, info os.FileInfo, err error) error {
		if err != nil {
			return err
		}
		rel, _ := filepath.Rel(src, path)
		if rel == ".git" || strings.HasPrefix(rel, ".git"+string(filepath.Separator)) {
			if info.IsDir() {
				return filepath.SkipDir
			}
			return nil
		}
		target := filepath.Join(dst, rel)
		if info.IsDir() {
			return os.MkdirAll(target, 0o755)
		}
		if !info.Mode().IsRegular() {
			return nil
		}
		in, err := os.Open(path)
		if err != nil {
			return err
		}
		defer in.Close()
		out, err := os.OpenFile(target, os.O_CREATE|os.O_WRONLY|os.O_TRUNC, 0o644)
		if err != nil {
			return err
		}
		defer out.Close()
		_, err = io.Copy(out, in)
		return err
	})
}

func thoroughExtras(c *Ctx, repo, verif string, selftest bool) map[string]interface{} {
	extra := map[string]interface{}{}
	// ---- build configurations
	type cfgRes struct {
		Config      string  `json:"config"`
		Obligations int     `json:"obligations"`
		Discharged  int     `json:"discharged"`
		Known       int     `json:"known_findings"`
		Violations  int     `json:"violations"`
		WallS       float64 `json:"wall_s"`
		Error       string  `json:"error,omitempty"`
	}
	cfgs := make([]cfgRes, len(extraConfigs))
	sums := make([]*runSummary, len(extraConfigs))
	var wg sync.WaitGroup
	sem := make(chan struct{}, 3)
	for i, gc := range extraConfigs {
		wg.Add(1)
		go func(i int, goos, goarch string) {
			defer wg.Done()
			sem <- struct{}{}
			defer func() { <-sem }()
			t0 := time.Now()
			tmp, err := os.MkdirTemp("", "gomqttcheck-cfg-")
			if err != nil {
				cfgs[i] = cfgRes{Config: goos + "/" + goarch, Error: err.Error()}
				return
			}
			defer os.RemoveAll(tmp)
			sum, outp, err := childRun([]string{"-repo", repo, "-verif", verif, "-out", tmp, "-prop", c.Prop, "-tier", "quick", "-goos", goos, "-goarch", goarch, "-summary"})
			r := cfgRes{Config: goos + "/" + goarch, WallS: time.Since(t0).Seconds()}
			if err != nil {
				r.Error = err.Error() + ": " + tail(outp, 400)
			} else {
				r.Obligations, r.Discharged, r.Known, r.Violations = sum.Obligations, sum.Discharged, sum.Known, len(sum.Violations)
				sums[i] = sum
			}
			cfgs[i] = r
		}(i, gc[0], gc[1])
	}
	wg.Wait()
	rc := c.Rule(c.Prop+"/CONFIGS", "LOAD", "the property's rules hold on every analysed build configuration (linux/386, windows/amd64, darwin/arm64 in addition to the host's)", len(extraConfigs))
	total := len(c.Obls)
	for i, r := range cfgs {
		switch {
		case r.Error != "":
			rc.Undecided("config "+r.Config, 0, "child analysis failed: "+r.Error)
		case r.Violations > 0:
			var ds []string
			for _, v := range sums[i].Violations {
				ds = append(ds, v.Rule+" "+v.Construct+" @"+v.Pos+": "+v.Detail)
			}
			rc.Fail("config "+r.Config, 0, r.Obligations, fmt.Sprintf("%d violation(s) under this build configuration: %s", r.Violations, strings.Join(ds, " | ")))
		default:
			rc.Pass("config "+r.Config, 0, r.Obligations, fmt.Sprintf("%d obligations discharged (%d known findings)", r.Discharged, r.Known))
		}
		total += r.Obligations
	}
	extra["configs"] = cfgs
	extra["evaluations_all_configs"] = total

	// ---- seeded-change corpus
	if !selftest {
		return extra
	}
	dirs, _ := filepath.Glob(filepath.Join(verif, "seeded", "*", "meta.json"))
	sort.Strings(dirs)
	type stRes struct {
		Name   string   `json:"change"`
		Expect string   `json:"expected"`
		Result string   `json:"result"` // detected | silent | inapplicable | error
		Rules  []string `json:"reported_rules,omitempty"`
		WallS  float64  `json:"wall_s"`
	}
	var todo []string
	metas := map[string]seedMeta{}
	for _, mf := range dirs {
		b, err := os.ReadFile(mf)
		if err != nil {
			continue
		}
		var m seedMeta
		if json.Unmarshal(b, &m) != nil {
			continue
		}
		use := m.Property == c.Prop
		for _, a := range m.Also {
			if a == c.Prop {
				use = true
			}
		}
		if use {
			d := filepath.Dir(mf)
			todo = append(todo, d)
			metas[d] = m
		}
	}
	results := make([]stRes, len(todo))
	sem2 := make(chan struct{}, 6)
	for i, d := range todo {
		wg.Add(1)
		go func(i int, d string) {
			defer wg.Done()
			sem2 <- struct{}{}
			defer func() { <-sem2 }()
			t0 := time.Now()
			m := metas[d]
			res := stRes{Name: filepath.Base(d), Expect: m.Expect}
			defer func() { res.WallS = time.Since(t0).Seconds(); results[i] = res }()
			tmp, err := os.MkdirTemp("", "gomqttcheck-seed-")
			if err != nil {
				res.Result = "error"
				return
			}
			defer os.RemoveAll(tmp)
			scratch := filepath.Join(tmp, "repo")
			if err := copyTree(repo, scratch); err != nil {
				res.Result = "error"
				return
			}
			ap := exec.Command("git", "apply", "--whitespace=nowarn", filepath.Join(d, "patch.diff"))
			ap.Dir = scratch
			if outp, err := ap.CombinedOutput(); err != nil {
				_ = outp
				res.Result = "inapplicable"
				return
			}
			sum, _, err := childRun([]string{"-repo", scratch, "-verif", verif, "-out", filepath.Join(tmp, "out"), "-prop", c.Prop, "-tier", "quick", "-summary"})
			if err != nil {
				res.Result = "error"
				return
			}
			if len(sum.Violations) > 0 {
				res.Result = "detected"
				seen := map[string]bool{}
				for _, v := range sum.Violations {
					if !seen[v.Rule] {
						seen[v.Rule] = true
						res.Rules = append(res.Rules, v.Rule)
					}
				}
				sort.Strings(res.Rules)
			} else {
				res.Result = "silent"
			}
		}(i, d)
	}
	wg.Wait()
	det, silent, inapp, errs, unexpected := 0, 0, 0, 0, 0
	for _, r := range results {
		switch r.Result {
		case "detected":
			det++
		case "silent":
			silent++
		case "inapplicable":
			inapp++
		default:
			errs++
		}
		if (r.Expect == "detected" && r.Result == "silent") || (r.Expect == "missed" && r.Result == "detected") {
			unexpected++
		}
	}
	// ---- benign corpus: behaviour-preserving refactorings (independently written, /verif/benign) must stay silent
	bdirs, _ := filepath.Glob(filepath.Join(verif, "benign", "*", "patch.diff"))
	sort.Strings(bdirs)
	type bnRes struct {
		Name   string   `json:"refactoring"`
		Result string   `json:"result"` // silent | alarm | inapplicable | error
		Rules  []string `json:"reported_rules,omitempty"`
	}
	bres := make([]bnRes, len(bdirs))
	for i, pf := range bdirs {
		wg.Add(1)
		go func(i int, pf string) {
			defer wg.Done()
			sem2 <- struct{}{}
			defer func() { <-sem2 }()
			res := bnRes{Name: filepath.Base(filepath.Dir(pf))}
			defer func() { bres[i] = res }()
			tmp, err := os.MkdirTemp("", "gomqttcheck-benign-")
			if err != nil {
				res.Result = "error"
				return
			}
			defer os.RemoveAll(tmp)
			scratch := filepath.Join(tmp, "repo")
			if err := copyTree(repo, scratch); err != nil {
				res.Result = "error"
				return
			}
			ap := exec.Command("git", "apply", "--whitespace=nowarn", pf)
			ap.Dir = scratch
			if _, err := ap.CombinedOutput(); err != nil {
				res.Result = "inapplicable"
				return
			}
			sum, _, err := childRun([]string{"-repo", scratch, "-verif", verif, "-out", filepath.Join(tmp, "out"), "-prop", c.Prop, "-tier", "quick", "-summary"})
			if err != nil {
				res.Result = "error"
				return
			}
			if len(sum.Violations) == 0 {
				res.Result = "silent"
				return
			}
			res.Result = "alarm"
			seen := map[string]bool{}
			for _, v := range sum.Violations {
				if !seen[v.Rule] {
					seen[v.Rule] = true
					res.Rules = append(res.Rules, v.Rule)
				}
			}
		}(i, pf)
	}
	wg.Wait()
	bSilent, bAlarm, bOther := 0, 0, 0
	for _, r := range bres {
		switch r.Result {
		case "silent":
			bSilent++
		case "alarm":
			bAlarm++
		default:
			bOther++
		}
	}
	extra["benign"] = map[string]interface{}{
		"what":                  "behaviour-preserving refactorings (independently written, /verif/benign) applied one at a time to a scratch copy of the current tree; this property's rules must not report anything",
		"refactorings":          len(bres),
		"silent":                bSilent,
		"false_alarms":          bAlarm,
		"inapplicable_or_error": bOther,
		"results":               bres,
	}
	extra["selftest"] = map[string]interface{}{
		"what":                              "seeded property-breaking changes (independently written, /verif/seeded) applied one at a time to a scratch copy of the current tree; 'detected' = this property's rules report a violation on the changed copy; changes marked expected=missed break a behavioural clause outside static reach (DESIGN.md section 11)",
		"changes":                           len(results),
		"detected":                          det,
		"silent":                            silent,
		"inapplicable":                      inapp,
		"errors":                            errs,
		"differs_from_recorded_expectation": unexpected,
		"results":                           results,
	}
	return extra
}

func tail(s string, n int) string {
	if len(s) <= n {
		return s
	}
	return s[len(s)-n:]
}
