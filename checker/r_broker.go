package main

import (
	"fmt"
	"go/ast"
	"go/token"
	"go/types"
	"sort"
	"strings"
)

func init() {
	register("C12", propC12)
	register("C13", propC13)
	register("C16", propC16)
	register("C20", propC20)
}

// ------------------------------------------------------------------ shared broker helpers

// stateStore: atomic.StoreUint32(&X.state, K) on the given state field -> K.
func (c *Ctx) stateStore(fi *FuncInfo, field *types.Var, e *Event) (int64, bool) {
	if e.Kind != EvCall {
		return 0, false
	}
	f, ok := e.Callee.(*types.Func)
	if !ok || f.Pkg() == nil || f.Pkg().Path() != "sync/atomic" || !strings.HasPrefix(f.Name(), "Store") || len(e.Call.Args) != 2 {
		return 0, false
	}
	u, ok := ast.Unparen(e.Call.Args[0]).(*ast.UnaryExpr)
	if !ok {
		return 0, false
	}
	if (&Interp{P: c.P, Info: fi.Pkg.TypesInfo}).objOf(u.X) != field {
		return 0, false
	}
	if e.ArgVals[1].K == VInt {
		return e.ArgVals[1].I, true
	}
	return -1, true
}

// stateOracle makes atomic.LoadUint32(&X.state) evaluate to k.
func (c *Ctx) stateOracle(field *types.Var, k int64) func(in *Interp, st *state, e ast.Expr) (Val, bool) {
	return func(in *Interp, st *state, e ast.Expr) (Val, bool) {
		call, ok := ast.Unparen(e).(*ast.CallExpr)
		if !ok || len(call.Args) != 1 {
			return unknown, false
		}
		f, ok := in.callee(st, call).(*types.Func)
		if !ok || f.Pkg() == nil || f.Pkg().Path() != "sync/atomic" || !strings.HasPrefix(f.Name(), "Load") {
			return unknown, false
		}
		u, ok := ast.Unparen(call.Args[0]).(*ast.UnaryExpr)
		if !ok || in.objOf(u.X) != field {
			return unknown, false
		}
		return vInt(k), true
	}
}

func (c *Ctx) constInt(pkg, name string) int64 {
	if k, ok := c.P.Global(pkg, name).(*types.Const); ok {
		if v, ok := constVal(types.TypeAndValue{Value: k.Val()}); ok && v.K == VInt {
			return v.I
		}
	}
	return -1
}

func (c *Ctx) connectHandler(r *Rule) *FuncInfo {
	v := c.vocab()
	fns := c.funcCalling("broker", v.bkSetup)
	if len(fns) != 1 {
		r.Undecided("broker connect handler", 0, fmt.Sprintf("expected one function calling Backend.Setup, found %d", len(fns)))
		return nil
	}
	return fns[0]
}

func sendOf(v *vocab, typ string) Pred {
	return and(or(callTo(v.bSend), callTo(v.connSend)), argIs(0, "packet", typ))
}

// c12SetupState: state=connected is stored before Backend.Setup is called (so that cleanup calls
// Terminate for every client Setup has been called for), and only on the authenticated side.
func c12SetupState(c *Ctx, v *vocab, prop string) {
	r := c.Rule(prop+"/SETUPSTATE", "TRACE", "connect handler: store(state, connected) ≺ Backend.Setup on every path; cleanup ⇒ Terminate whenever state ≥ connected: the backend is told about the termination of every connection it set up", 2)
	fi := c.connectHandler(r)
	if fi == nil {
		return
	}
	connected := c.constInt("broker", "clientConnected")
	in := c.traces(fi)
	var bad *Trace
	n := 0
	for _, t := range in.Traces {
		s := t.first(callTo(v.bkSetup))
		if s < 0 {
			continue
		}
		n++
		found := false
		for _, e := range t.Ev[:s] {
			if k, ok := c.stateStore(fi, v.fState, e); ok && k == connected {
				found = true
			}
		}
		if !found {
			bad = t
		}
	}
	r.Check(fi.Name+":state=connected≺Setup", bad == nil && n > 0, fi.Decl.Pos(), len(in.Traces),
		"Setup may register the client with the backend while the state still says 'connecting': a failure before the state store leaves it registered for ever (no Terminate, no will)", c.witness(bad)...)
	cl := c.P.ByObj[v.bCleanup]
	if cl == nil {
		r.Undecided("broker cleanup", 0, "not found")
		return
	}
	for _, st := range []int64{connected, c.constInt("broker", "clientDisconnected")} {
		cin := c.P.TraceFunc(cl, TraceOpts{Oracle: c.stateOracle(v.fState, st)})
		ok := len(cin.Traces) > 0
		var w *Trace
		for _, t := range cin.Traces {
			if len(t.all(callTo(v.bkTerminate))) != 1 {
				ok, w = false, t
			}
		}
		r.Check(fmt.Sprintf("%s@state=%d:Terminate exactly once", cl.Name, st), ok, cl.Decl.Pos(), len(cin.Traces), "every path of cleanup for an accepted client must call Backend.Terminate exactly once", c.witness(w)...)
	}
}

// ------------------------------------------------------------------ C12

const c12Explanation = "Static analysis of the will life-cycle in broker/client.go: (WILLW/STATE) inventories of every writer of Client.will and Client.state with the path condition under which each write happens; (CLEANUP) decision table of cleanup over state x will: Publish(will) iff (connected, will present), at most once, Terminate iff state >= connected; " +
	"(ONCE) cleanup has a single call site, in the reaper goroutine of the only constructor, after tomb.Wait and before close(closed); (DISC) DISCONNECT clears the will and marks the state before the connection is closed; (NOAUTH) a rejected authentication stores nothing and calls no Setup; (SETUPSTATE) the state is 'connected' before Setup runs. " +
	"That each termination cause actually leads to tomb death (liveness) is not decided."

func propC12(c *Ctx) string {
	v := c.vocab()
	gate := c.Rule("C12/VOCAB", "TABLE", "vocabulary resolves", 1)
	if m := v.missing(); len(m) > 0 {
		gate.Undecided("vocabulary", 0, strings.Join(m, ","))
		return c12Explanation
	}
	gate.Pass("vocabulary", 0, 1, "resolved")
	c12Writers(c, v)
	c12Cleanup(c, v, "C12")
	c12Once(c, v, "C12")
	c12Disc(c, v)
	c20NoAuth(c, v, "C12")
	c12SetupState(c, v, "C12")
	// the will is published through Backend.Publish with a nil ack: its QoS, not the ack, must select the queue
	c08Offline(c, v)
	// keep-alive expiry and malformed packets end the connection through Receive's error path: it must close the
	// carrier itself (not through Close, which waits for a stalled sender) or cleanup never runs
	c19ErrClose(c)
	c.NotDecide("that every termination cause (keep-alive expiry, shutdown, takeover, malformed packet) reaches tomb death — liveness",
		"the content of the published will at runtime (handed on unchanged: C11/WILL)", "exactly-once under concurrent Close/die races beyond the single reaper argument")
	c.Assume("tomb.v2: Wait returns only after all tracked goroutines returned", "instance-insensitive field keys")
	return c12Explanation
}

func c12Writers(c *Ctx, v *vocab) {
	r := c.Rule("C12/WILLW", "WHO+TRACE", "Client.will is written only in the connect handler (from the CONNECT's will, after Setup→ok and the session store) and in the DISCONNECT handler (nil)", 2)
	conn := c.connectHandler(r)
	disc := c.handlerOf(r, "broker", "Disconnect")
	if conn == nil || disc == nil {
		return
	}
	connWill := c.P.Field("packet", "Connect", "Will")
	for _, w := range c.writersOf(v.fWill) {
		switch w.fn {
		case conn.Name:
			in := c.traces(conn)
			h := &Interp{P: c.P, Info: conn.Pkg.TypesInfo}
			ok, n := true, 0
			var wt *Trace
			for _, t := range in.Traces {
				for i, e := range t.Ev {
					if e.Kind == EvAssign && e.LObj == v.fWill && e.Node == w.pos {
						n++
						s := t.first(callTo(v.bkSetup))
						sess := t.first(storeTo(v.fSession))
						if s < 0 || s > i || t.errOutcome(t.Ev[s]) != -1 || sess < 0 || sess > i || evRHSObj(h, e) != connWill {
							ok, wt = false, t
						}
					}
				}
			}
			r.Check(w.fn+":will=pkt.Will after Setup→ok", ok && n > 0, w.pos.Pos(), len(in.Traces), "the will must be taken from the CONNECT packet, only once the backend accepted the client and the session is stored", c.witness(wt)...)
			// an accepted client's will is in place before the CONNACK leaves: on every path that sends the
			// accepted CONNACK the will was stored before, unless the CONNECT carried none (the only admissible
			// guard). A store behind any other condition, or after the CONNACK / the resend loop / Restore, loses
			// the will of an accepted client that fails in between.
			okB, nAcc := true, 0
			var wb *Trace
			for _, t := range in.Traces {
				s := t.first(callTo(v.bkSetup))
				if s < 0 || t.errOutcome(t.Ev[s]) != -1 {
					continue
				}
				ca := t.firstFrom(s, sendOf(v, "Connack"))
				if ca < 0 {
					continue
				}
				nAcc++
				stored, none := false, false
				for i, e := range t.Ev {
					if i < ca && e.Kind == EvAssign && e.LObj == v.fWill && !e.Conditional {
						stored = true
					}
					if (e.Kind == EvCond || e.Kind == EvOutcome) && e.Var == connWill && e.Nilness == -1 {
						none = true
					}
				}
				if !stored && !none {
					okB, wb = false, t
				}
			}
			r.Check(w.fn+":will stored≺send(CONNACK accepted)", okB && nAcc > 0, w.pos.Pos(), len(in.Traces),
				"a path accepts the client (CONNACK sent) although the CONNECT's will has not been stored yet, or the store depends on something other than the presence of a will: a failure after acceptance then publishes no will", c.witness(wb)...)
		case disc.Name:
			in := c.traces(disc)
			ok, n := true, 0
			for _, t := range in.Traces {
				for _, e := range t.Ev {
					if e.Kind == EvAssign && e.LObj == v.fWill {
						n++
						if e.RVal.K != VNil {
							ok = false
						}
					}
				}
			}
			r.Check(w.fn+":will=nil", ok && n > 0, w.pos.Pos(), len(in.Traces), "DISCONNECT may only clear the will")
		default:
			if w.kind == "literal" {
				continue
			}
			r.Fail(w.fn+":will "+w.kind, w.pos.Pos(), 1, "the will is written outside the connect and disconnect handlers")
		}
	}
	// state writers
	rs := c.Rule("C12/STATE", "WHO+TRACE", "state=connected is stored only in the connect handler on the authenticated side; state=disconnected only in the DISCONNECT handler; nowhere else", 2)
	connected, disconnected := c.constInt("broker", "clientConnected"), c.constInt("broker", "clientDisconnected")
	for _, fi := range c.P.LibFuncs("broker") {
		if fi.Decl.Body == nil {
			continue
		}
		in := c.traces(fi)
		seen := map[ast.Node]bool{}
		for _, t := range in.Traces {
			for i, e := range t.Ev {
				k, ok := c.stateStore(fi, v.fState, e)
				if !ok || seen[e.Node] {
					continue
				}
				seen[e.Node] = true
				switch {
				case k == connected && fi == conn:
					// on the authenticated side: Authenticate precedes with ok true and no error
					good := true
					var wt *Trace
					for _, t2 := range in.Traces {
						for j, e2 := range t2.Ev {
							if e2.Node != e.Node {
								continue
							}
							a := t2.first(callTo(v.bkAuth))
							if a < 0 || a > j || t2.errOutcome(t2.Ev[a]) != -1 {
								good, wt = false, t2
							}
							authOK := false
							for _, p := range t2.Ev[a:j] {
								if (p.Kind == EvOutcome || p.Kind == EvCond) && p.DefCall == t2.Ev[a] && p.Nilness == 0 && p.Outcome {
									authOK = true
								}
							}
							if !authOK {
								good, wt = false, t2
							}
						}
					}
					rs.Check(fi.Name+":state=connected", good, e.Pos, len(in.Traces), "the client is marked connected although authentication failed or was not consulted", c.witness(wt)...)
				case k == disconnected && fi == disc:
					rs.Pass(fi.Name+":state=disconnected", e.Pos, len(in.Traces), "DISCONNECT handler")
				default:
					rs.Fail(fmt.Sprintf("%s:state=%d", fi.Name, k), e.Pos, len(in.Traces), "unexpected writer of the client state (decides will publication and Terminate)", c.witness(t)...)
				}
				_ = i
			}
		}
	}
	for _, w := range c.writersOf(v.fState) {
		if w.kind == "assign" || w.kind == "incdec" {
			rs.Fail(w.fn+":state "+w.kind, w.pos.Pos(), 1, "plain (non-atomic) write of the client state")
		}
	}
}

func c12Cleanup(c *Ctx, v *vocab, prop string) {
	r := c.Rule(prop+"/CLEANUP", "TRACE(table)", "cleanup over (state, will): Backend.Publish(will, nil) iff (connected, will present), at most once; Backend.Terminate iff state ≥ connected, at most once", 6)
	cl := c.P.ByObj[v.bCleanup]
	if cl == nil {
		r.Undecided("broker cleanup", 0, "not found")
		return
	}
	h := &Interp{P: c.P, Info: cl.Pkg.TypesInfo}
	connected := c.constInt("broker", "clientConnected")
	for st := int64(0); st <= 2; st++ {
		for _, will := range []bool{false, true} {
			wv := Val{K: VNil}
			if will {
				wv = Val{K: VNonNil}
			}
			in := c.P.TraceFunc(cl, TraceOpts{Init: map[types.Object]Val{v.fWill: wv}, Oracle: c.stateOracle(v.fState, st)})
			key := fmt.Sprintf("%s@state=%d,will=%s", cl.Name, st, wv)
			wantPub := st == connected && will
			wantTerm := st >= connected
			var bad *Trace
			why := ""
			for _, t := range in.Traces {
				pubs := t.all(callTo(v.bkPublish))
				terms := t.all(callTo(v.bkTerminate))
				if (len(pubs) == 1) != wantPub || len(pubs) > 1 {
					bad, why = t, fmt.Sprintf("will published %d times, expected %v", len(pubs), wantPub)
				}
				if (len(terms) == 1) != wantTerm || len(terms) > 1 {
					bad, why = t, fmt.Sprintf("Terminate called %d times, expected %v", len(terms), wantTerm)
				}
				for _, i := range pubs {
					e := t.Ev[i]
					if h.objOf(e.Call.Args[1]) != v.fWill || e.ArgVals[2].K != VNil {
						bad, why = t, "the will is not published as stored / with a nil ack"
					}
					if len(t.loopsAt(i)) > 0 {
						bad, why = t, "will published inside a loop"
					}
				}
			}
			r.Check(key, bad == nil && len(in.Traces) > 0, cl.Decl.Pos(), len(in.Traces), why, c.witness(bad)...)
		}
	}
}

func c12Once(c *Ctx, v *vocab, prop string) {
	r := c.Rule(prop+"/ONCE", "WHO+TRACE", "cleanup has one call site: the reaper goroutine started by the only constructor of broker.Client, after tomb.Wait() and before close(closed); closed is closed nowhere else", 3)
	// call sites of cleanup
	type site struct {
		fn  *FuncInfo
		lit *ast.FuncLit
	}
	var sites []site
	for _, fi := range c.P.LibFuncsAll("broker") {
		if fi.Decl.Body == nil {
			continue
		}
		ast.Inspect(fi.Decl.Body, func(m ast.Node) bool {
			return true
		})
		var stack []*ast.FuncLit
		var visit func(n ast.Node)
		visit = func(n ast.Node) {
			ast.Inspect(n, func(m ast.Node) bool {
				switch y := m.(type) {
				case *ast.FuncLit:
					stack = append(stack, y)
					visit(y.Body)
					stack = stack[:len(stack)-1]
					return false
				case *ast.CallExpr:
					if f, ok := (&Interp{P: c.P, Info: fi.Pkg.TypesInfo}).callee(&state{env: newEnv()}, y).(*types.Func); ok && f == v.bCleanup {
						var l *ast.FuncLit
						if len(stack) > 0 {
							l = stack[len(stack)-1]
						}
						sites = append(sites, site{fi, l})
					}
				}
				return true
			})
		}
		visit(fi.Decl.Body)
	}
	if len(sites) != 1 || sites[0].lit == nil {
		r.Fail("broker cleanup call sites", 0, 1, fmt.Sprintf("cleanup must be called from exactly one place (the reaper goroutine); found %d", len(sites)))
		return
	}
	s := sites[0]
	c.Touch(s.fn.Name)
	in := c.P.TraceLit(s.fn, s.lit, TraceOpts{})
	ok := len(in.Traces) > 0
	var w *Trace
	for _, t := range in.Traces {
		wt := t.first(tombCall("Wait"))
		cu := t.first(callTo(v.bCleanup))
		cl := t.first(func(e *Event) bool { return e.Kind == EvClose && e.ChanObj == v.fClosed })
		if !(wt >= 0 && cu > wt && cl > cu) || len(t.all(callTo(v.bCleanup))) != 1 || len(t.loopsAt(cu)) > 0 {
			ok, w = false, t
		}
	}
	r.Check(s.fn.Name+"$reaper:Wait≺cleanup≺close(closed)", ok, s.lit.Pos(), len(in.Traces), "cleanup must run once, after every goroutine of the client returned, and the closed signal must fire after it", c.witness(w)...)
	// the literal is started with `go` in the constructor
	fin := c.traces(s.fn)
	started := false
	for _, t := range fin.Traces {
		for i, e := range t.Ev {
			if e.Kind == EvGo && e.Lit == s.lit && len(t.loopsAt(i)) == 0 {
				started = true
			}
		}
	}
	r.Check(s.fn.Name+":go reaper", started, s.fn.Decl.Pos(), len(fin.Traces), "the reaper must be started unconditionally by the constructor")
	// constructors: composite literals of broker.Client
	cn := c.P.Named("broker", "Client")
	var ctors []string
	for _, pk := range c.P.All {
		for _, file := range pk.Syntax {
			if strings.HasSuffix(c.P.Fset.File(file.Pos()).Name(), "_test.go") {
				continue
			}
			for _, d := range file.Decls {
				fd, ok := d.(*ast.FuncDecl)
				ast.Inspect(d, func(m ast.Node) bool {
					if cl, ok2 := m.(*ast.CompositeLit); ok2 {
						if t := pk.TypesInfo.TypeOf(cl); t != nil && cn != nil && types.Identical(t, cn) {
							name := "<package level>"
							if ok {
								name = fd.Name.Name
							}
							ctors = append(ctors, name)
						}
					}
					return true
				})
			}
		}
	}
	r.Check("broker.Client constructors", len(ctors) == 1 && ctors[0] == s.fn.Decl.Name.Name, s.fn.Decl.Pos(), 1, fmt.Sprintf("composite literals of broker.Client: %v (only the constructor that starts the reaper may create clients)", ctors))
	// close(closed) only in the reaper
	n := 0
	for _, fi := range c.P.LibFuncs("broker") {
		if fi.Decl.Body == nil {
			continue
		}
		for _, t := range c.traces(fi).Traces {
			for _, e := range t.Ev {
				if e.Kind == EvClose && e.ChanObj == v.fClosed {
					n++
				}
			}
		}
	}
	r.Check("close(closed) sites outside the reaper", n == 0, 0, 1, "the closed signal is owned by the reaper goroutine")
}

func c12Disc(c *Ctx, v *vocab) {
	r := c.Rule("C12/DISC", "TRACE", "DISCONNECT handler: will=nil and state=disconnected on every path, both before the connection is closed and before the tomb is killed", 1)
	fi := c.handlerOf(r, "broker", "Disconnect")
	if fi == nil {
		return
	}
	disconnected := c.constInt("broker", "clientDisconnected")
	in := c.traces(fi)
	ok := len(in.Traces) > 0
	var w *Trace
	for _, t := range in.Traces {
		wi := t.first(func(e *Event) bool {
			return e.Kind == EvAssign && e.LObj == v.fWill && e.RVal.K == VNil && !e.Conditional
		})
		si := t.first(func(e *Event) bool { k, ok := c.stateStore(fi, v.fState, e); return ok && k == disconnected })
		ci := t.first(callTo(v.connClose))
		ki := t.first(tombCall("Kill"))
		di := t.first(callTo(v.bDie))
		first := func(xs ...int) int {
			m := 1 << 30
			for _, x := range xs {
				if x >= 0 && x < m {
					m = x
				}
			}
			return m
		}
		end := first(ci, ki, di)
		if wi < 0 || si < 0 || wi > end || si > end || end == 1<<30 {
			ok, w = false, t
		}
	}
	r.Check(fi.Name+":will=nil,state=disconnected≺Close", ok, fi.Decl.Pos(), len(in.Traces),
		"closing the connection wakes the reaper: if the will is still set or the state still 'connected' at that moment the will of a cleanly disconnected client is published", c.witness(w)...)
}

// c20NoAuth (shared by C12 and C20)
func c20NoAuth(c *Ctx, v *vocab, prop string) {
	r := c.Rule(prop+"/NOAUTH", "TRACE", "connect handler, authentication refused: send(CONNACK not-authorized) then die; no store to state/will/session, no Setup, nothing else sent; Authenticate precedes Setup and Setup happens only on the ok side", 3)
	fi := c.connectHandler(r)
	if fi == nil {
		return
	}
	in := c.traces(fi)
	rcField := c.P.Field("packet", "Connack", "ReturnCode")
	notAuth := c.constInt("packet", "NotAuthorized")
	var bad *Trace
	why := ""
	nRef, nSetup := 0, 0
	for _, t := range in.Traces {
		a := t.first(callTo(v.bkAuth))
		if a < 0 {
			if t.has(callTo(v.bkSetup)) {
				bad, why = t, "Setup without Authenticate"
			}
			continue
		}
		// ok outcome of authenticate
		authOK := 0
		for _, p := range t.Ev[a:] {
			if (p.Kind == EvOutcome) && p.DefCall == t.Ev[a] && p.Nilness == 0 {
				if p.Outcome {
					authOK = 1
				} else {
					authOK = -1
				}
			}
		}
		s := t.first(callTo(v.bkSetup))
		if s >= 0 {
			nSetup++
			if s < a || authOK != 1 || t.errOutcome(t.Ev[a]) != -1 {
				bad, why = t, "Setup reached although authentication did not succeed"
			}
		}
		if authOK == -1 && t.errOutcome(t.Ev[a]) == -1 {
			nRef++
			sends := t.all(or(callTo(v.bSend), callTo(v.connSend)))
			if len(sends) != 1 || !argIs(0, "packet", "Connack")(t.Ev[sends[0]]) {
				bad, why = t, "refused authentication must send exactly one CONNACK and nothing more"
			} else {
				code := Val{}
				for _, e := range t.Ev[:sends[0]] {
					if e.Kind == EvAssign && e.LObj == rcField {
						code = e.RVal
					}
				}
				if code.K != VInt || code.I != notAuth {
					bad, why = t, "CONNACK of a refused authentication does not carry NotAuthorized"
				}
			}
			if !t.has(callTo(v.bDie)) || t.retErr() <= 0 {
				bad, why = t, "refused authentication must end in die()"
			}
			for _, e := range t.Ev {
				if _, ok := c.stateStore(fi, v.fState, e); ok {
					bad, why = t, "state stored although authentication failed"
				}
				if e.Kind == EvAssign && (e.LObj == v.fWill || e.LObj == v.fSession) {
					bad, why = t, "will/session stored although authentication failed"
				}
				if callTo(v.bkSubscribe, v.bkPublish, v.bkRestore, v.bkDequeue)(e) {
					bad, why = t, "backend used although authentication failed"
				}
			}
		}
	}
	r.Check(fi.Name+":refused→CONNACK(5),die,nothing else", bad == nil && nRef > 0, fi.Decl.Pos(), len(in.Traces), why, c.witness(bad)...)
	r.Check(fi.Name+":Authenticate(ok)≺Setup", bad == nil && nSetup > 0, fi.Decl.Pos(), len(in.Traces), why, c.witness(bad)...)
	// ≤ 1 CONNACK per path, connect handler called once outside loops
	okOne := true
	var w *Trace
	for _, t := range in.Traces {
		if len(t.all(sendOf(v, "Connack"))) > 1 {
			okOne, w = false, t
		}
	}
	r.Check(fi.Name+":≤1 CONNACK per path", okOne, fi.Decl.Pos(), len(in.Traces), "never more than one CONNACK", c.witness(w)...)
}

// ------------------------------------------------------------------ C13

const c13Explanation = "Static analysis of the takeover path: (SETUPLOCK, LOCK engine) Setup takes setupMutex first and releases it only by defer; every access to the backend's client/session maps, the closing flag and a session's activeClient holds globalMutex on every path, also after the unlock-wait-relock window, and every deferred unlock finds its mutex held; " +
	"(WAIT) when the session has an active client, Setup closes it and waits for its Closed() signal (with the kill timeout as the only alternative, which returns an error and registers nothing) before it registers the newcomer; (REGISTER) success paths register the newcomer, Terminate unregisters; " +
	"(CLOSEDAFTER) the closed signal fires after cleanup (will, Terminate); (CONNACK) Setup→ok precedes the accepted CONNACK; (SETUPSTATE) Terminate follows every Setup. Schedules and the absence of blocked goroutines are not decided."

func brokerGuards(c *Ctx) map[*types.Var]guardSpec {
	gm := c.P.Field("broker", "MemoryBackend", "globalMutex")
	g := map[*types.Var]guardSpec{}
	if gm == nil {
		return g
	}
	for _, fn := range [][3]string{{"broker", "MemoryBackend", "activeClients"}, {"broker", "MemoryBackend", "storedSessions"}, {"broker", "MemoryBackend", "temporarySessions"},
		{"broker", "MemoryBackend", "closing"}, {"broker", "memorySession", "activeClient"}} {
		if f := c.P.Field(fn[0], fn[1], fn[2]); f != nil {
			g[f] = guardSpec{mutex: gm, anyW: true, reason: "backend registry"}
		}
	}
	return g
}

func propC13(c *Ctx) string {
	v := c.vocab()
	gate := c.Rule("C13/VOCAB", "TABLE", "vocabulary resolves", 1)
	if m := v.missing(); len(m) > 0 {
		gate.Undecided("vocabulary", 0, strings.Join(m, ","))
		return c13Explanation
	}
	gate.Pass("vocabulary", 0, 1, "resolved")
	r := c.Rule("C13/SETUPLOCK", "LOCK", "accesses to activeClients/storedSessions/temporarySessions/closing/activeClient hold globalMutex on every path; deferred unlocks find their mutex held", 20)
	guards := brokerGuards(c)
	if len(guards) != 5 {
		r.Undecided("broker guards", 0, "guarded fields or globalMutex not found")
	} else {
		res := c.lockAnalysis("broker", guards, nil, 0)
		c.judgeLocks(r, res, guards, nil)
	}
	c13Setup(c, v)
	c13TermGuard(c, v)
	// in-flight and queued messages pass to the newcomer: nothing dequeued may be dropped before it is stored
	c08StoreSend(c, v, "C13")
	c12Once(c, v, "C13")
	// the in-flight state passes to the newcomer only if resuming leaves the stored session (stores, id counter) alone
	c08Setup(c, v)
	c13ClosedWait(c, v, "C13")
	c13SessionSet(c, v, "C13")
	// a connection taken over before its CONNACK completed still has its will published: the will is stored before
	// the CONNACK is sent
	c12Writers(c, v)
	c12SetupState(c, v, "C13")
	// CONNACK after Setup
	rc := c.Rule("C13/CONNACK", "TRACE", "the accepted CONNACK is sent only after Backend.Setup returned successfully (the old connection is fully terminated by then)", 1)
	if fi := c.connectHandler(rc); fi != nil {
		in := c.traces(fi)
		ok, n := true, 0
		var w *Trace
		for _, t := range in.Traces {
			if !t.has(callTo(v.bsAll)) {
				continue
			}
			s := t.first(callTo(v.bkSetup))
			ca := t.first(sendOf(v, "Connack"))
			if ca < 0 {
				continue
			}
			n++
			if s < 0 || s > ca || t.errOutcome(t.Ev[s]) != -1 {
				ok, w = false, t
			}
		}
		rc.Check(fi.Name+":Setup→ok≺send(CONNACK)", ok && n > 0, fi.Decl.Pos(), len(in.Traces), "the newcomer is acknowledged before the takeover completed", c.witness(w)...)
	}
	c.NotDecide("interleavings of concurrent CONNECTs with traffic (schedules)", "absence of blocked goroutines", "loss/duplication of in-flight state during the hand-over at runtime (the session object is handed over untouched: C08/CLEAN)")
	c.Assume("lock keys are instance-insensitive (one MemoryBackend)", "Client.Closed() is closed by the reaper after cleanup (C13/ONCE)")
	return c13Explanation
}

func c13Setup(c *Ctx, v *vocab) {
	r := c.Rule("C13/WAIT", "TRACE", "Setup: setupMutex first, released by defer only; active client ⇒ Close() ≺ blocking wait on Closed() (only alternative: kill timeout → error, nothing registered) ≺ registration; success ⇒ newcomer registered; Terminate unregisters", 4)
	fi := c.mustFunc(r, "broker.(*MemoryBackend).Setup")
	if fi == nil {
		return
	}
	sm := c.P.Field("broker", "MemoryBackend", "setupMutex")
	gm := c.P.Field("broker", "MemoryBackend", "globalMutex")
	ac := c.P.Field("broker", "memorySession", "activeClient")
	actives := c.P.Field("broker", "MemoryBackend", "activeClients")
	temps := c.P.Field("broker", "MemoryBackend", "temporarySessions")
	closedM := c.P.Method("broker", "Client", "Closed")
	in := c.traces(fi)
	if c.undecidedIfOver(r, in, fi.Name) {
		return
	}
	h := &Interp{P: c.P, Info: fi.Pkg.TypesInfo}
	// setupMutex discipline
	ok := true
	var w *Trace
	for _, t := range in.Traces {
		first := true
		acq, rel := 0, 0
		for _, e := range t.Ev {
			if e.Kind == EvDefer {
				continue
			}
			if m, op := c.mutexOp(in, e); m == sm && m != nil {
				if op == "Lock" {
					acq++
					if !first {
						ok, w = false, t
					}
				} else {
					rel++
					if !e.Deferred {
						ok, w = false, t
					}
				}
			}
			if e.Kind == EvCall || e.Kind == EvAssign || e.Kind == EvAccess {
				first = false
			}
		}
		if acq != 1 || rel != 1 {
			ok, w = false, t
		}
	}
	r.Check(fi.Name+":setupMutex first, deferred release", ok, fi.Decl.Pos(), len(in.Traces), "concurrent Setups for one id must be serialised for their whole duration (the global mutex is dropped while waiting for the old client)", c.witness(w)...)
	// registration predicate
	isReg := func(e *Event) bool {
		if e.Kind != EvAssign {
			return false
		}
		if e.LObj == ac && e.RVal.K != VNil {
			return true
		}
		if ix, isIx := ast.Unparen(e.LHS).(*ast.IndexExpr); isIx {
			o := h.objOf(ix.X)
			return o == actives || o == temps
		}
		return false
	}
	okW, nKill := true, 0
	why := ""
	w = nil
	for _, t := range in.Traces {
		// Close() of the active client
		ci := t.first(callTo(v.bClose))
		if ci < 0 {
			continue
		}
		nKill++
		// a blocking select with a Closed() receive follows
		var sel *ast.SelectStmt
		chosen := ""
		for _, e := range t.Ev[ci:] {
			if e.Kind == EvRecv && e.Select != nil && e.Blocking {
				if f, isF := e.ChanObj.(*types.Func); isF {
					if f == closedM {
						sel, chosen = e.Select, "closed"
					} else if f.Pkg() != nil && f.Pkg().Path() == "time" && f.Name() == "After" && sel == nil {
						sel, chosen = e.Select, "timeout"
					}
				}
				break
			}
		}
		if sel == nil {
			okW, why, w = false, "the active client is closed but Setup does not wait for its Closed() signal", t
			continue
		}
		// the select offers Closed() and nothing but a timeout
		hasClosed := false
		for _, cl := range sel.Body.List {
			cc := cl.(*ast.CommClause)
			if cc.Comm == nil {
				okW, why, w = false, "the wait for the old client has a default clause (does not wait)", t
				continue
			}
			var ch ast.Expr
			switch m := cc.Comm.(type) {
			case *ast.ExprStmt:
				if u, isU := ast.Unparen(m.X).(*ast.UnaryExpr); isU {
					ch = u.X
				}
			case *ast.AssignStmt:
				if u, isU := ast.Unparen(m.Rhs[0]).(*ast.UnaryExpr); isU {
					ch = u.X
				}
			}
			if call, isC := ast.Unparen(ch).(*ast.CallExpr); isC {
				if f, _ := h.callee(&state{env: newEnv()}, call).(*types.Func); f == closedM {
					hasClosed = true
				}
			}
		}
		if !hasClosed {
			okW, why, w = false, "the wait select has no Closed() case", t
		}
		// no registration before the wait completed
		for _, e := range t.Ev[:ci] {
			if isReg(e) {
				okW, why, w = false, "newcomer registered before the old client was closed", t
			}
		}
		si := -1
		for i, e := range t.Ev {
			if e.Kind == EvRecv && e.Select == sel {
				si = i
			}
		}
		for _, e := range t.Ev[ci:max(si, ci)] {
			if isReg(e) {
				okW, why, w = false, "newcomer registered before the wait on Closed()", t
			}
		}
		if chosen == "timeout" {
			if t.retErr() <= 0 {
				// err variable pattern: `err = ErrKillTimeout` then `if err != nil {return}`
				if t.Exit == ExitReturn && len(t.RVals) == 3 && t.RVals[2].K != VNonNil {
					okW, why, w = false, "kill timeout does not lead to an error return", t
				}
			}
			for _, e := range t.Ev[si:] {
				if isReg(e) {
					okW, why, w = false, "newcomer registered although the old client did not terminate in time", t
				}
			}
		}
		// the global mutex is released during the wait and re-acquired after
		held := false
		for _, e := range t.Ev[:si] {
			if e.Kind == EvDefer {
				continue
			}
			if m, op := c.mutexOp(in, e); m == gm && m != nil {
				held = op == "Lock"
			}
		}
		if held {
			okW, why, w = false, "globalMutex held while waiting for the old client: its Terminate (which needs the mutex) can never run", t
		}
	}
	r.Check(fi.Name+":Close≺wait Closed()≺register", okW && nKill > 0, fi.Decl.Pos(), len(in.Traces), why, c.witness(w)...)
	// registration on success paths with a non-empty id
	sig := fi.Obj.Type().(*types.Signature)
	idP, clientP := sig.Params().At(1), sig.Params().At(0)
	rin := c.P.TraceFunc(fi, TraceOpts{Init: map[types.Object]Val{idP: {K: VNonEmpty}}})
	okR, n := true, 0
	w = nil
	for _, t := range rin.Traces {
		if t.Exit != ExitReturn || len(t.RVals) != 3 || t.RVals[2].K != VNil {
			continue
		}
		n++
		a, m := false, false
		for _, e := range t.Ev {
			if e.Kind == EvAssign && e.LObj == ac && evRHSObj(h, e) == clientP {
				a = true
			}
			if e.Kind == EvAssign {
				if ix, isIx := ast.Unparen(e.LHS).(*ast.IndexExpr); isIx && h.objOf(ix.X) == actives && h.objOf(ix.Index) == idP && evRHSObj(h, e) == clientP {
					m = true
				}
			}
		}
		if !a || !m {
			okR, w = false, t
		}
	}
	r.Check(fi.Name+":success⇒activeClient=client,activeClients[id]=client", okR && n > 0, fi.Decl.Pos(), len(rin.Traces), "a successful Setup with an id must register the newcomer as the session's active client and in the id map (else a later CONNECT cannot find and close it)", c.witness(w)...)
	// Terminate
	tf := c.mustFunc(r, "broker.(*MemoryBackend).Terminate")
	if tf != nil {
		tin := c.traces(tf)
		th := &Interp{P: c.P, Info: tf.Pkg.TypesInfo}
		tsig := tf.Obj.Type().(*types.Signature)
		okT := len(tin.Traces) > 0
		sawClear := false
		for _, t := range tin.Traces {
			dels := map[types.Object]bool{}
			for _, e := range t.Ev {
				if e.Kind == EvCall {
					if b, isB := e.Callee.(*types.Builtin); isB && b.Name() == "delete" {
						dels[th.objOf(e.Call.Args[0])] = true
					}
				}
				if e.Kind == EvAssign && e.LObj == ac && e.RVal.K == VNil {
					sawClear = true
				}
			}
			// the id-map entry may be kept only when it is not this client (entry compared with the
			// client parameter on the path): another connection owns the id, nothing to unregister
			notMine := false
			for _, e := range t.Ev {
				if e.Kind != EvCond {
					continue
				}
				if b, isB := ast.Unparen(e.Cond).(*ast.BinaryExpr); isB && (b.Op == token.EQL || b.Op == token.NEQ) {
					x, y := ast.Unparen(b.X), ast.Unparen(b.Y)
					if _, isIx := x.(*ast.IndexExpr); !isIx {
						x, y = y, x
					}
					if ix, isIx := x.(*ast.IndexExpr); isIx && th.objOf(ix.X) == actives {
						if id, isId := y.(*ast.Ident); isId && tsig.Params().Len() > 0 && th.objOf(id) == tsig.Params().At(0) {
							if (b.Op == token.EQL) != e.Outcome {
								notMine = true
							}
						}
					}
				}
			}
			if !(dels[actives] || notMine) || !dels[temps] {
				okT = false
			}
		}
		r.Check(tf.Name+":unregisters", okT && sawClear, tf.Decl.Pos(), len(tin.Traces), "Terminate must clear the session's activeClient and remove the client from temporarySessions and activeClients")
	}
}

func max(a, b int) int {
	if a > b {
		return a
	}
	return b
}

// ------------------------------------------------------------------ C16

const c16Explanation = "Static analysis of the dequeue-token (inflight window) discipline in broker/client.go: (TOKENS) inventory of every take/return/fill site of dequeueTokens compared with the table {take: dequeuer per iteration, resend loop per stored packet (non-blocking); return: dequeuer at once under QoS 0 after a successful send, PUBACK/PUBCOMP handler; fill: connect handler}; " +
	"under QoS>0 no path of a dequeuer iteration returns the token, under QoS 0 every completed iteration does, PUBREC returns none; (TAKE) every PUBLISH send is preceded by a take in the same iteration; (CAP) channel capacity == fill count == the configured window after defaulting. Eventual delivery (liveness) and long-run leak freedom beyond this pairing are not decided."

func propC16(c *Ctx) string {
	v := c.vocab()
	gate := c.Rule("C16/VOCAB", "TABLE", "vocabulary resolves", 1)
	if m := v.missing(); len(m) > 0 {
		gate.Undecided("vocabulary", 0, strings.Join(m, ","))
		return c16Explanation
	}
	gate.Pass("vocabulary", 0, 1, "resolved")
	r := c.Rule("C16/TOKENS", "WHO+TRACE", "take/return/fill sites of dequeueTokens are exactly those of the token table", 5)
	deqs := c.funcCalling("broker", v.bkDequeue)
	conn := c.connectHandler(r)
	ackH := c.handlerOf(r, "broker", "Puback")
	compH := c.handlerOf(r, "broker", "Pubcomp")
	recH := c.handlerOf(r, "broker", "Pubrec")
	if len(deqs) != 1 || conn == nil || ackH == nil || compH == nil || recH == nil {
		r.Undecided("anchors", 0, "dequeuer / connect / ack handlers not identified")
		return c16Explanation
	}
	deq := deqs[0]
	allowedTake := map[string]bool{deq.Name: true, conn.Name: true}
	allowedGive := map[string]bool{deq.Name: true, conn.Name: true, ackH.Name: true, compH.Name: true}
	for _, fi := range c.P.LibFuncs("broker") {
		if fi.Decl.Body == nil {
			continue
		}
		in := c.traces(fi)
		takes, gives := map[ast.Node]bool{}, map[ast.Node]bool{}
		for _, t := range in.Traces {
			for _, e := range t.Ev {
				if recvOn(v.fDequeueTokens)(e) {
					takes[e.Node] = true
				}
				if sendOn(v.fDequeueTokens)(e) {
					gives[e.Node] = true
				}
			}
		}
		if len(takes) > 0 {
			r.Check(fi.Name+":take(dequeueTokens)", allowedTake[fi.Name], fi.Decl.Pos(), len(in.Traces), fmt.Sprintf("%d take sites; allowed only in the dequeuer and the resend loop", len(takes)))
		}
		if len(gives) > 0 {
			r.Check(fi.Name+":give(dequeueTokens)", allowedGive[fi.Name], fi.Decl.Pos(), len(in.Traces), fmt.Sprintf("%d return sites; allowed only in dequeuer (QoS 0), PUBACK/PUBCOMP handler and the initial fill", len(gives)))
		}
	}
	c16AckReturn(c, v, r, ackH, compH)
	// dequeuer per QoS
	rt := c.Rule("C16/TAKE", "TRACE", "dequeuer iteration: one take (blocking with timeout+dying escape, or fast path) before Backend.Dequeue and before send(PUBLISH); QoS 0 returns the slot after send→ok, QoS>0 never; resend loop: one non-blocking take per resent packet before its send", 4)
	mf := c.msgFields()
	for q := int64(0); q <= 2; q++ {
		in := c.P.TraceFunc(deq, TraceOpts{Init: map[types.Object]Val{mf.msgQOS: vInt(q)}, NonNil: c.defOpts().NonNil})
		key := fmt.Sprintf("%s@QOS=%d", deq.Name, q)
		if c.undecidedIfOver(rt, in, key) {
			continue
		}
		var bad *Trace
		why := ""
		nDone := 0
		for _, t := range in.Traces {
			tk := t.all(recvOn(v.fDequeueTokens))
			dq := t.first(callTo(v.bkDequeue))
			s := t.first(sendOf(v, "Publish"))
			gv := t.all(sendOn(v.fDequeueTokens))
			if dq >= 0 && (len(tk) != 1 || tk[0] > dq) {
				bad, why = t, fmt.Sprintf("Backend.Dequeue reached with %d token takes before it (expected exactly 1)", len(tk))
			}
			if s >= 0 && (len(tk) != 1 || tk[0] > s) {
				bad, why = t, "PUBLISH sent without a window slot"
			}
			if q > 0 && len(gv) > 0 {
				bad, why = t, "window slot returned at once for a QoS>0 delivery: more than the configured number can be unacknowledged"
			}
			if t.Exit == ExitLoopBack {
				nDone++
				if q == 0 {
					n, blocking := 0, false
					if s >= 0 {
						n, blocking = giveAttempts(c, deq, t, v.fDequeueTokens, s)
					}
					if n != 1 || blocking || s < 0 || t.errOutcome(t.Ev[s]) != -1 {
						bad, why = t, "a completed QoS 0 iteration must return its slot (non-blocking) after the successful send"
					}
				}
			}
		}
		rt.Check(key, bad == nil && nDone > 0, deq.Decl.Pos(), len(in.Traces), why, c.witness(bad)...)
	}
	// blocking take has both escapes (also C14/TOKENTIMEOUT)
	c14TokenTimeout(c, v, "C16")
	c16DeqLock(c, v)
	// resend loop
	cin := c.traces(conn)
	okR, nR := true, 0
	var w *Trace
	for _, t := range cin.Traces {
		all := t.first(and(callTo(v.bsAll), argConstInt(0, v.outgoing)))
		if all < 0 {
			continue
		}
		for i := all; i < len(t.Ev); i++ {
			e := t.Ev[i]
			if !or(callTo(v.bSend), callTo(v.connSend))(e) {
				continue
			}
			loops := t.loopsAt(i)
			if len(loops) == 0 {
				continue
			}
			nR++
			// a take attempt (non-blocking select on dequeueTokens) inside the same iteration before the send
			taken := false
			for j := i - 1; j > all; j-- {
				p := t.Ev[j]
				if p.Kind == EvLoopBegin {
					break
				}
				if p.Kind == EvSelect && p.Select != nil && !p.Blocking {
					for _, cl := range p.Select.Body.List {
						cc := cl.(*ast.CommClause)
						if es, isE := cc.Comm.(*ast.ExprStmt); isE {
							if u, isU := ast.Unparen(es.X).(*ast.UnaryExpr); isU && (&Interp{P: c.P, Info: conn.Pkg.TypesInfo}).objOf(u.X) == v.fDequeueTokens {
								taken = true
							}
						}
					}
				}
				if recvOn(v.fDequeueTokens)(p) {
					taken = true
				}
			}
			if !taken {
				okR, w = false, t
			}
		}
	}
	rt.Check(conn.Name+":resend charges the window", okR && nR > 0, conn.Decl.Pos(), len(cin.Traces), "every retransmitted packet must consume a window slot (non-blocking) before it is sent", c.witness(w)...)
	c16Cap(c, v, conn)
	c16Settings(c, v, "C16")
	c.NotDecide("eventual delivery while acknowledgements flow (liveness)", "slot accounting over long runs and across reconnects beyond the take/return pairing", "the client's own behaviour")
	c.Assume("one dequeuer goroutine per client (C15/SINGLE)", "channel semantics of Go")
	return c16Explanation
}

func c16Cap(c *Ctx, v *vocab, conn *FuncInfo) {
	r := c.Rule("C16/CAP", "TRACE", "each token channel is made with capacity F and filled by a loop bounded by the same F (after F was defaulted): window size == configured size", 3)
	in := c.traces(conn)
	h := &Interp{P: c.P, Info: conn.Pkg.TypesInfo}
	for _, tok := range []*types.Var{v.fDequeueTokens, v.fPublishTokens, v.fSubscribeTokens} {
		var capF, capRaw types.Object
		okMake, okFill := false, false
		for _, t := range in.Traces {
			for i, e := range t.Ev {
				var fills []int
				if e.Kind == EvAssign && e.LObj == tok && e.Made != nil && e.Made.SizeObj != nil {
					// the channel may be made (and filled) by a helper that is interpreted in place: the size is the
					// object the helper's parameter stands for on this path
					capF, capRaw = e.Made.SizeObj, e.Made.SizeRaw
					okMake = true
					for j, f := range t.Ev[:i] {
						if sendOn(tok)(f) {
							fills = append(fills, j)
						}
					}
				}
				if sendOn(tok)(e) && capF != nil {
					fills = append(fills, i)
				}
				for _, i := range fills {
					e := t.Ev[i]
					for _, l := range t.loopsAt(i) {
						if fs, isF := l.(*ast.ForStmt); isF && fs.Cond != nil {
							if b, isB := ast.Unparen(fs.Cond).(*ast.BinaryExpr); isB && (h.objOf(b.Y) == capF || h.objOf(b.Y) == capRaw) && b.Op.String() == "<" {
								// counter starts at 0 and is incremented by one
								if as, isA := fs.Init.(*ast.AssignStmt); isA && len(as.Rhs) == 1 {
									if tv, ok := conn.Pkg.TypesInfo.Types[as.Rhs[0]]; ok && tv.Value != nil && tv.Value.String() == "0" {
										if _, isInc := fs.Post.(*ast.IncDecStmt); isInc && e.Blocking == true {
											okFill = true
										}
									}
								}
							}
						}
					}
				}
			}
		}
		name := "?"
		if capF != nil {
			name = capF.Name()
		}
		r.Check(conn.Name+":"+tok.Name()+" cap==fill=="+name, okMake && okFill, conn.Decl.Pos(), len(in.Traces), "capacity and number of initial tokens must be the same configured value")
	}
}

// c14TokenTimeout: each blocking token take has a dying case and a time.After(TokenTimeout) case ending in die(ErrTokenTimeout).
func c14TokenTimeout(c *Ctx, v *vocab, prop string) {
	r := c.Rule(prop+"/TOKENTIMEOUT", "ESCAPE+TRACE", "every blocking take of a token channel offers tomb.Dying() and time.After(c.TokenTimeout); the timeout arm ends in die(ClientError, ErrTokenTimeout)", 4)
	ttF := c.P.Field("broker", "Client", "TokenTimeout")
	errTT := c.P.Global("broker", "ErrTokenTimeout")
	toks := map[types.Object]bool{v.fDequeueTokens: true, v.fPublishTokens: true, v.fSubscribeTokens: true}
	for _, fi := range c.P.LibFuncs("broker") {
		if fi.Decl.Body == nil {
			continue
		}
		in := c.traces(fi)
		h := &Interp{P: c.P, Info: fi.Pkg.TypesInfo}
		seen := map[*ast.SelectStmt]bool{}
		for _, t := range in.Traces {
			for _, e := range t.Ev {
				if e.Kind != EvRecv || !toks[e.ChanObj] || !e.Blocking || e.Select == nil || seen[e.Select] {
					continue
				}
				seen[e.Select] = true
				hasDying, hasTimeout := false, false
				for _, cl := range e.Select.Body.List {
					cc := cl.(*ast.CommClause)
					es, isE := cc.Comm.(*ast.ExprStmt)
					if !isE {
						continue
					}
					u, isU := ast.Unparen(es.X).(*ast.UnaryExpr)
					if !isU {
						continue
					}
					call, isC := ast.Unparen(u.X).(*ast.CallExpr)
					if !isC {
						continue
					}
					f, _ := h.callee(&state{env: newEnv()}, call).(*types.Func)
					if f == nil {
						continue
					}
					if isTomb(f, "Dying") {
						hasDying = true
					}
					if f.Pkg() != nil && f.Pkg().Path() == "time" && f.Name() == "After" && len(call.Args) == 1 && h.objOf(call.Args[0]) == ttF {
						// the arm must die with ErrTokenTimeout
						for _, s := range cc.Body {
							ast.Inspect(s, func(m ast.Node) bool {
								if dc, isD := m.(*ast.CallExpr); isD {
									if g, _ := h.callee(&state{env: newEnv()}, dc).(*types.Func); g == v.bDie && len(dc.Args) == 2 && h.objOf(dc.Args[1]) == errTT {
										hasTimeout = true
									}
								}
								return true
							})
						}
					}
				}
				r.Check(fmt.Sprintf("%s:blocking take(%s)", fi.Name, e.ChanObj.Name()), hasDying && hasTimeout, e.Pos, len(in.Traces),
					fmt.Sprintf("dying escape=%v, token-timeout escape=%v: a client that never acknowledges must not keep this goroutine (and a publisher holding the global mutex) blocked for ever", hasDying, hasTimeout))
			}
		}
	}
}

// ------------------------------------------------------------------ C20

const c20Explanation = "Static analysis of the broker's protocol gate and request/response correlation: (FIRST) between the first Receive and the connect handler there is a checked assertion to *packet.Connect whose false side dies without sending; (AUTH/NOAUTH) Authenticate precedes Setup, a refusal sends one not-authorised CONNACK and nothing more; " +
	"(SWITCH) the packet type switch handles exactly the nine client→server packet types after CONNECT and rejects everything else through die(ClientError, ErrUnexpectedPacket); (SUBACK) SUBACK/UNSUBACK copy the request id, return codes are index-aligned with the requested filters, the closure handed to the backend queues that very packet, PINGREQ is answered by PINGRESP on every non-error path; (ONECONNACK) at most one CONNACK per path and one connect-handler call outside loops. Correlation under pipelining relies on the FIFO ack queue with a single acker (C15/SINGLE); schedules are not decided."

func propC20(c *Ctx) string {
	v := c.vocab()
	gate := c.Rule("C20/VOCAB", "TABLE", "vocabulary resolves", 1)
	if m := v.missing(); len(m) > 0 {
		gate.Undecided("vocabulary", 0, strings.Join(m, ","))
		return c20Explanation
	}
	gate.Pass("vocabulary", 0, 1, "resolved")
	c20First(c, v)
	c20NoAuth(c, v, "C20")
	c20Switch(c, v, "C20")
	c20Suback(c, v)
	c20AckTokens(c, v)
	c07ReqTokens(c, v, "C20")
	c20AuthTable(c, v)
	c.NotDecide("correlation under pipelining and schedules at runtime (rests on FIFO ackQueue + single acker)", "custom backends that never call the ack", "the engine's connect timeout (timing)")
	c.Assume("packet decoding yields one of the 14 concrete packet types (C01/HDR)")
	return c20Explanation
}

func c20First(c *Ctx, v *vocab) {
	r := c.Rule("C20/FIRST", "TRACE", "processor: first Receive→ok, then a checked assertion to *packet.Connect; false side: die, no send, no backend call; the connect handler is called once, outside loops, only on the true side", 2)
	pr := c.P.ByObj[v.bProcessor]
	conn := c.connectHandler(r)
	if pr == nil || conn == nil {
		r.Undecided("broker processor", 0, "not found")
		return
	}
	in := c.traces(pr)
	if c.undecidedIfOver(r, in, pr.Name) {
		return
	}
	var bad *Trace
	why := ""
	nNeg, nPos := 0, 0
	for _, t := range in.Traces {
		rcv := t.first(callTo(v.connReceive))
		if rcv < 0 {
			bad, why = t, "no Receive"
			continue
		}
		pc := t.all(callTo(conn.Obj))
		if len(pc) > 1 {
			bad, why = t, "connect handler called twice on one path"
		}
		for _, i := range pc {
			if len(t.loopsAt(i)) > 0 {
				bad, why = t, "connect handler called inside the packet loop (a second CONNECT would be processed)"
			}
		}
		// assertion outcome
		asserted := 0
		for _, e := range t.Ev[rcv:] {
			if e.Kind == EvOutcome && e.DefCall != nil && e.DefCall.Kind == EvAssert && len(e.DefCall.Types) == 1 && typeIs(e.DefCall.Types[0], "packet", "Connect", true) {
				if e.Outcome {
					asserted = 1
				} else {
					asserted = -1
				}
				break
			}
			if e.Kind == EvTypeCase && len(e.Types) == 1 && typeIs(e.Types[0], "packet", "Connect", true) {
				asserted = 1
				break
			}
		}
		if t.errOutcome(t.Ev[rcv]) != -1 {
			// receive failed: nothing may be processed
			if len(pc) > 0 {
				bad, why = t, "connect handler reached after a failed Receive"
			}
			continue
		}
		switch asserted {
		case 1:
			nPos++
		case -1:
			nNeg++
			if len(pc) > 0 || t.has(or(callTo(v.bSend), callTo(v.connSend))) || !t.has(callTo(v.bDie)) ||
				t.has(callTo(v.bkSetup, v.bkAuth, v.bkPublish, v.bkSubscribe, v.bkUnsubscribe)) {
				bad, why = t, "a first packet that is not CONNECT must close the connection without a reply and without touching the backend"
			}
		default:
			if len(pc) > 0 {
				bad, why = t, "connect handler reached without a checked assertion that the first packet is a CONNECT"
			}
		}
		// nothing of the packet switch before the connect handler succeeded
		sw := c.P.Func("broker.(*Client).processPacket")
		if sw != nil {
			for _, i := range t.all(callTo(sw.Obj)) {
				if len(pc) == 0 || pc[0] > i || t.errOutcome(t.Ev[pc[0]]) != -1 {
					bad, why = t, "packets are dispatched before the connect handler succeeded"
				}
			}
		}
	}
	r.Check(pr.Name+":first packet gate", bad == nil && nNeg > 0 && nPos > 0, pr.Decl.Pos(), len(in.Traces), why, c.witness(bad)...)
	// call sites of the connect handler in the package: exactly one
	n := 0
	for _, fi := range c.P.LibFuncs("broker") {
		if fi.Decl.Body == nil {
			continue
		}
		sites := map[ast.Node]bool{}
		for _, t := range c.traces(fi).Traces {
			for _, e := range t.Ev {
				if callTo(conn.Obj)(e) {
					sites[e.Node] = true
				}
			}
		}
		n += len(sites)
	}
	r.Check(conn.Name+":single call site", n == 1, conn.Decl.Pos(), 1, fmt.Sprintf("%d call sites (a second CONNECT must never reach the connect handler)", n))
}

func c20Switch(c *Ctx, v *vocab, prop string) {
	r := c.Rule(prop+"/SWITCH", "TABLE", "processPacket: case types == {Subscribe, Unsubscribe, Publish, Puback, Pubrec, Pubrel, Pubcomp, Pingreq, Disconnect}; default == die(ClientError, ErrUnexpectedPacket); each case calls a handler", 10)
	sw := c.mustFunc(r, "broker.(*Client).processPacket")
	if sw == nil {
		return
	}
	want := map[string]bool{"Subscribe": true, "Unsubscribe": true, "Publish": true, "Puback": true, "Pubrec": true, "Pubrel": true, "Pubcomp": true, "Pingreq": true, "Disconnect": true}
	in := c.traces(sw)
	h := &Interp{P: c.P, Info: sw.Pkg.TypesInfo}
	got := map[string]bool{}
	errUnexp := c.P.Global("broker", "ErrUnexpectedPacket")
	clientErr := c.P.Global("broker", "ClientError")
	defOK, defSeen := false, false
	for _, t := range in.Traces {
		for i, e := range t.Ev {
			if e.Kind != EvTypeCase {
				continue
			}
			if e.Default {
				defSeen = true
				for _, n := range t.Ev[i+1:] {
					if callTo(v.bDie)(n) && len(n.Call.Args) == 2 && h.objOf(n.Call.Args[0]) == clientErr && h.objOf(n.Call.Args[1]) == errUnexp && t.retErr() != -1 {
						defOK = true
					}
				}
				if t.has(or(callTo(v.bSend), callTo(v.connSend))) {
					defOK = false
				}
				continue
			}
			for _, tt := range e.Types {
				name := ""
				if p, isP := tt.(*types.Pointer); isP {
					if n, isN := p.Elem().(*types.Named); isN && n.Obj().Pkg() != nil && n.Obj().Pkg().Name() == "packet" {
						name = n.Obj().Name()
					}
				}
				calls := false
				for _, n := range t.Ev[i+1:] {
					if n.Kind == EvCall {
						if f, isF := n.Callee.(*types.Func); isF && c.P.ByObj[f] != nil && f.Pkg().Name() == "broker" && f != v.bDie {
							calls = true
						}
					}
				}
				key := fmt.Sprintf("%s:case *packet.%s", sw.Name, name)
				if !got[name] {
					got[name] = true
					r.Check(key, want[name] && calls, e.Pos, len(in.Traces), "a server-only or unknown packet type is processed, or the case does not call a handler")
				}
			}
		}
	}
	var missing []string
	for n := range want {
		if !got[n] {
			missing = append(missing, n)
		}
	}
	sort.Strings(missing)
	if len(missing) > 0 {
		r.Fail(sw.Name+":missing cases", sw.Decl.Pos(), len(in.Traces), "client→server packet types without a case (they would be rejected as unexpected): "+strings.Join(missing, ","))
	}
	r.Check(sw.Name+":default→die(ClientError, ErrUnexpectedPacket)", defSeen && defOK, sw.Decl.Pos(), len(in.Traces), "CONNECT/CONNACK/SUBACK/UNSUBACK/PINGRESP after the handshake must close the connection")
}

func c20Suback(c *Ctx, v *vocab) {
	r := c.Rule("C20/SUBACK", "TRACE+ORIGIN", "SUBACK.ID/UNSUBACK.ID = request id; ReturnCodes has len(request filters) entries, entry i = filter i's QoS; the ack closure handed to the backend queues that packet; PINGREQ → PINGRESP on every non-error path", 6)
	sub := c.handlerOf(r, "broker", "Subscribe")
	uns := c.handlerOf(r, "broker", "Unsubscribe")
	ping := c.handlerOf(r, "broker", "Pingreq")
	if sub == nil || uns == nil || ping == nil {
		return
	}
	type spec struct {
		fi        *FuncInfo
		ack, req  string
		backendFn *types.Func
		listField string
		ackArgIdx int
	}
	for _, sp := range []spec{{sub, "Suback", "Subscribe", v.bkSubscribe, "Subscriptions", 2}, {uns, "Unsuback", "Unsubscribe", v.bkUnsubscribe, "Topics", 2}} {
		in := c.traces(sp.fi)
		h := &Interp{P: c.P, Info: sp.fi.Pkg.TypesInfo}
		idF := c.P.Field("packet", sp.ack, "ID")
		reqID := c.P.Field("packet", sp.req, "ID")
		listF := c.P.Field("packet", sp.req, sp.listField)
		okID, nID := true, 0
		okAck, nAck := true, 0
		okList := true
		for _, t := range in.Traces {
			for _, e := range t.Ev {
				if e.Kind == EvAssign && e.LObj == idF {
					nID++
					if evRHSObj(h, e) != reqID {
						okID = false
					}
				}
				if callTo(sp.backendFn)(e) {
					_, lit := ackArgLit(sp.fi, e, sp.ackArgIdx)
					if lit == nil {
						okAck = false
						continue
					}
					nAck++
					ac := c.classifyAckClosure(sp.fi, v, lit)
					if !ac.enqueuesType("packet", sp.ack) || len(ac.enqueues) != 1 {
						okAck = false
					}
					// the request list is handed to the backend unchanged
					if h.objOf(e.Call.Args[1]) != listF {
						okList = false
					}
				}
			}
		}
		r.Check(sp.fi.Name+":"+sp.ack+".ID=request.ID", okID && nID > 0, sp.fi.Decl.Pos(), len(in.Traces), "the acknowledgement must carry the id of the request")
		r.Check(sp.fi.Name+":ack closure queues the "+sp.ack, okAck && nAck > 0 && okList, sp.fi.Decl.Pos(), len(in.Traces), "the closure handed to the backend must queue exactly this acknowledgement, and the backend must get the request's own list")
	}
	// return codes
	in := c.traces(sub)
	h := &Interp{P: c.P, Info: sub.Pkg.TypesInfo}
	rcF := c.P.Field("packet", "Suback", "ReturnCodes")
	listF := c.P.Field("packet", "Subscribe", "Subscriptions")
	subQ := c.P.Field("packet", "Subscription", "QOS")
	okLen, okAlign := false, false
	for _, t := range in.Traces {
		for i, e := range t.Ev {
			lobj := e.LObj
			if e.Kind == EvAssign {
				if ix, isIx := ast.Unparen(e.LHS).(*ast.IndexExpr); isIx {
					lobj = h.objOf(ix.X)
				}
			}
			if e.Kind == EvAssign && lobj == rcF {
				if _, isIx := ast.Unparen(e.LHS).(*ast.IndexExpr); !isIx {
					// make([]QOS, len(pkt.Subscriptions))
					if call, isC := ast.Unparen(e.RHS).(*ast.CallExpr); isC && len(call.Args) >= 2 {
						if lc, isL := ast.Unparen(call.Args[1]).(*ast.CallExpr); isL && len(lc.Args) == 1 && h.objOf(lc.Args[0]) == listF {
							okLen = len(call.Args) == 2
						}
					}
				} else {
					ix := ast.Unparen(e.LHS).(*ast.IndexExpr)
					for _, l := range t.loopsAt(i) {
						if rs, isR := l.(*ast.RangeStmt); isR && h.objOf(rs.X) == listF && rs.Key != nil && rs.Value != nil {
							if h.objOf(ix.Index) == h.objOf(rs.Key) {
								if sel, isS := ast.Unparen(e.RHS).(*ast.SelectorExpr); isS && h.objOf(sel) == subQ && h.objOf(sel.X) == h.objOf(rs.Value) {
									okAlign = true
								}
							}
						}
					}
				}
			}
		}
	}
	r.Check(sub.Name+":len(ReturnCodes)=len(Subscriptions)", okLen, sub.Decl.Pos(), len(in.Traces), "one return code per requested filter")
	r.Check(sub.Name+":ReturnCodes[i]=Subscriptions[i].QOS", okAlign, sub.Decl.Pos(), len(in.Traces), "return codes in request order (index-aligned with the requested filters)")
	// ping
	pin := c.traces(ping)
	okP, n := true, 0
	for _, t := range pin.Traces {
		if !t.success() {
			continue
		}
		n++
		s := t.first(sendOf(v, "Pingresp"))
		if s < 0 || t.errOutcome(t.Ev[s]) != -1 {
			okP = false
		}
	}
	r.Check(ping.Name+":PINGRESP", okP && n > 0, ping.Decl.Pos(), len(pin.Traces), "every PINGREQ is answered by a PINGRESP")
}

// giveAttempts counts the attempts (from event index from) to put a token back: plain sends and
// entered select statements that have a send clause on tok (the default arm may have been taken).
func giveAttempts(c *Ctx, fi *FuncInfo, t *Trace, tok *types.Var, from int) (int, bool) {
	h := &Interp{P: c.P, Info: fi.Pkg.TypesInfo}
	n, blocking := 0, false
	seen := map[*ast.SelectStmt]bool{}
	for _, e := range t.Ev[from:] {
		switch {
		case e.Kind == EvSend && e.ChanObj == types.Object(tok) && e.Select == nil:
			n++
			blocking = true
		case e.Kind == EvSelect && e.Select != nil && !seen[e.Select]:
			for _, cl := range e.Select.Body.List {
				if ss, ok := cl.(*ast.CommClause).Comm.(*ast.SendStmt); ok && h.objOf(ss.Chan) == types.Object(tok) {
					seen[e.Select] = true
					n++
					if e.Blocking {
						blocking = true
					}
				}
			}
		}
	}
	return n, blocking
}

// c13TermGuard: cleanup calls Backend.Terminate for every client whose state reached 'connected', and the state is
// stored before Setup (SETUPSTATE) — so Terminate also runs for a contender whose Setup failed (kill timeout,
// shutdown) and that never owned the id. Removing the id-map entry must therefore be conditional on the entry being
// this client; an unconditional delete unregisters the connection that still owns the id, and the next CONNECT with
// that id finds nobody to close: two live connections.
func c13TermGuard(c *Ctx, v *vocab) {
	r := c.Rule("C13/TERMGUARD", "TRACE", "MemoryBackend.Terminate removes activeClients[id] only on paths that compared the entry with the terminating client (it is also called for clients whose Setup failed)", 1)
	tf := c.mustFunc(r, "broker.(*MemoryBackend).Terminate")
	actives := c.P.Field("broker", "MemoryBackend", "activeClients")
	if tf == nil || actives == nil {
		return
	}
	in := c.traces(tf)
	th := &Interp{P: c.P, Info: tf.Pkg.TypesInfo}
	tsig := tf.Obj.Type().(*types.Signature)
	ok, n := true, 0
	var w *Trace
	for _, t := range in.Traces {
		mine := false
		for _, e := range t.Ev {
			if e.Kind == EvCond {
				if b, isB := ast.Unparen(e.Cond).(*ast.BinaryExpr); isB && (b.Op == token.EQL || b.Op == token.NEQ) {
					x, y := ast.Unparen(b.X), ast.Unparen(b.Y)
					if _, isIx := x.(*ast.IndexExpr); !isIx {
						x, y = y, x
					}
					if ix, isIx := x.(*ast.IndexExpr); isIx && th.objOf(ix.X) == actives {
						if id, isId := y.(*ast.Ident); isId && tsig.Params().Len() > 0 && th.objOf(id) == tsig.Params().At(0) {
							if (b.Op == token.EQL) == e.Outcome {
								mine = true
							}
						}
					}
				}
			}
			if e.Kind == EvCall {
				if b, isB := e.Callee.(*types.Builtin); isB && b.Name() == "delete" && th.objOf(e.Call.Args[0]) == actives {
					n++
					if !mine {
						ok, w = false, t
					}
				}
			}
		}
	}
	r.Check(tf.Name+":delete(activeClients[id]) only if it is this client", ok && n > 0, tf.Decl.Pos(), len(in.Traces),
		"the id is unregistered without checking that it belongs to the terminating client: a contender that failed Setup unregisters the live owner of the id", c.witness(w)...)
}

// c16DeqLock: MemoryBackend.Publish waits, holding the global mutex, for room in the queue of an online
// subscriber. The only consumer of that queue is the subscriber's dequeuer goroutine; if anything that goroutine
// runs per iteration (Backend.Dequeue and whatever it calls, resolved through the Backend/Session interfaces to the
// in-repo implementations) acquires the global mutex, producer and consumer wait for each other and delivery
// stops although the client acknowledges everything.
func c16DeqLock(c *Ctx, v *vocab) {
	r := c.Rule("C16/DEQLOCK", "LOCK+REACH", "nothing reachable from the dequeuer goroutine (Backend.Dequeue implementations included) acquires MemoryBackend.globalMutex: Publish holds it while it waits for room in that goroutine's queue", 1)
	gm := c.P.Field("broker", "MemoryBackend", "globalMutex")
	deqs := c.funcCalling("broker", v.bkDequeue)
	if gm == nil || len(deqs) != 1 {
		r.Undecided("dequeuer", 0, "globalMutex or the function calling Backend.Dequeue not identified")
		return
	}
	reach := map[*types.Func]*FuncInfo{}
	var via func(fi *FuncInfo)
	via = func(fi *FuncInfo) {
		if reach[fi.Obj] != nil || fi.Decl.Body == nil {
			return
		}
		reach[fi.Obj] = fi
		ast.Inspect(fi.Decl.Body, func(m ast.Node) bool {
			call, ok := m.(*ast.CallExpr)
			if !ok {
				return true
			}
			g, ok := typeutilCallee(fi.Pkg.TypesInfo, call).(*types.Func)
			if !ok {
				return true
			}
			if h := c.P.ByObj[g]; h != nil {
				via(h)
				return true
			}
			// interface method of the broker package: all in-repo implementations
			if sig, ok := g.Type().(*types.Signature); ok && sig.Recv() != nil {
				if named, ok := sig.Recv().Type().(*types.Named); ok && named.Obj().Pkg() != nil && strings.HasSuffix(named.Obj().Pkg().Path(), "/broker") {
					if _, isI := named.Underlying().(*types.Interface); isI {
						for _, impl := range c.implementations("broker", named.Obj().Name(), g.Name()) {
							via(impl)
						}
					}
				}
			}
			return true
		})
	}
	via(deqs[0])
	var names []string
	for _, fi := range reach {
		names = append(names, fi.Name)
	}
	sort.Strings(names)
	sawDequeueImpl := false
	var lockers []string
	for _, n := range names {
		fi := c.P.Func(n)
		c.Touch(n)
		if fi.Obj.Name() == "Dequeue" && fi != deqs[0] {
			sawDequeueImpl = true
		}
		h := &Interp{P: c.P, Info: fi.Pkg.TypesInfo}
		ast.Inspect(fi.Decl.Body, func(m ast.Node) bool {
			if call, ok := m.(*ast.CallExpr); ok {
				if sel, ok := ast.Unparen(call.Fun).(*ast.SelectorExpr); ok && (sel.Sel.Name == "Lock" || sel.Sel.Name == "RLock") && h.objOf(sel.X) == types.Object(gm) {
					lockers = append(lockers, n+" @"+c.P.Pos(call.Pos()))
				}
			}
			return true
		})
	}
	if !sawDequeueImpl {
		r.Undecided(deqs[0].Name+":reachable Dequeue implementation", deqs[0].Decl.Pos(), "no in-repo implementation of Backend.Dequeue is reachable (call graph resolution failed)")
		return
	}
	r.Check(deqs[0].Name+":no globalMutex on the consumer side", len(lockers) == 0, deqs[0].Decl.Pos(), len(reach),
		"the consumer side of the session queues acquires the global mutex ("+strings.Join(lockers, "; ")+") while Publish may hold it waiting for room in the same queue: producer and consumer wait for each other")
}

// c20AckTokens: every acknowledgement the acker writes gives back the token its request took: SUBACK and UNSUBACK a
// subscribe token, PUBACK and PUBCOMP a publish token. A type that falls through without its token leaks one slot
// per request; after ParallelSubscribes / ParallelPublishes requests the processor blocks and the next request is
// never answered.
func c20AckTokens(c *Ctx, v *vocab) {
	r := c.Rule("C20/ACKTOKENS", "TRACE(table)", "acker: after a successful write of a SUBACK/UNSUBACK a subscribe token is returned, of a PUBACK/PUBCOMP a publish token (decided per packet type over the type switches on the drained packet)", 4)
	var acker *FuncInfo
	for _, fi := range c.P.LibFuncs("broker") {
		if fi.Decl.Body == nil {
			continue
		}
		for _, t := range c.traces(fi).Traces {
			if t.has(recvOn(v.fAckQueue)) {
				acker = fi
			}
		}
	}
	if acker == nil {
		r.Undecided("acker", 0, "no function drains ackQueue")
		return
	}
	in := c.traces(acker)
	want := map[string]types.Object{"Suback": v.fSubscribeTokens, "Unsuback": v.fSubscribeTokens, "Puback": v.fPublishTokens, "Pubcomp": v.fPublishTokens}
	var names []string
	for n := range want {
		names = append(names, n)
	}
	sort.Strings(names)
	// the clauses of a type switch list the types they take; default takes the rest
	listed := func(ts ast.Node, typ string) bool {
		sw, ok := ts.(*ast.TypeSwitchStmt)
		if !ok {
			return false
		}
		res := false
		for _, cl := range sw.Body.List {
			for _, e := range cl.(*ast.CaseClause).List {
				if typeIs(acker.Pkg.TypesInfo.TypeOf(e), "packet", typ, true) {
					res = true
				}
			}
		}
		return res
	}
	for _, typ := range names {
		var bad *Trace
		n := 0
		for _, t := range in.Traces {
			snd := t.first(or(callTo(v.bSend), callTo(v.connSend)))
			if snd < 0 || t.errOutcome(t.Ev[snd]) == 1 || !t.has(recvOn(v.fAckQueue)) {
				continue
			}
			consistent := true
			for _, e := range t.Ev {
				switch {
				case e.Kind == EvTypeCase && e.Default:
					if listed(e.Node, typ) {
						consistent = false
					}
				case e.Kind == EvTypeCase:
					hit := false
					for _, ty := range e.Types {
						if typeIs(ty, "packet", typ, true) {
							hit = true
						}
					}
					if !hit {
						consistent = false
					}
				case e.Kind == EvOutcome && e.DefCall != nil && e.DefCall.Kind == EvAssert && len(e.DefCall.Types) == 1:
					// comma-ok assertion on the packet: true only for that type
					is := typeIs(e.DefCall.Types[0], "packet", typ, true)
					if e.Outcome != is {
						consistent = false
					}
				}
			}
			if !consistent {
				continue
			}
			n++
			// the token is offered: a send, or a select that has the send as one of its cases (the non-blocking
			// form `select { case tokens <- x: default: }` cannot lose a token that was taken: the channel has room)
			offered := t.has(sendOn(want[typ]))
			hh := &Interp{P: c.P, Info: acker.Pkg.TypesInfo}
			for i, e := range t.Ev {
				if e.Kind == EvSelect && e.Select != nil {
					for _, cl := range e.Select.Body.List {
						if snd, ok := cl.(*ast.CommClause).Comm.(*ast.SendStmt); ok && chanOnPath(hh, t, i, snd.Chan) == want[typ] {
							offered = true
						}
					}
				}
			}
			if !offered {
				bad = t
			}
		}
		r.Check(acker.Name+"@"+typ, bad == nil && n > 0, acker.Decl.Pos(), len(in.Traces),
			"a path writes this acknowledgement without returning the token its request took: the token is lost, the request window shrinks for the rest of the connection", c.witness(bad)...)
	}
}

// c07ReqTokens: the request windows. A publish token is taken only by the PUBLISH handler and a subscribe token only
// by the SUBSCRIBE / UNSUBSCRIBE handlers; both are given back only by the goroutine that writes the acknowledgement
// (acker) and put in by the connect handler's initial fill. A take anywhere else (for instance per stored packet on
// resume) is never matched by a return: the window shrinks until the next request blocks and the client is killed by
// the token timeout — the handshake does not terminate.
func c07ReqTokens(c *Ctx, v *vocab, prop string) {
	r := c.Rule(prop+"/REQTOKENS", "WHO", "publishTokens / subscribeTokens: taken only in the handlers of the requests they meter, returned only by the acker, filled only by the connect handler", 6)
	conn := c.connectHandler(r)
	pubH := c.handlerOf(r, "broker", "Publish")
	subH := c.handlerOf(r, "broker", "Subscribe")
	unsubH := c.handlerOf(r, "broker", "Unsubscribe")
	var acker *FuncInfo
	for _, fi := range c.P.LibFuncs("broker") {
		if fi.Decl.Body == nil {
			continue
		}
		for _, t := range c.traces(fi).Traces {
			if t.has(recvOn(v.fAckQueue)) {
				acker = fi
			}
		}
	}
	if conn == nil || pubH == nil || subH == nil || unsubH == nil || acker == nil {
		r.Undecided("anchors", 0, "connect / publish / subscribe / unsubscribe handlers or the acker not identified")
		return
	}
	type spec struct {
		f    *types.Var
		name string
		take map[string]bool
	}
	for _, sp := range []spec{
		{v.fPublishTokens, "publishTokens", map[string]bool{pubH.Name: true}},
		{v.fSubscribeTokens, "subscribeTokens", map[string]bool{subH.Name: true, unsubH.Name: true}},
	} {
		give := map[string]bool{acker.Name: true, conn.Name: true}
		for _, fi := range c.P.LibFuncs("broker") {
			if fi.Decl.Body == nil {
				continue
			}
			in := c.traces(fi)
			h := &Interp{P: c.P, Info: fi.Pkg.TypesInfo}
			takes, gives := 0, 0
			seenT, seenG := map[ast.Node]bool{}, map[ast.Node]bool{}
			for _, t := range in.Traces {
				for i, e := range t.Ev {
					if e.Kind == EvRecv && (chanOnPath(h, t, i, e.Chan) == types.Object(sp.f) || e.ChanObj == types.Object(sp.f)) && !seenT[e.Node] {
						seenT[e.Node] = true
						takes++
					}
					if e.Kind == EvSend && (chanOnPath(h, t, i, e.Chan) == types.Object(sp.f) || e.ChanObj == types.Object(sp.f)) && !seenG[e.Node] {
						seenG[e.Node] = true
						gives++
					}
				}
			}
			if takes > 0 {
				r.Check(fi.Name+":take("+sp.name+")", sp.take[fi.Name], fi.Decl.Pos(), len(in.Traces),
					fmt.Sprintf("%d take site(s) outside the handlers that the window meters: a token taken here is never given back", takes))
			}
			if gives > 0 {
				r.Check(fi.Name+":give("+sp.name+")", give[fi.Name], fi.Decl.Pos(), len(in.Traces),
					fmt.Sprintf("%d return site(s) outside the acker / the initial fill: the window grows beyond its configured size", gives))
			}
		}
	}
}

// c20AuthTable: MemoryBackend.Authenticate with configured credentials accepts a login only when the user is listed
// (the comma-ok of the credentials lookup) and the password equals the listed one. A lookup without comma-ok compares
// with the zero value: an unknown user with an empty password is let in.
func c20AuthTable(c *Ctx, v *vocab) {
	r := c.Rule("C20/AUTHTABLE", "TRACE(table)", "MemoryBackend.Authenticate: accepted ⇒ no credentials configured, or the credentials lookup reported the user present (comma-ok) and the password compared equal", 1)
	fi := c.mustFunc(r, "broker.(*MemoryBackend).Authenticate")
	creds := c.P.Field("broker", "MemoryBackend", "Credentials")
	if fi == nil || creds == nil {
		r.Undecided("broker.(*MemoryBackend).Authenticate", 0, "function or Credentials field not found")
		return
	}
	in := c.traces(fi)
	h := &Interp{P: c.P, Info: fi.Pkg.TypesInfo}
	// the comma-ok variable(s) of `pw, ok := m.Credentials[user]`
	okVars := map[types.Object]bool{}
	ast.Inspect(fi.Decl.Body, func(m ast.Node) bool {
		if as, ok := m.(*ast.AssignStmt); ok && len(as.Lhs) == 2 && len(as.Rhs) == 1 {
			if ix, ok := ast.Unparen(as.Rhs[0]).(*ast.IndexExpr); ok && h.objOf(ix.X) == types.Object(creds) {
				if o := h.rawObjOf(as.Lhs[1]); o != nil {
					okVars[o] = true
				}
			}
		}
		return true
	})
	var bad *Trace
	why := ""
	nAcc := 0
	for _, t := range in.Traces {
		if t.Exit != ExitReturn || len(t.Results) != 2 || t.retErr() == 1 {
			continue
		}
		open_, present := false, false
		var okVar types.Object
		for _, e := range t.Ev {
			if (e.Kind == EvCond || e.Kind == EvOutcome) && e.Var == types.Object(creds) && e.Nilness == -1 {
				open_ = true
			}
			if e.Kind == EvOutcome && e.DefCall != nil && e.DefCall.Kind == EvAssert && e.DefCall.CommaOk {
				if ix, ok := ast.Unparen(e.DefCall.RHS).(*ast.IndexExpr); ok && h.objOf(ix.X) == types.Object(creds) {
					okVar = e.Var
					if e.Outcome {
						present = true
					}
				}
			}
			if e.Kind == EvAssert && e.CommaOk {
				if ix, ok := ast.Unparen(e.RHS).(*ast.IndexExpr); ok && h.objOf(ix.X) == types.Object(creds) {
					// remember the ok variable of `pw, ok := creds[user]` (second left-hand side)
					if as, ok := e.Node.(*ast.AssignStmt); ok && len(as.Lhs) == 2 {
						okVar = h.rawObjOf(as.Lhs[1])
					}
				}
			}
		}
		res := t.RVals[0]
		switch {
		case res.K == VBool && !res.B:
			continue
		case res.K == VBool && res.B:
			nAcc++
			if !open_ && !present {
				bad, why = t, "a path accepts the login without the credentials lookup having reported the user present"
			}
		default:
			// an expression: it must be a conjunction that contains the comma-ok variable
			nAcc++
			conj := false
			var walk func(e ast.Expr)
			walk = func(e ast.Expr) {
				switch x := ast.Unparen(e).(type) {
				case *ast.BinaryExpr:
					if x.Op == token.LAND {
						walk(x.X)
						walk(x.Y)
					}
				case *ast.Ident:
					if o := h.rawObjOf(x); o != nil && (o == okVar || okVars[o]) {
						conj = true
					}
				}
			}
			walk(t.Results[0])
			if !open_ && !conj {
				bad, why = t, "the returned verdict does not include the comma-ok of the credentials lookup"
			}
		}
	}
	r.Check(fi.Name+":accepted⇒listed", bad == nil && nAcc > 0, fi.Decl.Pos(), len(in.Traces), why, c.witness(bad)...)
}

// c16AckReturn: the PUBACK / PUBCOMP handler gives exactly one window slot back per completed handshake and never
// blocks doing so (a second, stray acknowledgement finds the window full: a blocking return would park the
// connection's only reader for ever).
func c16AckReturn(c *Ctx, v *vocab, r *Rule, ackH, compH *FuncInfo) {
	// PUBREC returns none (checked above by the allow-list); PUBACK/PUBCOMP handler returns one on every success path
	for _, hnd := range []*FuncInfo{ackH, compH} {
		in := c.traces(hnd)
		ok, n := true, 0
		var w *Trace
		for _, t := range in.Traces {
			if !t.success() {
				continue
			}
			n++
			if n, blocking := giveAttempts(c, hnd, t, v.fDequeueTokens, 0); n != 1 || blocking {
				ok, w = false, t
			}
		}
		r.Check(hnd.Name+":one non-blocking return per completed handshake", ok && n > 0, hnd.Decl.Pos(), len(in.Traces), "a completed PUBACK/PUBCOMP must give exactly one window slot back, without blocking", c.witness(w)...)
	}
}

// ------------------------------------------------------------------ ACKCAP / CLOSEALL / SETTINGS (round 3)

// c14AckCap: ack closures run inside Backend.Publish/Subscribe while the backend's global mutex is held; they must
// never wait. An acknowledgement is queued only by the holder of a publish or subscribe token, so the queue never
// fills iff cap(ackQueue) ≥ cap(publishTokens)+cap(subscribeTokens). Decided on the connect handler: the queue is
// made with the sum of the two size expressions the token channels are made with, and none of the operands is
// written between the first and the last of the three makes (the defaults are applied before all of them).
func c14AckCap(c *Ctx, v *vocab, prop string) {
	r := c.Rule(prop+"/ACKCAP", "TRACE", "connect handler: ackQueue is made with capacity publishTokens-size + subscribeTokens-size, and neither size operand is written between the make of its token channel and the make of the queue: a queued acknowledgement never waits for room (ack runs under the backend's global mutex)", 1)
	fi := c.connectHandler(r)
	if fi == nil {
		return
	}
	ackQ := c.P.Field("broker", "Client", "ackQueue")
	pubT := c.P.Field("broker", "Client", "publishTokens")
	subT := c.P.Field("broker", "Client", "subscribeTokens")
	if ackQ == nil || pubT == nil || subT == nil {
		r.Undecided(fi.Name+":ackQueue capacity", fi.Decl.Pos(), "fields ackQueue/publishTokens/subscribeTokens not found")
		return
	}
	h := &Interp{P: c.P, Info: fi.Pkg.TypesInfo}
	in := c.traces(fi)
	ok, why, n := true, "", 0
	var wit *Trace
	fail := func(t *Trace, msg string) {
		if ok {
			ok, why, wit = false, msg, t
		}
	}
	sizeOf := func(e *Event) *MadeInfo {
		if e.Made == nil || len(e.Made.Call.Args) != 2 {
			return nil
		}
		return e.Made
	}
	for _, t := range in.Traces {
		pos := map[*types.Var]int{}
		size := map[*types.Var]*MadeInfo{}
		for i, e := range t.Ev {
			if e.Kind != EvAssign {
				continue
			}
			for _, f := range []*types.Var{ackQ, pubT, subT} {
				if e.LObj == types.Object(f) {
					if s := sizeOf(e); s != nil {
						pos[f], size[f] = i, s
					} else {
						fail(t, f.Name()+" is not made with an explicit capacity")
					}
				}
			}
		}
		if len(pos) == 0 {
			continue
		}
		if len(pos) != 3 {
			fail(t, "a path creates only some of ackQueue, publishTokens, subscribeTokens")
			continue
		}
		n++
		sum, isSum := ast.Unparen(size[ackQ].Call.Args[1]).(*ast.BinaryExpr)
		a, b := size[pubT].SizeObj, size[subT].SizeObj
		if !isSum || sum.Op != token.ADD || a == nil || b == nil {
			fail(t, "the capacity of ackQueue is not the sum of the two token counts")
			continue
		}
		x, y := h.objOf(sum.X), h.objOf(sum.Y)
		if !((x == a && y == b) || (x == b && y == a)) {
			fail(t, "the capacity of ackQueue is "+c.P.exprStr(sum)+", the tokens handed out are "+a.Name()+" and "+b.Name())
			continue
		}
		// an operand must keep its value between the make of its own token channel and the make of the queue
		for _, pr := range []struct {
			ch *types.Var
			op types.Object
		}{{pubT, a}, {subT, b}} {
			lo, hi := pos[pr.ch], pos[ackQ]
			if lo > hi {
				lo, hi = hi, lo
			}
			for _, e := range t.Ev[lo:hi] {
				if e.Kind == EvAssign && e.LObj == pr.op {
					fail(t, "the token count "+pr.op.Name()+" is written between the creation of "+pr.ch.Name()+" and of the acknowledgement queue: their sizes disagree")
				}
			}
		}
	}
	r.Check(fi.Name+":cap(ackQueue) = publish tokens + subscribe tokens", ok && n > 0, fi.Decl.Pos(), len(in.Traces), why, c.witness(wit)...)
}

// c14CloseAll: shutdown reaches every connection the backend set up. Setup leaves every accepted client as the
// activeClient of a session kept in temporarySessions or storedSessions (anonymous clients only in the former), so
// Close has to walk both maps and close each session's active client.
func c14CloseAll(c *Ctx, v *vocab, prop string) {
	r := c.Rule(prop+"/CLOSEALL", "TRACE", "every success path of MemoryBackend.Setup makes the client the activeClient of its session and registers it in a map (temporarySessions, storedSessions, activeClients) that MemoryBackend.Close walks closing the clients it finds: shutdown reaches every accepted connection, anonymous ones included", 3)
	_, _, _, _, _, tempS, storedS, _ := backendVocab(c)
	fi := c.mustFunc(r, "broker.(*MemoryBackend).Close")
	active := c.P.Field("broker", "memorySession", "activeClient")
	activeC := c.P.Field("broker", "MemoryBackend", "activeClients")
	closeM := c.P.Method("broker", "Client", "Close")
	if fi == nil || tempS == nil || storedS == nil || active == nil || closeM == nil {
		r.Undecided("broker.(*MemoryBackend).Close:vocabulary", 0, "session maps, activeClient or Client.Close not found")
		return
	}
	maps := []*types.Var{tempS, storedS}
	if activeC != nil {
		maps = append(maps, activeC)
	}
	isMap := func(o types.Object) *types.Var {
		for _, m := range maps {
			if o == types.Object(m) {
				return m
			}
		}
		return nil
	}
	// the maps Close walks with a Client.Close call in the loop body
	h := &Interp{P: c.P, Info: fi.Pkg.TypesInfo}
	walked := map[*types.Var]bool{}
	ast.Inspect(fi.Decl.Body, func(n ast.Node) bool {
		rs, ok := n.(*ast.RangeStmt)
		if !ok {
			return true
		}
		m := isMap(h.objOf(rs.X))
		if m == nil {
			return true
		}
		ast.Inspect(rs.Body, func(k ast.Node) bool {
			if call, ok := k.(*ast.CallExpr); ok {
				if f, _ := typeutilCallee(fi.Pkg.TypesInfo, call).(*types.Func); f == closeM {
					walked[m] = true
				}
			}
			return true
		})
		return true
	})
	var wl []string
	for _, m := range maps {
		if walked[m] {
			wl = append(wl, m.Name())
		}
	}
	sf := c.mustFunc(r, "broker.(*MemoryBackend).Setup")
	if sf == nil {
		return
	}
	sh := &Interp{P: c.P, Info: sf.Pkg.TypesInfo}
	in := c.traces(sf)
	type res struct {
		ok   bool
		n    int
		pos  token.Pos
		wit  *Trace
		note string
	}
	groups := map[string]*res{}
	var order []string
	for _, t := range in.Traces {
		if t.Exit != ExitReturn || len(t.RVals) != 3 || t.retErr() != -1 {
			continue
		}
		regs := map[*types.Var]bool{}
		owner := false
		for _, e := range t.Ev {
			if e.Kind != EvAssign {
				continue
			}
			if ix, isIx := ast.Unparen(e.LHS).(*ast.IndexExpr); isIx {
				if m := isMap(sh.objOf(ix.X)); m != nil {
					regs[m] = true
				}
			}
			if e.RHS != nil {
				if ix, isIx := ast.Unparen(e.RHS).(*ast.IndexExpr); isIx && sh.objOf(ix.X) == types.Object(storedS) && t.okOutcome(e) >= 0 {
					// the returned session was looked up in storedSessions (reuse)
					if len(t.Results) == 3 && sh.objOf(t.Results[0]) != nil && sh.objOf(t.Results[0]) == e.LObj {
						regs[storedS] = true
					}
				}
			}
			if e.LObj == types.Object(active) {
				owner = true
			}
		}
		var names []string
		covered := false
		for _, m := range maps {
			if regs[m] {
				names = append(names, m.Name())
				if walked[m] {
					covered = true
				}
			}
		}
		key := sf.Name + ":client registered in {" + strings.Join(names, ",") + "}"
		g := groups[key]
		if g == nil {
			g = &res{ok: true, pos: sf.Decl.Pos()}
			groups[key] = g
			order = append(order, key)
		}
		g.n++
		if (!covered || !owner) && g.ok {
			g.ok, g.wit = false, t
			if !owner {
				g.note = "the accepted client is not made the activeClient of its session"
			} else {
				g.note = "MemoryBackend.Close walks {" + strings.Join(wl, ",") + "} only: a client registered this way is not closed on shutdown (its goroutines, its Terminate call and its closed signal never happen)"
			}
		}
	}
	sort.Strings(order)
	for _, k := range order {
		g := groups[k]
		r.Check(k, g.ok, g.pos, g.n, g.note, c.witness(g.wit)...)
	}
	if len(order) == 0 {
		r.Undecided(sf.Name+":success paths", sf.Decl.Pos(), "no success path found")
	}
}

// c16Settings: the window (InflightMessages), the request tokens and the timeouts configured on the backend reach
// every accepted connection — also one that resumes a stored session: every success path of MemoryBackend.Setup
// assigns each client setting from the backend's field of the same meaning.
func c16Settings(c *Ctx, v *vocab, prop string) {
	r := c.Rule(prop+"/SETTINGS", "TRACE", "every success path of MemoryBackend.Setup assigns client.MaximumKeepAlive, ParallelPublishes, ParallelSubscribes, InflightMessages and TokenTimeout from the backend's Client* settings (fresh, clean and resumed sessions alike)", 1)
	sf := c.mustFunc(r, "broker.(*MemoryBackend).Setup")
	if sf == nil {
		return
	}
	type pair struct{ dst, src *types.Var }
	var pairs []pair
	for _, n := range []string{"MaximumKeepAlive", "ParallelPublishes", "ParallelSubscribes", "InflightMessages", "TokenTimeout"} {
		d, s := c.P.Field("broker", "Client", n), c.P.Field("broker", "MemoryBackend", "Client"+n)
		if d == nil || s == nil {
			r.Undecided(sf.Name+":settings vocabulary", sf.Decl.Pos(), "field Client."+n+" or MemoryBackend.Client"+n+" not found")
			return
		}
		pairs = append(pairs, pair{d, s})
	}
	sh := &Interp{P: c.P, Info: sf.Pkg.TypesInfo}
	in := c.traces(sf)
	ok, why, n := true, "", 0
	var wit *Trace
	for _, t := range in.Traces {
		if t.Exit != ExitReturn || len(t.RVals) != 3 || t.retErr() != -1 {
			continue
		}
		n++
		for _, p := range pairs {
			set := false
			for _, e := range t.Ev {
				if e.Kind == EvAssign && e.LObj == types.Object(p.dst) && (e.RObj == types.Object(p.src) || sh.objOf(e.RHS) == types.Object(p.src)) {
					set = true
				}
			}
			if !set && ok {
				ok, wit = false, t
				why = "a path hands out a session without applying " + p.src.Name() + " to the connection: it runs with the built-in defaults (window 10, timeout 30 s) instead of the configured limits"
			}
		}
	}
	r.Check(sf.Name+":client settings applied on every success path", ok && n > 0, sf.Decl.Pos(), len(in.Traces), why, c.witness(wit)...)
}

// c13SessionSet: MemoryBackend.Terminate (and every other Backend method) finds the connection's session through
// client.Session(). From the moment Setup returned, the backend regards this connection as the owner of the
// session, so the connect handler must record the session on the client before anything that can fail or be
// interrupted (sending the CONNACK, Restore, the resend loop): a connection that dies in between would otherwise be
// terminated without its session, and the backend would keep a dead owner.
func c13SessionSet(c *Ctx, v *vocab, prop string) {
	r := c.Rule(prop+"/SESSIONSET", "TRACE", "connect handler: after Backend.Setup→ok the session is stored in Client.session before any send, any further Backend/Session call and any return: Terminate always finds the session of a connection the backend has registered", 1)
	fi := c.connectHandler(r)
	if fi == nil {
		return
	}
	sess := c.P.Field("broker", "Client", "session")
	if sess == nil {
		r.Undecided(fi.Name+":session field", fi.Decl.Pos(), "Client.session not found")
		return
	}
	in := c.traces(fi)
	ok, why, n := true, "", 0
	var wit *Trace
	for _, t := range in.Traces {
		s := t.first(callTo(v.bkSetup))
		if s < 0 || t.errOutcome(t.Ev[s]) != -1 {
			continue
		}
		// the variable that holds Setup's session; a path on which it is nil has nothing to record
		var sv types.Object
		for _, e := range t.Ev[s+1:] {
			if e.Kind == EvAssign && ast.Unparen(e.RHS) == ast.Expr(t.Ev[s].Call) && sv == nil {
				sv = e.LObj
			}
		}
		isNil := false
		for _, e := range t.Ev[s+1:] {
			if (e.Kind == EvCond || e.Kind == EvOutcome) && e.Var != nil && e.Var == sv && e.Nilness == -1 {
				isNil = true
			}
		}
		if isNil {
			continue
		}
		n++
		set := false
		for _, e := range t.Ev[s+1:] {
			if e.Kind == EvAssign && e.LObj == types.Object(sess) {
				set = true
				break
			}
			if e.Kind == EvCall {
				if f, isF := e.Callee.(*types.Func); isF && c.P.ByObj[f] != nil || callTo(v.bSend, v.connSend, v.bkRestore, v.bsAll, v.bsSave, v.bsLookup, v.bsDelete)(e) {
					if ok {
						ok, wit = false, t
						why = "a call (" + c.P.exprStr(e.Call.Fun) + ") happens after Setup succeeded and before the session is recorded on the client"
					}
					break
				}
			}
		}
		if !set && ok {
			ok, wit, why = false, t, "a path leaves the handler after Setup succeeded without recording the session on the client"
		}
	}
	r.Check(fi.Name+":session recorded right after Setup→ok", ok && n > 0, fi.Decl.Pos(), len(in.Traces), why, c.witness(wit)...)
}

// c13ClosedWait: Client.Closed() fires only after the connection's cleanup has run, and cleanup calls
// Backend.Publish (will) and Backend.Terminate, which take the backend's global mutex. A goroutine that blocks on
// Closed() while it holds that mutex therefore waits for something that needs the mutex: a permanent deadlock that
// also stalls every other Setup/Publish/Subscribe/Terminate. Waiting for a client under the global mutex must use
// Closing() (fires when the tomb starts dying, needs no lock); Setup waits for Closed() only after it released
// the global mutex.
func c13ClosedWait(c *Ctx, v *vocab, prop string) {
	r := c.Rule(prop+"/CLOSEDWAIT", "LOCK", "no blocking receive from Client.Closed() happens while MemoryBackend.globalMutex is held (cleanup needs that mutex before Closed() can fire)", 1)
	gm := c.P.Field("broker", "MemoryBackend", "globalMutex")
	closedM := c.P.Method("broker", "Client", "Closed")
	if gm == nil || closedM == nil {
		r.Undecided("broker:Closed() waits", 0, "globalMutex or Client.Closed not found")
		return
	}
	isWait := func(fi *FuncInfo, e *Event) bool {
		if e.Kind != EvRecv || !e.Blocking || e.Chan == nil {
			return false
		}
		call, ok := ast.Unparen(e.Chan).(*ast.CallExpr)
		if !ok {
			return false
		}
		f, _ := typeutilCallee(fi.Pkg.TypesInfo, call).(*types.Func)
		return f == closedM
	}
	res := c.lockAnalysisEv("broker", map[*types.Var]guardSpec{}, nil, isWait)
	type site struct {
		a   *lockAccess
		bad bool
		n   int
	}
	sites := map[ast.Node]*site{}
	var order []ast.Node
	for i := range res.watched {
		a := &res.watched[i]
		s := sites[a.ev.Node]
		if s == nil {
			s = &site{a: a}
			sites[a.ev.Node] = s
			order = append(order, a.ev.Node)
		}
		s.n++
		if _, held := a.held[gm]; held && !s.bad {
			s.bad, s.a = true, a
		}
	}
	sort.Slice(order, func(i, j int) bool { return order[i].Pos() < order[j].Pos() })
	ord := map[string]int{}
	for _, n := range order {
		s := sites[n]
		key := s.a.fn.Name + ":wait for Closed()"
		ord[key]++
		if ord[key] > 1 {
			key = fmt.Sprintf("%s#%d", key, ord[key])
		}
		r.Check(key, !s.bad, s.a.ev.Pos, s.n, "the wait holds "+s.a.held.String()+": the awaited client's cleanup blocks on the same mutex before it can close the channel — deadlock of the whole backend", c.witness(s.a.trace)...)
	}
	if len(order) == 0 {
		r.Undecided("broker:Closed() waits", 0, "no wait on Client.Closed() found (Setup's take-over wait expected)")
	}
}
