package main

import (
	"fmt"
	"go/ast"
	"go/token"
	"go/types"
	"sort"
	"strings"

	"golang.org/x/tools/go/ssa"
)

func init() {
	register("C04", propC04)
	register("C05", propC05)
}

// ------------------------------------------------------------------ C04

const c04Explanation = "Decision-table extraction (TRACE engine with a symbolic valuation: topic ∈ {END, other}, segment ∈ {'+', '#', literal}) from topic.(*Tree).match and search. " +
	"For every valuation the set of collector calls (which node's values) and recursive descents (which child, which remaining topic) on the paths must equal the MQTT 3.1.1 §4.7 reference row, every missing event must be excused by a benign existence guard (empty value list, missing child, empty child map, collector asked to stop), and no other condition may influence the walk. " +
	"Plus level-splitting helpers (topicSegment/topicShorten) and de-duplication of results. Decides the shape of the algorithm, not byte-level results for all inputs; that the tables imply §4.7 is argued in DESIGN.md, not mechanised."

type treeVocab struct {
	fi                        *FuncInfo
	fnParam, topicParam, node *types.Var
	wOne, wSome, sep          *types.Var
	values, children          *types.Var
	topicEnd                  types.Object
	segFn, shortFn            *types.Func
}

func (c *Ctx) treeVocab(r *Rule, name string) *treeVocab {
	fi := c.mustFunc(r, name)
	if fi == nil {
		return nil
	}
	tv := &treeVocab{fi: fi}
	sig := fi.Obj.Type().(*types.Signature)
	for i := 0; i < sig.Params().Len(); i++ {
		p := sig.Params().At(i)
		switch t := p.Type().Underlying().(type) {
		case *types.Basic:
			if t.Info()&types.IsString != 0 && tv.topicParam == nil {
				tv.topicParam = p
			}
		case *types.Pointer:
			tv.node = p
		case *types.Signature:
			tv.fnParam = p
		}
	}
	tv.wOne = c.P.Field("topic", "Tree", "wildcardOne")
	tv.wSome = c.P.Field("topic", "Tree", "wildcardSome")
	tv.sep = c.P.Field("topic", "Tree", "separator")
	tv.values = c.P.Field("topic", "node", "values")
	tv.children = c.P.Field("topic", "node", "children")
	tv.topicEnd = c.P.Global("topic", "topicEnd")
	tv.segFn, _ = c.P.Global("topic", "topicSegment").(*types.Func)
	tv.shortFn, _ = c.P.Global("topic", "topicShorten").(*types.Func)
	if tv.topicParam == nil || tv.node == nil || tv.fnParam == nil || tv.wOne == nil || tv.wSome == nil || tv.values == nil || tv.children == nil || tv.topicEnd == nil || tv.segFn == nil || tv.shortFn == nil {
		r.Undecided(name, fi.Decl.Pos(), "tree vocabulary (parameters topic/node/collector, wildcard fields, topicEnd, topicSegment, topicShorten) does not resolve")
		return nil
	}
	return tv
}

// walkRow: what one trace of match/search does.
type walkRow struct {
	events    rowSet
	excused   rowSet
	stopped   bool // collector returned false and the walk ended
	foreign   []string
	unguarded []string // collector calls with a possibly empty value list
}

// classify the child expression: which child of the current node?
func (tv *treeVocab) childClass(in *Interp, t *Trace, upto int, e ast.Expr) string {
	e = ast.Unparen(e)
	if o := in.objOf(e); o != nil {
		if o == tv.node {
			return "node"
		}
		// last definition of the variable before upto
		for j := upto - 1; j >= 0; j-- {
			ev := t.Ev[j]
			if ev.Kind == EvAssign && ev.LObj == o && ev.RHS != nil {
				return tv.childClass(in, t, j, ev.RHS)
			}
			if ev.Kind == EvLoopBegin {
				if rs, ok := ev.LoopStmt.(*ast.RangeStmt); ok && rs.Value != nil && in.objOf(rs.Value) == o {
					if in.objOf(rs.X) == tv.children {
						return "children[*]"
					}
				}
			}
		}
		return "?" + o.Name()
	}
	if ix, ok := e.(*ast.IndexExpr); ok && in.objOf(ix.X) == tv.children {
		return "children[" + tv.keyClass(in, t, upto, ix.Index) + "]"
	}
	return "?"
}

func (tv *treeVocab) keyClass(in *Interp, t *Trace, upto int, k ast.Expr) string {
	k = ast.Unparen(k)
	if call, ok := k.(*ast.CallExpr); ok {
		if f, ok := in.callee(&state{env: newEnv()}, call).(*types.Func); ok && f == tv.segFn {
			return "seg"
		}
	}
	o := in.objOf(k)
	switch o {
	case nil:
		return "?"
	case types.Object(tv.wOne):
		return "+"
	case types.Object(tv.wSome):
		return "#"
	}
	for j := upto - 1; j >= 0; j-- {
		ev := t.Ev[j]
		if ev.Kind == EvAssign && ev.LObj == o && ev.RHS != nil {
			return tv.keyClass(in, t, j, ev.RHS)
		}
	}
	return "?" + o.Name()
}

func (tv *treeVocab) topicClass(in *Interp, t *Trace, upto int, e ast.Expr) string {
	e = ast.Unparen(e)
	if call, ok := e.(*ast.CallExpr); ok {
		if f, ok := in.callee(&state{env: newEnv()}, call).(*types.Func); ok && f == tv.shortFn {
			if len(call.Args) > 0 && in.objOf(call.Args[0]) == tv.topicParam {
				return "shorten(topic)"
			}
		}
		return "?call"
	}
	o := in.objOf(e)
	if o == tv.topicParam {
		return "topic"
	}
	if o != nil {
		for j := upto - 1; j >= 0; j-- {
			ev := t.Ev[j]
			if ev.Kind == EvAssign && ev.LObj == o && ev.RHS != nil {
				return tv.topicClass(in, t, j, ev.RHS)
			}
		}
	}
	return "?"
}

func (tv *treeVocab) row(in *Interp, t *Trace) walkRow {
	w := walkRow{events: rowSet{}, excused: rowSet{}}
	nonEmpty := map[string]bool{} // value lists known to be non-empty on this path
	for i, e := range t.Ev {
		switch {
		case e.Kind == EvCall && e.Callee == types.Object(tv.fnParam):
			arg := ast.Unparen(e.Call.Args[0])
			cls := "?"
			if sel, ok := arg.(*ast.SelectorExpr); ok && in.objOf(sel) == tv.values {
				cls = tv.childClass(in, t, i, sel.X) + ".values"
			}
			w.events["collect "+cls] = true
			if !nonEmpty[cls] {
				w.unguarded = append(w.unguarded, cls)
			}
		case e.Kind == EvCall && e.Callee == types.Object(tv.fi.Obj):
			// recursive descent: find topic and node arguments by type
			topicCls, childCls := "?", "?"
			for _, a := range e.Call.Args {
				switch in.Info.TypeOf(a).Underlying().(type) {
				case *types.Basic:
					topicCls = tv.topicClass(in, t, i, a)
				case *types.Pointer:
					childCls = tv.childClass(in, t, i, a)
				}
			}
			w.events["descend "+childCls+" with "+topicCls] = true
		case e.Kind == EvCond || e.Kind == EvOutcome:
			// classify the undecided condition
			switch {
			case e.Kind == EvOutcome && e.DefCall != nil && e.DefCall.Kind == EvAssert && e.DefCall.CommaOk:
				// comma-ok of a children lookup
				if ix, ok := ast.Unparen(e.DefCall.RHS).(*ast.IndexExpr); ok && in.objOf(ix.X) == tv.children {
					if !e.Outcome {
						w.excused["children["+tv.keyClass(in, t, i, ix.Index)+"]"] = true
					}
					continue
				}
				w.foreign = append(w.foreign, in.P.exprStr(e.Cond))
			case e.Var == types.Object(tv.values):
				// len(X.values) > 0 in some spelling
				base := "?"
				ast.Inspect(e.Cond, func(m ast.Node) bool {
					if sel, ok := m.(*ast.SelectorExpr); ok && in.objOf(sel) == tv.values {
						base = tv.childClass(in, t, i, sel.X)
					}
					return true
				})
				if v, ok := t.Env.vals[tv.values]; ok || true {
					_ = v
				}
				// which side are we on? the refinement recorded it: find via re-evaluation of the outcome
				if isEmptySide(e) {
					w.excused[base+".values"] = true
				} else {
					nonEmpty[base+".values"] = true
				}
			default:
				// result of the collector: `!fn(x)` / `fn(x)`
				if call, ok := ast.Unparen(e.Cond).(*ast.CallExpr); ok && in.objOf(call.Fun) == types.Object(tv.fnParam) {
					if !e.Outcome {
						w.stopped = true
					}
					continue
				}
				w.foreign = append(w.foreign, in.P.exprStr(e.Cond))
			}
		}
	}
	// zero-iteration range over children excuses the every-child descent
	hasRange := false
	ast.Inspect(tv.fi.Decl.Body, func(m ast.Node) bool {
		if rs, ok := m.(*ast.RangeStmt); ok && in.objOf(rs.X) == tv.children {
			hasRange = true
		}
		return true
	})
	if hasRange {
		began := false
		for _, e := range t.Ev {
			if e.Kind == EvLoopBegin {
				began = true
			}
		}
		if !began {
			w.excused["children[*]"] = true
		}
	}
	return w
}

// isEmptySide: the fork on a length condition went to the "empty" side.
func isEmptySide(e *Event) bool {
	// evaluate the condition for an empty list: len == 0
	b, ok := ast.Unparen(e.Cond).(*ast.BinaryExpr)
	if !ok {
		return false
	}
	var k int64
	op := b.Op
	lit := func(x ast.Expr) (int64, bool) {
		if bl, ok := ast.Unparen(x).(*ast.BasicLit); ok && bl.Kind == token.INT {
			var n int64
			fmt.Sscan(bl.Value, &n)
			return n, true
		}
		return 0, false
	}
	if n, ok := lit(b.Y); ok {
		k = n
	} else if n, ok := lit(b.X); ok {
		k = n
		op = flip(op)
	} else {
		return false
	}
	truthForEmpty := cmpInts(op, 0, k)
	return truthForEmpty == e.Outcome
}

func c04Table(c *Ctx, prefix, fname string, ref map[string]rowSet, dontCare map[string]bool) {
	r := c.Rule(prefix, "TRACE(table)", "decision table of "+fname+" equals the MQTT 4.7 reference; missing events only behind benign existence guards; no foreign condition", len(ref)-len(dontCare))
	tv := c.treeVocab(r, fname)
	if tv == nil {
		return
	}
	type valuation struct {
		name    string
		end     bool
		segment string
	}
	vals := []valuation{{"topic=END", true, ""}, {"segment=+", false, "ONE"}, {"segment=#", false, "SOME"}, {"segment=literal", false, "LIT"}}
	for _, vl := range vals {
		if dontCare[vl.name] {
			continue
		}
		init := map[types.Object]Val{tv.topicEnd: vSym("END"), tv.wOne: vSym("ONE"), tv.wSome: vSym("SOME")}
		force := map[types.Object]Val{}
		if vl.end {
			force[tv.topicParam] = vSym("END")
		} else {
			force[tv.topicParam] = vSym("NAME")
		}
		seg := vl.segment
		opts := TraceOpts{Init: init, Force: force, Oracle: func(in *Interp, st *state, e ast.Expr) (Val, bool) {
			if call, ok := ast.Unparen(e).(*ast.CallExpr); ok && seg != "" {
				if f, ok := in.callee(st, call).(*types.Func); ok && f == tv.segFn {
					return vSym(seg), true
				}
			}
			return unknown, false
		}}
		in := c.P.TraceFunc(tv.fi, opts)
		key := fmt.Sprintf("%s@%s", fname, vl.name)
		if c.undecidedIfOver(r, in, key) {
			continue
		}
		want := ref[vl.name]
		may := rowSet{}
		var bad *Trace
		why := ""
		for _, t := range in.Traces {
			w := tv.row(in, t)
			for k := range w.events {
				may[k] = true
			}
			if len(w.foreign) > 0 && bad == nil {
				bad, why = t, "the walk depends on a condition outside the table: "+strings.Join(w.foreign, "; ")
			}
			if len(w.unguarded) > 0 && bad == nil {
				bad, why = t, "the collector is called with a value list that may be empty ("+strings.Join(w.unguarded, ", ")+"): the first-match collectors index element 0 and panic"
			}
			if w.stopped {
				continue
			}
			for k := range want {
				if w.events[k] {
					continue
				}
				// excused?
				ex := false
				for g := range w.excused {
					if strings.Contains(k, g) {
						ex = true
					}
				}
				if !ex && bad == nil {
					bad, why = t, "required event missing without a benign guard: "+k
				}
			}
		}
		if may.String() != want.String() && bad == nil {
			why = "extracted row differs from the reference row"
		}
		r.Check(key, may.String() == want.String() && bad == nil, tv.fi.Decl.Pos(), len(in.Traces),
			fmt.Sprintf("%s; extracted %s; reference %s", why, may, want), c.witness(bad)...)
	}
}

var matchRef = map[string]rowSet{
	"topic=END":       {"collect children[#].values": true, "collect node.values": true},
	"segment=literal": {"collect children[#].values": true, "descend children[+] with shorten(topic)": true, "descend children[seg] with shorten(topic)": true},
	"segment=+":       nil, // don't care: topic names are free of wildcards
	"segment=#":       nil,
}

var searchRef = map[string]rowSet{
	"topic=END":       {"collect node.values": true},
	"segment=#":       {"collect node.values": true, "descend children[*] with topic": true},
	"segment=+":       {"descend children[*] with shorten(topic)": true},
	"segment=literal": {"descend children[seg] with shorten(topic)": true},
}

func c04Seg(c *Ctx, prefix string) {
	r := c.Rule(prefix, "TRACE", "topicSegment/topicShorten split at the first separator; topicShorten yields the end sentinel when no separator is left; add, set, get, remove, match and search all take their level from topicSegment and descend with topicShorten of their own topic (storage and lookup cut a topic into the same levels)", 10)
	for _, name := range []string{"topic.topicSegment", "topic.topicShorten"} {
		fi := c.mustFunc(r, name)
		if fi == nil {
			continue
		}
		sig := fi.Obj.Type().(*types.Signature)
		if sig.Params().Len() != 2 {
			r.Undecided(name, fi.Decl.Pos(), "signature changed")
			continue
		}
		topicP, sepP := sig.Params().At(0), sig.Params().At(1)
		in := c.P.TraceFunc(fi, TraceOpts{})
		helper := &Interp{P: c.P, Info: fi.Pkg.TypesInfo}
		okFound, okMissing := false, false
		nFound, nMissing := 0, 0
		for _, t := range in.Traces {
			// index variable: assigned from strings.Index(topic, separator)
			var idx types.Object
			for i, e := range t.Ev {
				if e.Kind == EvCall {
					if f, ok := e.Callee.(*types.Func); ok && f.Pkg() != nil && f.Pkg().Path() == "strings" && f.Name() == "Index" &&
						helper.objOf(e.Call.Args[0]) == topicP && helper.objOf(e.Call.Args[1]) == sepP {
						for _, a := range t.Ev[i+1:] {
							if a.Kind == EvAssign && ast.Unparen(a.RHS) == ast.Expr(e.Call) {
								idx = a.LObj
							}
						}
					}
				}
			}
			if idx == nil || t.Exit != ExitReturn || len(t.Results) != 1 {
				continue
			}
			// which side: i >= 0 ?
			found := 0
			for _, e := range t.Ev {
				if (e.Kind == EvCond || e.Kind == EvOutcome) && e.Var == idx {
					if b, ok := ast.Unparen(e.Cond).(*ast.BinaryExpr); ok {
						// evaluate cond for i = 0 and i = -1
						op := b.Op
						k, isK := int64(0), false
						if tv, ok := fi.Pkg.TypesInfo.Types[b.Y]; ok && tv.Value != nil {
							if v, ok := constVal(tv); ok && v.K == VInt {
								k, isK = v.I, true
							}
						}
						if !isK {
							continue
						}
						t0, tm1 := cmpInts(op, 0, k), cmpInts(op, -1, k)
						if t0 != tm1 {
							if t0 == e.Outcome {
								found = 1
							} else {
								found = -1
							}
						}
					}
				}
			}
			res := ast.Unparen(t.Results[0])
			switch found {
			case 1:
				nFound++
				sl, ok := res.(*ast.SliceExpr)
				if !ok || helper.objOf(sl.X) != topicP {
					continue
				}
				if name == "topic.topicSegment" {
					if sl.Low == nil && sl.High != nil && helper.objOf(sl.High) == idx {
						okFound = true
					}
				} else {
					// topic[i+1:] or topic[i+len(separator):]
					if b, ok := ast.Unparen(sl.Low).(*ast.BinaryExpr); ok && sl.High == nil && b.Op == token.ADD && helper.objOf(b.X) == idx {
						if tv, ok := fi.Pkg.TypesInfo.Types[b.Y]; ok && tv.Value != nil {
							if v, _ := constVal(tv); v.K == VInt && v.I == 1 {
								okFound = true
							}
						}
						if call, ok := ast.Unparen(b.Y).(*ast.CallExpr); ok && len(call.Args) == 1 && helper.objOf(call.Args[0]) == sepP {
							okFound = true
						}
					}
				}
			case -1:
				nMissing++
				if name == "topic.topicSegment" {
					okMissing = helper.objOf(res) == topicP
				} else {
					okMissing = helper.objOf(res) == c.P.Global("topic", "topicEnd")
				}
			}
		}
		r.Check(name+":separator found", okFound && nFound == 1, fi.Decl.Pos(), len(in.Traces), "with a separator at index i the segment is topic[:i] and the remainder topic[i+1:]")
		r.Check(name+":no separator", okMissing && nMissing == 1, fi.Decl.Pos(), len(in.Traces), "without a separator the segment is the whole topic and the remainder is the end sentinel")
	}
	c04Descent(c, r)
}

// c04Descent: storage side and lookup side must cut the topic into the same levels. Every walker of the trie takes its
// level from the verified topicSegment(topic, t.separator) and recurses with the verified topicShorten(topic,
// t.separator) of its own topic parameter (directly or through a helper that is interpreted in place); no other
// splitting of the topic happens on the path.
func c04Descent(c *Ctx, r *Rule) {
	seg, _ := c.P.Global("topic", "topicSegment").(*types.Func)
	sho, _ := c.P.Global("topic", "topicShorten").(*types.Func)
	sepF := c.P.Field("topic", "Tree", "separator")
	for _, w := range []string{"add", "set", "get", "remove", "match", "search"} {
		fi := c.mustFunc(r, "topic.(*Tree)."+w)
		if fi == nil || seg == nil || sho == nil {
			continue
		}
		sig := fi.Obj.Type().(*types.Signature)
		ti := -1
		for i := 0; i < sig.Params().Len(); i++ {
			if b, ok := sig.Params().At(i).Type().(*types.Basic); ok && b.Kind() == types.String {
				ti = i
			}
		}
		if ti < 0 {
			r.Undecided(fi.Name+":descent", fi.Decl.Pos(), "no topic parameter")
			continue
		}
		topicP := sig.Params().At(ti)
		in := c.traces(fi)
		h := &Interp{P: c.P, Info: fi.Pkg.TypesInfo}
		ok, why, nrec := true, "", 0
		var wit *Trace
		fail := func(t *Trace, msg string) {
			if ok {
				ok, why, wit = false, msg, t
			}
		}
		isOwn := func(e *Event, i int) bool {
			if i < len(e.ArgObjs) && e.ArgObjs[i] == types.Object(topicP) {
				return true
			}
			return i < len(e.Call.Args) && h.objOf(e.Call.Args[i]) == types.Object(topicP)
		}
		for _, t := range in.Traces {
			segSeen, shoSeen := false, false
			for _, e := range t.Ev {
				if e.Kind != EvCall {
					continue
				}
				f, _ := e.Callee.(*types.Func)
				if f == nil {
					continue
				}
				switch {
				case f == seg || f == sho:
					if len(e.Call.Args) != 2 || !isOwn(e, 0) {
						fail(t, FuncName(f)+" is applied to something other than the walker's own topic")
					} else if o := h.objOf(e.Call.Args[1]); o != types.Object(sepF) && (len(e.ArgObjs) < 2 || e.ArgObjs[1] != types.Object(sepF)) {
						fail(t, FuncName(f)+" is not called with the tree's separator")
					}
					if f == seg {
						segSeen = true
					} else {
						shoSeen = true
					}
				case f.Pkg() != nil && f.Pkg().Path() == "strings":
					for i := range e.Call.Args {
						if isOwn(e, i) {
							fail(t, "the topic is split by strings."+f.Name()+" instead of topicSegment/topicShorten: storage and lookup may disagree on the levels")
						}
					}
				case f == fi.Obj:
					nrec++
					// match and search also descend without consuming a level or without looking at it ('#' keeps the
					// topic, '+' ignores the segment): which branch does what is decided by the MATCH/SEARCH tables
					lookup := w == "match" || w == "search"
					if ti < len(e.Call.Args) {
						a := ast.Unparen(e.Call.Args[ti])
						if isOwn(e, ti) {
							if !lookup {
								fail(t, "the walker recurses with its topic unchanged")
							}
							continue
						}
						if !shoSeen || (!segSeen && !lookup) {
							fail(t, "a descent without topicSegment and topicShorten of the current topic")
						}
						if _, isSlice := a.(*ast.SliceExpr); isSlice {
							fail(t, "the walker recurses with a slice of the topic instead of topicShorten(topic)")
						}
					}
				}
			}
		}
		r.Check(fi.Name+":descent by topicSegment/topicShorten", ok && nrec > 0, fi.Decl.Pos(), len(in.Traces), why, c.witness(wit)...)
	}
}

func c04Dedup(c *Ctx, prefix string) {
	r := c.Rule(prefix, "TRACE", "Match, Search and All return the de-duplicated list (result of clean()); clean keeps a value only if not yet contained", 4)
	cleanFn := c.P.Method("topic", "Tree", "clean")
	if cleanFn == nil {
		r.Undecided("topic.(*Tree).clean", 0, "not found")
		return
	}
	for _, name := range []string{"topic.(*Tree).Match", "topic.(*Tree).Search", "topic.(*Tree).All"} {
		fi := c.mustFunc(r, name)
		if fi == nil {
			continue
		}
		in := c.traces(fi)
		ok, n := true, 0
		for _, t := range in.Traces {
			if t.Exit != ExitReturn || len(t.Results) != 1 {
				continue
			}
			n++
			call, isCall := ast.Unparen(t.Results[0]).(*ast.CallExpr)
			if !isCall {
				ok = false
				continue
			}
			f, _ := in.callee(&state{env: newEnv()}, call).(*types.Func)
			if f != cleanFn {
				ok = false
			}
		}
		r.Check(name+":returns clean(...)", ok && n > 0, fi.Decl.Pos(), len(in.Traces), "each value once: the result must pass through clean()")
	}
	fi := c.P.ByObj[cleanFn]
	in := c.traces(fi)
	containsFn, _ := c.P.Global("topic", "contains").(*types.Func)
	okT, okF := false, true
	for _, t := range in.Traces {
		for i, e := range t.Ev {
			if e.Kind == EvCond {
				call, isCall := ast.Unparen(e.Cond).(*ast.CallExpr)
				if !isCall {
					continue
				}
				if f, _ := in.callee(&state{env: newEnv()}, call).(*types.Func); f != containsFn || containsFn == nil {
					continue
				}
				appended := false
				for _, a := range t.Ev[i+1:] {
					if a.Kind == EvLoopEnd {
						break
					}
					if a.Kind == EvCall {
						if b, ok := a.Callee.(*types.Builtin); ok && b.Name() == "append" {
							appended = true
						}
					}
				}
				if e.Outcome && appended {
					okF = false
				}
				if !e.Outcome && appended {
					okT = true
				}
			}
		}
	}
	r.Check(fi.Name+":append iff !contains", okT && okF, fi.Decl.Pos(), len(in.Traces), "a value already in the result must be skipped, a new one appended")
}

func propC04(c *Ctx) string {
	c04Table(c, "C04/MATCH", "topic.(*Tree).match", matchRef, map[string]bool{"segment=+": true, "segment=#": true})
	c04Table(c, "C04/SEARCH", "topic.(*Tree).search", searchRef, nil)
	c04Seg(c, "C04/SEG")
	c04Dedup(c, "C04/DEDUP")
	c04First(c)
	// a lookup can only return what is still stored: removing one filter must not unlink a node that holds values
	c05Prune(c, "C04/PRUNE")
	c.NotDecide("byte-exact comparison of levels (delegated to Go string equality and map lookup)", "that the two tables imply MQTT 3.1.1 §4.7 for all inputs (paper argument in DESIGN.md)",
		"which value MatchFirst/SearchFirst pick when several match", "behaviour for topic names that contain wildcards (outside the property's quantifier)")
	c.Assume("node is the trie node reached by consuming the levels before the current one (kept by the SEG rule: every descent pairs children[segment] with shorten(topic))")
	return c04Explanation
}

// MatchFirst / SearchFirst use the same walkers with a collector that stops.
func c04First(c *Ctx) {
	r := c.Rule("C04/WALKERS", "WHO", "Match/MatchFirst call match, Search/SearchFirst call search, each from the root with the caller's topic", 4)
	pairs := map[string]string{"topic.(*Tree).Match": "match", "topic.(*Tree).MatchFirst": "match", "topic.(*Tree).Search": "search", "topic.(*Tree).SearchFirst": "search"}
	var names []string
	for n := range pairs {
		names = append(names, n)
	}
	sort.Strings(names)
	root := c.P.Field("topic", "Tree", "root")
	for _, n := range names {
		fi := c.mustFunc(r, n)
		if fi == nil {
			continue
		}
		w := c.P.Method("topic", "Tree", pairs[n])
		in := c.traces(fi)
		helper := &Interp{P: c.P, Info: fi.Pkg.TypesInfo}
		ok, cnt := true, 0
		for _, t := range in.Traces {
			i := t.first(callTo(w))
			if i < 0 {
				ok = false
				continue
			}
			cnt++
			e := t.Ev[i]
			sig := fi.Obj.Type().(*types.Signature)
			if len(e.Call.Args) < 2 || helper.objOf(e.Call.Args[0]) != sig.Params().At(0) || helper.objOf(e.Call.Args[1]) != root {
				ok = false
			}
		}
		r.Check(n+"→"+pairs[n]+"(topic, root)", ok && cnt > 0, fi.Decl.Pos(), len(in.Traces), "the public query must start the matching walk at the root with its own topic argument")
	}
}

// ------------------------------------------------------------------ C05

const c05Explanation = "Static analysis of topic/tree.go: (LOCK) must-hold locksets along every path show that each access to Tree.root, node.children, node.values happens under Tree.mutex (exclusive for writes), helpers being reachable only from locked callers; " +
	"(ATOMIC) every exported method has one critical section: acquire first, release only by defer — so operations are serialisable in lock order; (SNAPSHOT) value-origin tracing on SSA shows no exported method returns storage that aliases a node's value list; " +
	"(PRUNE) a node is reported empty — and deleted from its parent — only when it has neither values nor children; (ADDSET) add() skips duplicates, set() replaces the list. Equality with the map model over histories is functional correctness and is not decided."

func topicGuards(c *Ctx) map[*types.Var]guardSpec {
	mu := c.P.Field("topic", "Tree", "mutex")
	g := map[*types.Var]guardSpec{}
	if mu == nil {
		return g
	}
	for _, f := range []*types.Var{c.P.Field("topic", "Tree", "root"), c.P.Field("topic", "node", "children"), c.P.Field("topic", "node", "values")} {
		if f != nil {
			g[f] = guardSpec{mutex: mu, reason: "tree state"}
		}
	}
	return g
}

// topicMutableFields: every other field of Tree / node that some non-constructor function of package topic writes
// (assignment, element assignment, ++/--, delete, append-assign): shared mutable state that needs the same lock
// (a scratch map reused between queries, a cached result, a counter).
func topicMutableFields(c *Ctx, have map[*types.Var]guardSpec) []*types.Var {
	owner := map[*types.Var]bool{}
	for _, tn := range []string{"Tree", "node"} {
		if n := c.P.Named("topic", tn); n != nil {
			if st, ok := n.Underlying().(*types.Struct); ok {
				for i := 0; i < st.NumFields(); i++ {
					owner[st.Field(i)] = true
				}
			}
		}
	}
	seen := map[*types.Var]bool{}
	var out []*types.Var
	for _, fi := range c.P.Funcs {
		if shortPkg(fi.Pkg.PkgPath) != "topic" || fi.Decl.Body == nil {
			continue
		}
		h := &Interp{P: c.P, Info: fi.Pkg.TypesInfo}
		mark := func(e ast.Expr) {
			for {
				switch x := ast.Unparen(e).(type) {
				case *ast.IndexExpr:
					e = x.X
					continue
				case *ast.StarExpr:
					e = x.X
					continue
				case *ast.SelectorExpr:
					if fv, ok := h.rawObjOf(x).(*types.Var); ok && fv.IsField() && owner[fv] {
						if _, guarded := have[fv]; !guarded && !seen[fv] {
							if _, isMu := fv.Type().Underlying().(*types.Struct); !isMu || !strings.Contains(fv.Type().String(), "sync.") {
								seen[fv] = true
								out = append(out, fv)
							}
						}
					}
				}
				return
			}
		}
		ast.Inspect(fi.Decl.Body, func(m ast.Node) bool {
			switch x := m.(type) {
			case *ast.CompositeLit:
				return false // constructor-style initialisation
			case *ast.AssignStmt:
				for _, l := range x.Lhs {
					mark(l)
				}
			case *ast.IncDecStmt:
				mark(x.X)
			case *ast.CallExpr:
				if id, ok := x.Fun.(*ast.Ident); ok && id.Name == "delete" && len(x.Args) == 2 {
					mark(x.Args[0])
				}
			}
			return true
		})
	}
	sort.Slice(out, func(i, j int) bool { return out[i].Name() < out[j].Name() })
	return out
}

func propC05(c *Ctx) string {
	// LOCK
	r := c.Rule("C05/LOCK", "LOCK", "every access to Tree.root, node.children, node.values holds Tree.mutex (W for writes) on every path; unexported helpers inherit the intersection of their call sites", 25)
	guards := topicGuards(c)
	if len(guards) != 3 {
		r.Undecided("topic guards", 0, "fields root/children/values or Tree.mutex not found")
	} else {
		for _, f := range topicMutableFields(c, guards) {
			guards[f] = guardSpec{mutex: guards[c.P.Field("topic", "Tree", "root")].mutex, reason: "mutable field of the tree written outside constructors"}
		}
		res := c.lockAnalysis("topic", guards, nil, 0)
		n := c.judgeLocks(r, res, guards, nil)
		_ = n
	}
	c05Atomic(c)
	c05Snapshot(c)
	c05Prune(c, "C05/PRUNE")
	c05AddSet(c)
	// the queries of the map model are answered by the two walkers
	c04Seg(c, "C05/SEG")
	c04Table(c, "C05/MATCH", "topic.(*Tree).match", matchRef, map[string]bool{"segment=+": true, "segment=#": true})
	c04Table(c, "C05/SEARCH", "topic.(*Tree).search", searchRef, nil)
	c.NotDecide("equality of every query answer with the map model after arbitrary histories (functional correctness over histories)",
		"data-race freedom of callers that mutate stored values themselves", "that removeValue finds the value (uses ==)")
	c.Assume("lock keys are instance-insensitive: no function of package topic touches two trees", "sync.RWMutex is correct")
	return c05Explanation
}

func c05Atomic(c *Ctx) {
	r := c.Rule("C05/ATOMIC", "TRACE", "every exported *Tree method that reaches tree state: exactly one acquire, first event on every path, released only through defer", 14)
	n := c.P.Named("topic", "Tree")
	if n == nil {
		r.Undecided("topic.Tree", 0, "type not found")
		return
	}
	mu := c.P.Field("topic", "Tree", "mutex")
	for i := 0; i < n.NumMethods(); i++ {
		m := n.Method(i)
		if !m.Exported() {
			continue
		}
		fi := c.P.ByObj[m]
		if fi == nil || fi.Decl.Body == nil {
			continue
		}
		in := c.traces(fi)
		ok := true
		why := ""
		var w *Trace
		for _, t := range in.Traces {
			acq, rel := 0, 0
			firstIsAcq := false
			seenOther := false
			for _, e := range t.Ev {
				if mo, op := c.mutexOp(in, e); mo == mu && mo != nil {
					switch op {
					case "Lock", "RLock":
						if e.Kind == EvCall && !e.Deferred {
							acq++
							if !seenOther && acq == 1 {
								firstIsAcq = true
							}
						}
					case "Unlock", "RUnlock":
						if e.Kind == EvCall {
							rel++
							if !e.Deferred {
								ok, why, w = false, "explicit (non-deferred) unlock splits the critical section", t
							}
						}
					}
					continue
				}
				if e.Kind == EvCall || e.Kind == EvAssign || e.Kind == EvAccess {
					seenOther = true
				}
			}
			if acq != 1 || rel != 1 || !firstIsAcq {
				ok, why, w = false, fmt.Sprintf("acquires=%d releases=%d acquire-first=%v", acq, rel, firstIsAcq), t
			}
		}
		r.Check(fi.Name+":single critical section", ok && len(in.Traces) > 0, fi.Decl.Pos(), len(in.Traces), why, c.witness(w)...)
	}
}

func c05Snapshot(c *Ctx) {
	r := c.Rule("C05/SNAPSHOT", "ORIGIN", "no exported *Tree method returns a slice that aliases a node's value list (results are snapshots)", 4)
	n := c.P.Named("topic", "Tree")
	values := c.P.Field("topic", "node", "values")
	if n == nil || values == nil {
		r.Undecided("topic.Tree", 0, "type or field not found")
		return
	}
	for i := 0; i < n.NumMethods(); i++ {
		m := n.Method(i)
		if !m.Exported() {
			continue
		}
		sig := m.Type().(*types.Signature)
		if sig.Results().Len() != 1 {
			continue
		}
		if _, isSlice := sig.Results().At(0).Type().Underlying().(*types.Slice); !isSlice {
			continue
		}
		fi := c.P.ByObj[m]
		if fi == nil {
			continue
		}
		c.Touch(fi.Name)
		fn := c.P.SSAFunc(fi)
		if fn == nil {
			r.Undecided(fi.Name, fi.Decl.Pos(), "no SSA function")
			continue
		}
		ot := c.P.newOriginTracer()
		os := ot.returnOrigins(fn, 0)
		alias := aliasesField(os, values)
		unk := false
		for _, o := range os {
			if o.Kind == OUnknown {
				unk = true
			}
		}
		if unk && !alias {
			r.Undecided(fi.Name+":result origin", fi.Decl.Pos(), "origin of the returned slice cannot be traced: "+strings.Join(originStrings(os), ", "))
			continue
		}
		r.Check(fi.Name+":result is a snapshot", !alias, fi.Decl.Pos(), ot.work,
			"the returned slice shares the node's backing array, which removeValue edits in place: a later Remove alters a result already returned. origins: "+strings.Join(originStrings(os), ", "))
	}
}

func c05Prune(c *Ctx, rule string) {
	r := c.Rule(rule, "TRACE(table)", "a pruning helper (result guards delete(node.children,…)) reports true only when the node has neither values nor children; delete happens only on a true report for the same child key", 6)
	values := c.P.Field("topic", "node", "values")
	children := c.P.Field("topic", "node", "children")
	// pruning helpers: unexported methods returning bool whose callers delete from children on true
	var helpers []*FuncInfo
	for _, fi := range c.P.LibFuncs("topic") {
		sig := fi.Obj.Type().(*types.Signature)
		if sig.Results().Len() != 1 || fi.Decl.Body == nil {
			continue
		}
		if b, ok := sig.Results().At(0).Type().Underlying().(*types.Basic); !ok || b.Kind() != types.Bool {
			continue
		}
		hasDelete := false
		ast.Inspect(fi.Decl.Body, func(m ast.Node) bool {
			if call, ok := m.(*ast.CallExpr); ok {
				if id, ok := call.Fun.(*ast.Ident); ok && id.Name == "delete" && len(call.Args) == 2 {
					if (&Interp{P: c.P, Info: fi.Pkg.TypesInfo}).objOf(call.Args[0]) == children {
						hasDelete = true
					}
				}
			}
			return true
		})
		if hasDelete {
			helpers = append(helpers, fi)
		}
	}
	if len(helpers) == 0 {
		r.Undecided("topic pruning helpers", 0, "no function deletes from node.children")
		return
	}
	for _, fi := range helpers {
		c.Touch(fi.Name)
		for _, ve := range []bool{true, false} {
			for _, ce := range []bool{true, false} {
				vv, cv := Val{K: VNonEmpty}, Val{K: VNonEmpty}
				if ve {
					vv = Val{K: VEmpty}
				}
				if ce {
					cv = Val{K: VEmpty}
				}
				in := c.P.TraceFunc(fi, TraceOpts{Force: map[types.Object]Val{values: vv, children: cv}})
				key := fmt.Sprintf("%s@values=%s,children=%s", fi.Name, vv, cv)
				if c.undecidedIfOver(r, in, key) {
					continue
				}
				var bad *Trace
				why := ""
				nret := 0
				for _, t := range in.Traces {
					if t.Exit != ExitReturn || len(t.RVals) != 1 {
						continue
					}
					nret++
					switch {
					case t.RVals[0].K != VBool:
						bad, why = t, "the emptiness report is not decidable from (values, children): "+c.P.exprStr(t.Results[0])
					case t.RVals[0].B && !(ve && ce):
						bad, why = t, "node reported empty although it still has values or children: its parent deletes it together with what it holds"
					}
				}
				// range over children with Force(children)=empty yields no body; fine
				r.Check(key, bad == nil && nret > 0, fi.Decl.Pos(), len(in.Traces), why, c.witness(bad)...)
			}
		}
		// delete only under a true report of a pruning helper, same key as the descent
		in := c.P.TraceFunc(fi, TraceOpts{})
		var bad *Trace
		nDel := 0
		helper := &Interp{P: c.P, Info: fi.Pkg.TypesInfo}
		for _, t := range in.Traces {
			for i, e := range t.Ev {
				if e.Kind != EvCall {
					continue
				}
				if b, ok := e.Callee.(*types.Builtin); !ok || b.Name() != "delete" || helper.objOf(e.Call.Args[0]) != children {
					continue
				}
				nDel++
				guarded := false
				for j := i - 1; j >= 0; j-- {
					p := t.Ev[j]
					if p.Kind == EvLoopBegin {
						break
					}
					if p.Kind == EvCond && p.Outcome {
						if call, ok := ast.Unparen(p.Cond).(*ast.CallExpr); ok {
							if f, ok := helper.callee(&state{env: newEnv()}, call).(*types.Func); ok {
								for _, h := range helpers {
									if h.Obj == f {
										guarded = true
									}
								}
							}
						}
						break
					}
				}
				if !guarded {
					bad = t
				}
			}
		}
		r.Check(fi.Name+":delete iff child reported empty", bad == nil && nDel > 0, fi.Decl.Pos(), len(in.Traces), "delete(node.children, key) must be guarded by the recursive emptiness report", c.witness(bad)...)
	}
}

func c05AddSet(c *Ctx) {
	r := c.Rule("C05/ADDSET", "TRACE", "add() appends only when no equal value is present; set() replaces the list by exactly the new value; both only at the end of the topic", 2)
	values := c.P.Field("topic", "node", "values")
	topicEnd := c.P.Global("topic", "topicEnd")
	for _, name := range []string{"topic.(*Tree).add", "topic.(*Tree).set"} {
		fi := c.mustFunc(r, name)
		if fi == nil {
			continue
		}
		sig := fi.Obj.Type().(*types.Signature)
		var topicP, valueP *types.Var
		for i := 0; i < sig.Params().Len(); i++ {
			p := sig.Params().At(i)
			if b, ok := p.Type().Underlying().(*types.Basic); ok && b.Info()&types.IsString != 0 {
				topicP = p
			}
			if _, ok := p.Type().Underlying().(*types.Interface); ok {
				valueP = p
			}
		}
		if topicP == nil || valueP == nil {
			r.Undecided(name, fi.Decl.Pos(), "parameters not identified")
			continue
		}
		helper := &Interp{P: c.P, Info: fi.Pkg.TypesInfo}
		// not at the end: no write to values
		in := c.P.TraceFunc(fi, TraceOpts{Init: map[types.Object]Val{topicEnd: vSym("END")}, Force: map[types.Object]Val{topicP: vSym("NAME")}})
		okMid := true
		for _, t := range in.Traces {
			if t.has(storeTo(values)) {
				okMid = false
			}
		}
		in = c.P.TraceFunc(fi, TraceOpts{Init: map[types.Object]Val{topicEnd: vSym("END")}, Force: map[types.Object]Val{topicP: vSym("END")}})
		okEnd := true
		why := ""
		nw := 0
		var bad *Trace
		for _, t := range in.Traces {
			w := t.first(storeTo(values))
			if name == "topic.(*Tree).set" {
				if w < 0 {
					okEnd, why, bad = false, "set() path without replacing the value list", t
					continue
				}
				nw++
				cl, ok := ast.Unparen(t.Ev[w].RHS).(*ast.CompositeLit)
				if !ok || len(cl.Elts) != 1 || helper.objOf(cl.Elts[0]) != valueP {
					okEnd, why, bad = false, "set() must store exactly []interface{}{value}", t
				}
				continue
			}
			// add: if an equality test with the value was true on the path, no append
			dup := false
			for _, e := range t.Ev {
				if e.Kind == EvCond && e.Outcome {
					if b, ok := ast.Unparen(e.Cond).(*ast.BinaryExpr); ok && b.Op == token.EQL && (helper.objOf(b.X) == valueP || helper.objOf(b.Y) == valueP) {
						dup = true
					}
					// a call of a membership predicate with (node.values, value)
					if call, ok := ast.Unparen(e.Cond).(*ast.CallExpr); ok && len(call.Args) == 2 {
						if f, ok := typeutilCallee(fi.Pkg.TypesInfo, call).(*types.Func); ok && c.isMembershipPredicate(f) &&
							helper.objOf(call.Args[0]) == types.Object(values) && helper.objOf(call.Args[1]) == types.Object(valueP) {
							dup = true
						}
					}
				}
			}
			if dup && w >= 0 {
				okEnd, why, bad = false, "add() appends although an equal value was found", t
			}
			if !dup {
				if w < 0 {
					okEnd, why, bad = false, "add() path without duplicate and without append", t
				} else {
					nw++
					call, ok := ast.Unparen(t.Ev[w].RHS).(*ast.CallExpr)
					if !ok || len(call.Args) != 2 || helper.objOf(call.Args[0]) != values || helper.objOf(call.Args[1]) != valueP {
						okEnd, why, bad = false, "add() must append(node.values, value)", t
					}
				}
			}
		}
		r.Check(name, okMid && okEnd && nw > 0, fi.Decl.Pos(), len(in.Traces), why, c.witness(bad)...)
	}
}

var _ = ssa.BuilderMode(0)

// c04CollectGuard (for C14): the collectors of MatchFirst/SearchFirst index element 0; match and search must
// never hand them an empty list (a filter such as a/#/b leaves a '#' node without values behind).
func c04CollectGuard(c *Ctx) {
	c04Table(c, "C14/MATCH", "topic.(*Tree).match", matchRef, map[string]bool{"segment=+": true, "segment=#": true})
	c04Table(c, "C14/SEARCH", "topic.(*Tree).search", searchRef, nil)
}

// isMembershipPredicate: f(list, value) bool returns true exactly on the paths on which an element of list compared
// equal to value (decided on f's own traces).
func (c *Ctx) isMembershipPredicate(f *types.Func) bool {
	fi := c.P.ByObj[f]
	if fi == nil || fi.Decl.Body == nil {
		return false
	}
	sig := f.Type().(*types.Signature)
	if sig.Params().Len() != 2 || sig.Results().Len() != 1 {
		return false
	}
	if _, ok := sig.Params().At(0).Type().Underlying().(*types.Slice); !ok {
		return false
	}
	listP, valueP := sig.Params().At(0), sig.Params().At(1)
	h := &Interp{P: c.P, Info: fi.Pkg.TypesInfo}
	in := c.P.TraceFunc(fi, TraceOpts{})
	if in.Over || len(in.Traces) == 0 {
		return false
	}
	nTrue := 0
	for _, t := range in.Traces {
		if t.Exit != ExitReturn || len(t.RVals) != 1 || t.RVals[0].K != VBool {
			return false
		}
		found := false
		for i, e := range t.Ev {
			if e.Kind != EvCond || !e.Outcome {
				continue
			}
			b, ok := ast.Unparen(e.Cond).(*ast.BinaryExpr)
			if !ok || b.Op != token.EQL {
				continue
			}
			x, y := h.objOf(b.X), h.objOf(b.Y)
			if y != types.Object(valueP) {
				x, y = y, x
			}
			if y != types.Object(valueP) || x == nil {
				continue
			}
			// x is the element variable of a range over the list parameter
			for _, l := range t.loopsAt(i) {
				if rs, ok := l.(*ast.RangeStmt); ok && h.objOf(rs.X) == types.Object(listP) && rs.Value != nil && h.objOf(rs.Value) == x {
					found = true
				}
			}
		}
		if t.RVals[0].B != found {
			return false
		}
		if found {
			nTrue++
		}
	}
	return nTrue > 0
}
