package main

// Canonicalisation at parse time (before type checking), so that every engine sees one spelling of two common,
// behaviour-preserving loop forms (DESIGN.md section 13):
//
//   for i := 0; i < len(C); i++ { … C[i] … }     →   for i, elem_N := range C { … elem_N … }
//   for k, v := range f(x) { … }                  →   { rng_N := f(x); for k, v := range rng_N { … } }
//   if a, ok := E.(T); ok { A } else if b, ok := E.(U); ok { B } else { C }
//                                                 →   switch tsw_N := E.(type) { case T: A; case U: B; default: C }
//
// The first rewrite is applied only when it is meaning-preserving for the analyses: C is a plain name or field
// selection, the body neither assigns i nor C nor an element of C, takes no address of i or of an element, and has
// no function literal. Anything else (other start index, other bound, a decrementing loop …) is left as written
// and is therefore NOT treated as "a loop over every element of C" by the rules.

import (
	"fmt"
	"go/ast"
	"go/token"
)

func canonicalize(fset *token.FileSet, f *ast.File) {
	ast.Inspect(f, func(n ast.Node) bool {
		switch x := n.(type) {
		case *ast.BlockStmt:
			x.List = canonList(fset, x.List)
		case *ast.CaseClause:
			x.Body = canonList(fset, x.Body)
		case *ast.CommClause:
			x.Body = canonList(fset, x.Body)
		}
		return true
	})
}

func canonList(fset *token.FileSet, list []ast.Stmt) []ast.Stmt {
	for i, s := range list {
		switch x := s.(type) {
		case *ast.ForStmt:
			if r := indexLoopToRange(fset, x); r != nil {
				list[i] = r
			}
		case *ast.IfStmt:
			if r := assertChainToTypeSwitch(fset, x); r != nil {
				list[i] = r
			}
		case *ast.RangeStmt:
			keyOnlyRange(fset, x)
			if call, ok := ast.Unparen(x.X).(*ast.CallExpr); ok {
				name := fmt.Sprintf("rng_%d", fset.Position(x.Pos()).Line)
				tmp := &ast.Ident{NamePos: call.Pos(), Name: name}
				def := &ast.AssignStmt{Lhs: []ast.Expr{tmp}, TokPos: call.Pos(), Tok: token.DEFINE, Rhs: []ast.Expr{x.X}}
				x.X = &ast.Ident{NamePos: call.Pos(), Name: name}
				list[i] = &ast.BlockStmt{Lbrace: x.Pos(), List: []ast.Stmt{def, x}, Rbrace: x.End()}
			}
		}
	}
	return list
}

func sameExpr(a, b ast.Expr) bool {
	switch x := a.(type) {
	case *ast.Ident:
		y, ok := b.(*ast.Ident)
		return ok && x.Name == y.Name
	case *ast.SelectorExpr:
		y, ok := b.(*ast.SelectorExpr)
		return ok && x.Sel.Name == y.Sel.Name && sameExpr(x.X, y.X)
	case *ast.ParenExpr:
		return sameExpr(x.X, b)
	}
	if p, ok := b.(*ast.ParenExpr); ok {
		return sameExpr(a, p.X)
	}
	return false
}

func plainName(e ast.Expr) bool {
	switch x := e.(type) {
	case *ast.Ident:
		return true
	case *ast.SelectorExpr:
		return plainName(x.X)
	}
	return false
}

func indexLoopToRange(fset *token.FileSet, x *ast.ForStmt) ast.Stmt {
	init, ok := x.Init.(*ast.AssignStmt)
	if !ok || init.Tok != token.DEFINE || len(init.Lhs) != 1 || len(init.Rhs) != 1 {
		return nil
	}
	iv, ok := init.Lhs[0].(*ast.Ident)
	if !ok || iv.Name == "_" {
		return nil
	}
	if lit, ok := init.Rhs[0].(*ast.BasicLit); !ok || lit.Kind != token.INT || lit.Value != "0" {
		return nil
	}
	cond, ok := x.Cond.(*ast.BinaryExpr)
	if !ok || cond.Op != token.LSS {
		return nil
	}
	if ci, ok := cond.X.(*ast.Ident); !ok || ci.Name != iv.Name {
		return nil
	}
	lc, ok := cond.Y.(*ast.CallExpr)
	if !ok || len(lc.Args) != 1 {
		return nil
	}
	if fn, ok := lc.Fun.(*ast.Ident); !ok || fn.Name != "len" {
		return nil
	}
	coll := lc.Args[0]
	if !plainName(coll) {
		return nil
	}
	post, ok := x.Post.(*ast.IncDecStmt)
	if !ok || post.Tok != token.INC {
		return nil
	}
	if pi, ok := post.X.(*ast.Ident); !ok || pi.Name != iv.Name {
		return nil
	}
	isElem := func(e ast.Expr) bool {
		ix, ok := ast.Unparen(e).(*ast.IndexExpr)
		if !ok {
			return false
		}
		id, ok := ix.Index.(*ast.Ident)
		return ok && id.Name == iv.Name && sameExpr(ix.X, coll)
	}
	rootIs := func(e ast.Expr, name ast.Expr) bool {
		// e is name, or an element / field path below name
		for {
			switch y := ast.Unparen(e).(type) {
			case *ast.IndexExpr:
				if sameExpr(y.X, name) {
					return true
				}
				e = y.X
			case *ast.SelectorExpr:
				if sameExpr(y, name) {
					return true
				}
				e = y.X
			case *ast.StarExpr:
				e = y.X
			case *ast.Ident:
				return sameExpr(y, name)
			default:
				return false
			}
		}
	}
	safe := true
	ast.Inspect(x.Body, func(n ast.Node) bool {
		switch y := n.(type) {
		case *ast.FuncLit:
			safe = false
		case *ast.AssignStmt:
			for _, l := range y.Lhs {
				if id, ok := l.(*ast.Ident); ok && id.Name == iv.Name {
					safe = false
				}
				if rootIs(l, coll) {
					safe = false
				}
			}
		case *ast.IncDecStmt:
			if id, ok := y.X.(*ast.Ident); ok && id.Name == iv.Name {
				safe = false
			}
			if rootIs(y.X, coll) {
				safe = false
			}
		case *ast.UnaryExpr:
			if y.Op == token.AND {
				if id, ok := ast.Unparen(y.X).(*ast.Ident); ok && id.Name == iv.Name {
					safe = false
				}
				if rootIs(y.X, coll) {
					safe = false
				}
			}
		case *ast.RangeStmt:
			if y.Tok == token.ASSIGN {
				safe = false
			}
		}
		return safe
	})
	if !safe {
		return nil
	}
	// replace C[i] by the element variable
	name := fmt.Sprintf("elem_%d", fset.Position(x.Pos()).Line)
	usedElem := false
	var repl func(n ast.Node)
	replExpr := func(e ast.Expr) ast.Expr {
		if isElem(e) {
			usedElem = true
			return &ast.Ident{NamePos: e.Pos(), Name: name}
		}
		return e
	}
	repl = func(n ast.Node) {
		ast.Inspect(n, func(m ast.Node) bool {
			switch y := m.(type) {
			case *ast.SelectorExpr:
				y.X = replExpr(y.X)
			case *ast.IndexExpr:
				y.X = replExpr(y.X)
				y.Index = replExpr(y.Index)
			case *ast.CallExpr:
				for i := range y.Args {
					y.Args[i] = replExpr(y.Args[i])
				}
			case *ast.AssignStmt:
				for i := range y.Rhs {
					y.Rhs[i] = replExpr(y.Rhs[i])
				}
			case *ast.BinaryExpr:
				y.X, y.Y = replExpr(y.X), replExpr(y.Y)
			case *ast.UnaryExpr:
				y.X = replExpr(y.X)
			case *ast.ParenExpr:
				y.X = replExpr(y.X)
			case *ast.StarExpr:
				y.X = replExpr(y.X)
			case *ast.ReturnStmt:
				for i := range y.Results {
					y.Results[i] = replExpr(y.Results[i])
				}
			case *ast.SendStmt:
				y.Value = replExpr(y.Value)
			case *ast.KeyValueExpr:
				y.Value = replExpr(y.Value)
			case *ast.CompositeLit:
				for i := range y.Elts {
					y.Elts[i] = replExpr(y.Elts[i])
				}
			case *ast.SwitchStmt:
				if y.Tag != nil {
					y.Tag = replExpr(y.Tag)
				}
			case *ast.IfStmt:
				y.Cond = replExpr(y.Cond)
			case *ast.ExprStmt:
				y.X = replExpr(y.X)
			case *ast.TypeAssertExpr:
				y.X = replExpr(y.X)
			case *ast.RangeStmt:
				y.X = replExpr(y.X)
			case *ast.SliceExpr:
				y.X = replExpr(y.X)
			}
			return true
		})
	}
	repl(x.Body)
	// is the index still used?
	usedIdx := false
	ast.Inspect(x.Body, func(n ast.Node) bool {
		if id, ok := n.(*ast.Ident); ok && id.Name == iv.Name {
			usedIdx = true
		}
		return true
	})
	rs := &ast.RangeStmt{For: x.For, TokPos: init.TokPos, Tok: token.DEFINE, X: coll, Body: x.Body}
	if usedIdx {
		rs.Key = &ast.Ident{NamePos: iv.NamePos, Name: iv.Name}
	} else {
		rs.Key = &ast.Ident{NamePos: iv.NamePos, Name: "_"}
	}
	if usedElem {
		rs.Value = &ast.Ident{NamePos: init.TokPos, Name: name}
	} else if !usedIdx {
		rs.Key = nil
		rs.Tok = token.ILLEGAL
	}
	return rs
}

// keyOnlyRange: for i := range C { … C[i] … }  →  for i, elem_N := range C { … elem_N … } (same conditions).
func keyOnlyRange(fset *token.FileSet, x *ast.RangeStmt) {
	if x.Value != nil || x.Key == nil || x.Tok != token.DEFINE || !plainName(x.X) {
		return
	}
	iv, ok := x.Key.(*ast.Ident)
	if !ok || iv.Name == "_" {
		return
	}
	// reuse the index-loop machinery on an equivalent for statement, then take over its result
	fs := &ast.ForStmt{For: x.For,
		Init: &ast.AssignStmt{Lhs: []ast.Expr{&ast.Ident{NamePos: iv.NamePos, Name: iv.Name}}, TokPos: x.TokPos, Tok: token.DEFINE, Rhs: []ast.Expr{&ast.BasicLit{Kind: token.INT, Value: "0"}}},
		Cond: &ast.BinaryExpr{X: &ast.Ident{Name: iv.Name}, Op: token.LSS, Y: &ast.CallExpr{Fun: &ast.Ident{Name: "len"}, Args: []ast.Expr{x.X}}},
		Post: &ast.IncDecStmt{X: &ast.Ident{Name: iv.Name}, Tok: token.INC},
		Body: x.Body}
	if r, ok := indexLoopToRange(fset, fs).(*ast.RangeStmt); ok && r != nil && r.Value != nil {
		x.Key, x.Value = r.Key, r.Value
	}
}

// assertChainToTypeSwitch rewrites a chain of two or more comma-ok type assertions on the same plain expression into
// the type switch it spells out. It declines (returns nil) when a binding or the ok variable is used outside the
// branch it guards, which a type switch cannot express.
func assertChainToTypeSwitch(fset *token.FileSet, x *ast.IfStmt) ast.Stmt {
	type link struct {
		is   *ast.IfStmt
		bind *ast.Ident
		ok   *ast.Ident
		typ  ast.Expr
	}
	var links []link
	var subject ast.Expr
	var deflt *ast.BlockStmt
	for cur := x; cur != nil; {
		as, ok := cur.Init.(*ast.AssignStmt)
		if !ok || as.Tok != token.DEFINE || len(as.Lhs) != 2 || len(as.Rhs) != 1 {
			return nil
		}
		ta, ok := as.Rhs[0].(*ast.TypeAssertExpr)
		if !ok || ta.Type == nil || !plainName(ta.X) {
			return nil
		}
		b, ok1 := as.Lhs[0].(*ast.Ident)
		o, ok2 := as.Lhs[1].(*ast.Ident)
		c, ok3 := cur.Cond.(*ast.Ident)
		if !ok1 || !ok2 || !ok3 || o.Name == "_" || c.Name != o.Name {
			return nil
		}
		if subject == nil {
			subject = ta.X
		} else if !sameExpr(subject, ta.X) {
			return nil
		}
		links = append(links, link{cur, b, o, ta.Type})
		switch e := cur.Else.(type) {
		case nil:
			cur = nil
		case *ast.IfStmt:
			cur = e
		case *ast.BlockStmt:
			deflt = e
			cur = nil
		default:
			return nil
		}
	}
	if len(links) < 2 {
		return nil
	}
	name := fmt.Sprintf("tsw_%d", fset.Position(x.Pos()).Line)
	used := false
	for _, l := range links {
		bad := false
		ast.Inspect(x, func(n ast.Node) bool {
			id, ok := n.(*ast.Ident)
			if !ok || id.Obj == nil {
				return !bad
			}
			inBody := l.is.Body.Pos() <= id.Pos() && id.Pos() < l.is.Body.End()
			switch {
			case id.Obj == l.ok.Obj && id != l.ok && id != l.is.Cond:
				bad = true
			case id.Obj == l.bind.Obj && id != l.bind && l.bind.Name != "_":
				if !inBody {
					bad = true
				}
			}
			return !bad
		})
		if bad {
			return nil
		}
	}
	var clauses []ast.Stmt
	for _, l := range links {
		if l.bind.Name != "_" {
			obj := l.bind.Obj
			ast.Inspect(l.is.Body, func(n ast.Node) bool {
				if id, ok := n.(*ast.Ident); ok && id.Obj == obj && obj != nil {
					id.Name = name
					used = true
				}
				return true
			})
		}
		clauses = append(clauses, &ast.CaseClause{Case: l.is.Pos(), List: []ast.Expr{l.typ}, Colon: l.is.Body.Lbrace, Body: l.is.Body.List})
	}
	if deflt != nil {
		clauses = append(clauses, &ast.CaseClause{Case: deflt.Pos(), Colon: deflt.Lbrace, Body: deflt.List})
	}
	ta := &ast.TypeAssertExpr{X: subject, Lparen: subject.End()}
	var assign ast.Stmt = &ast.ExprStmt{X: ta}
	if used {
		assign = &ast.AssignStmt{Lhs: []ast.Expr{&ast.Ident{NamePos: x.Pos(), Name: name}}, TokPos: x.Pos(), Tok: token.DEFINE, Rhs: []ast.Expr{ta}}
	}
	return &ast.TypeSwitchStmt{Switch: x.Pos(), Assign: assign, Body: &ast.BlockStmt{Lbrace: x.Body.Lbrace, List: clauses, Rbrace: x.End()}}
}
