package main

// Robustness against behaviour-preserving refactorings (DESIGN.md section 13):
//   * NEW helpers: an unexported function of a library package that is not in knownFuncs was extracted from
//     code the rules were written against; the TRACE engine inlines it (statement position and conditions), so
//     its statements are seen in the caller where they used to be.
//   * ALIASES: objOf resolves (a) a local variable that is defined once from a plain identifier / field
//     selection and never assigned again (a named local for a repeated expression) to what it names, and (b) a
//     parameter of a NEW helper to the argument object when every call site passes the same object.

import (
	"go/ast"
	"go/token"
	"go/types"
	"sort"
	"strings"
)

func (p *Program) buildAliases() {
	p.NewFuncs = map[*types.Func]bool{}
	p.Alias = map[types.Object]types.Object{}
	p.AliasExpr = map[types.Object]ast.Expr{}
	lib := map[string]bool{}
	for _, l := range libPkgs {
		lib[l] = true
	}
	p.buildRenames()
	renamedTo := map[string]bool{}
	for _, n := range p.RenamedFunc {
		renamedTo[n] = true
	}
	for _, fi := range p.Funcs {
		if !lib[shortPkg(fi.Pkg.PkgPath)] {
			continue
		}
		if !knownFuncs[fi.Name] && !fi.Obj.Exported() && fi.Decl.Body != nil && !renamedTo[fi.Name] {
			p.NewFuncs[fi.Obj] = true
		}
	}
	h := func(fi *FuncInfo) *Interp { return &Interp{P: p, Info: fi.Pkg.TypesInfo} }
	// a NEW helper is only treated as such when every reference to it is a call in a position the TRACE engine
	// inlines (statement, sole right-hand side, sole return operand, condition); otherwise its body would be
	// invisible, so it stays an ordinary (unknown) function analysed on its own
	for _, fi := range p.Funcs {
		if fi.Decl.Body == nil {
			continue
		}
		in := h(fi)
		var stack []ast.Node
		ast.Inspect(fi.Decl.Body, func(m ast.Node) bool {
			if m == nil {
				stack = stack[:len(stack)-1]
				return true
			}
			stack = append(stack, m)
			switch x := m.(type) {
			case *ast.Ident:
				if f, ok := in.Info.Uses[x].(*types.Func); ok && p.NewFuncs[f] {
					// find the enclosing call whose Fun this identifier is
					ok2 := false
					for i := len(stack) - 2; i >= 0; i-- {
						switch pn := stack[i].(type) {
						case *ast.SelectorExpr, *ast.ParenExpr:
							continue
						case *ast.CallExpr:
							if containsNode(pn.Fun, x) {
								ok2 = inlinePosition(stack[:i+1])
							}
						}
						break
					}
					if !ok2 {
						delete(p.NewFuncs, f)
					}
				}
			}
			return true
		})
	}
	// (a) single-definition locals
	for _, fi := range p.Funcs {
		if fi.Decl.Body == nil || !lib[shortPkg(fi.Pkg.PkgPath)] {
			continue
		}
		in := h(fi)
		defs := map[types.Object]ast.Expr{}
		writes := map[types.Object]int{}
		rangeVars := map[types.Object]bool{}
		mark := func(e ast.Expr) {
			switch x := ast.Unparen(e).(type) {
			case *ast.Ident:
				if o := in.rawObjOf(x); o != nil {
					writes[o]++
				}
			case *ast.SelectorExpr:
				// a write to a field (any instance): a local defined from that field is a snapshot, not a name
				if o := in.rawObjOf(x); o != nil {
					writes[o]++
				}
			}
		}
		ast.Inspect(fi.Decl.Body, func(m ast.Node) bool {
			switch x := m.(type) {
			case *ast.AssignStmt:
				for i, l := range x.Lhs {
					mark(l)
					if x.Tok == token.DEFINE && len(x.Lhs) == len(x.Rhs) {
						if id, ok := l.(*ast.Ident); ok && id.Name != "_" {
							if o := in.Info.Defs[id]; o != nil {
								defs[o] = x.Rhs[i]
							}
						}
					}
				}
			case *ast.IncDecStmt:
				mark(x.X)
			case *ast.RangeStmt:
				// a range variable changes only between iterations: a local defined from it inside the body is
				// a name for the current element
				for _, kv := range []ast.Expr{x.Key, x.Value} {
					if kv == nil {
						continue
					}
					if x.Tok == token.DEFINE {
						if id, ok := kv.(*ast.Ident); ok {
							if o := in.Info.Defs[id]; o != nil {
								rangeVars[o] = true
								continue
							}
						}
					}
					mark(kv)
					mark(kv)
				}
			case *ast.UnaryExpr:
				if x.Op == token.AND {
					mark(x.X)
					mark(x.X)
				}
			}
			return true
		})
		for o, rhs := range defs {
			if writes[o] != 1 {
				continue
			}
			// plain identifier or field selection chain, no calls, no index
			plain := true
			ast.Inspect(rhs, func(m ast.Node) bool {
				switch m.(type) {
				case *ast.Ident, *ast.SelectorExpr, *ast.ParenExpr, nil:
				default:
					plain = false
				}
				return true
			})
			if !plain {
				continue
			}
			if tv, ok := in.Info.Types[rhs]; ok && (tv.IsType() || tv.Value != nil) {
				continue
			}
			if t := in.rawObjOf(rhs); t != nil && t != o {
				tv, isVar := t.(*types.Var)
				if !isVar {
					continue
				}
				// the named thing must not change in this function (else the local is a snapshot of an old value)
				limit := 0
				if _, local := defs[t]; local {
					limit = 1
				}
				if writes[t] > limit {
					continue
				}
				// every selector on the way must be unwritten too (x.a.b: a reassigned changes what x.a.b names)
				stable := true
				ast.Inspect(rhs, func(m ast.Node) bool {
					if sel, ok := m.(*ast.SelectorExpr); ok {
						if so := in.rawObjOf(sel); so != nil && writes[so] > 0 {
							stable = false
						}
					}
					return true
				})
				if stable {
					p.Alias[o] = tv
					p.AliasExpr[o] = rhs
				}
			}
		}
	}
	// (b) parameters of new helpers bound to the same object at every call site
	type bind struct {
		obj      types.Object
		conflict bool
		n        int
	}
	binds := map[*types.Var]*bind{}
	for _, fi := range p.Funcs {
		if fi.Decl.Body == nil {
			continue
		}
		in := h(fi)
		ast.Inspect(fi.Decl.Body, func(m ast.Node) bool {
			call, ok := m.(*ast.CallExpr)
			if !ok {
				return true
			}
			f, ok := in.callee(nil, call).(*types.Func)
			if !ok || !p.NewFuncs[f] {
				return true
			}
			sig := f.Type().(*types.Signature)
			if sig.Variadic() {
				return true
			}
			for i := 0; i < sig.Params().Len() && i < len(call.Args); i++ {
				pv := sig.Params().At(i)
				b := binds[pv]
				if b == nil {
					b = &bind{}
					binds[pv] = b
				}
				b.n++
				ao := in.rawObjOf(call.Args[i])
				if _, isVar := ao.(*types.Var); !isVar {
					b.conflict = true
					continue
				}
				if b.obj != nil && b.obj != ao {
					b.conflict = true
				}
				b.obj = ao
			}
			return true
		})
	}
	for pv, b := range binds {
		if !b.conflict && b.obj != nil && b.obj != types.Object(pv) {
			p.Alias[pv] = b.obj
		}
	}
}

// resolveAlias follows the alias table (bounded, cycle safe).
func (p *Program) resolveAlias(o types.Object) types.Object {
	for i := 0; i < 6 && o != nil; i++ {
		t, ok := p.Alias[o]
		if !ok || t == o {
			return o
		}
		o = t
	}
	return o
}

func containsNode(root ast.Node, n ast.Node) bool {
	found := false
	ast.Inspect(root, func(m ast.Node) bool {
		if m == n {
			found = true
		}
		return !found
	})
	return found
}

// inlinePosition: stack ends with the call; is the call evaluated by a statement the TRACE engine interprets
// (directly or through nestedNewCalls)? Calls inside function literals, go and defer statements are not.
func inlinePosition(stack []ast.Node) bool {
	for i := len(stack) - 2; i >= 0; i-- {
		switch pn := stack[i].(type) {
		case *ast.FuncLit, *ast.GoStmt, *ast.DeferStmt:
			return false
		case *ast.ExprStmt, *ast.AssignStmt, *ast.ReturnStmt, *ast.IncDecStmt, *ast.SendStmt:
			return true
		case *ast.IfStmt:
			return pn.Init == nil && containsNode(pn.Cond, stack[len(stack)-1])
		case *ast.SwitchStmt:
			return pn.Tag != nil && containsNode(pn.Tag, stack[len(stack)-1])
		case *ast.RangeStmt:
			return containsNode(pn.X, stack[len(stack)-1])
		case ast.Stmt:
			return false
		}
	}
	return false
}

// structFields lists "pkg.Type.field\ttype" for every field of every struct type of the library packages.
func (p *Program) structFields() []string {
	var out []string
	for _, rel := range libPkgs {
		pk := p.Pkgs[rel]
		if pk == nil {
			continue
		}
		sc := pk.Types.Scope()
		for _, n := range sc.Names() {
			tn, ok := sc.Lookup(n).(*types.TypeName)
			if !ok {
				continue
			}
			st, ok := tn.Type().Underlying().(*types.Struct)
			if !ok {
				continue
			}
			for i := 0; i < st.NumFields(); i++ {
				f := st.Field(i)
				out = append(out, rel+"."+n+"."+f.Name()+"\t"+types.TypeString(f.Type(), func(q *types.Package) string { return q.Name() }))
			}
		}
	}
	return out
}

// sigString renders a function's parameter and result types (no names, receiver excluded).
func sigString(f *types.Func) string {
	sig := f.Type().(*types.Signature)
	q := func(p *types.Package) string { return p.Name() }
	var sb strings.Builder
	sb.WriteString("(")
	for i := 0; i < sig.Params().Len(); i++ {
		if i > 0 {
			sb.WriteString(", ")
		}
		if sig.Variadic() && i == sig.Params().Len()-1 {
			sb.WriteString("...")
		}
		sb.WriteString(types.TypeString(sig.Params().At(i).Type(), q))
	}
	sb.WriteString(") (")
	for i := 0; i < sig.Results().Len(); i++ {
		if i > 0 {
			sb.WriteString(", ")
		}
		sb.WriteString(types.TypeString(sig.Results().At(i).Type(), q))
	}
	sb.WriteString(")")
	return sb.String()
}

// buildRenames: a listed function (field) that is gone and has exactly one unlisted replacement with the same
// receiver (struct) and the same signature (type) was renamed; lookups by the old name resolve to the new object.
func (p *Program) buildRenames() {
	p.RenamedFunc = map[string]string{}
	p.RenamedField = map[string]*types.Var{}
	prefix := func(name string) string {
		if i := strings.LastIndex(name, "."); i >= 0 {
			return name[:i]
		}
		return name
	}
	var olds []string
	for n := range knownFuncs {
		if p.Funcs[n] == nil {
			olds = append(olds, n)
		}
	}
	sort.Strings(olds)
	taken := map[string]bool{}
	for _, old := range olds {
		var cands []string
		for n, fi := range p.Funcs {
			if knownFuncs[n] || taken[n] || prefix(n) != prefix(old) || fi.Obj.Exported() != ast.IsExported(old[strings.LastIndex(old, ".")+1:]) {
				continue
			}
			if sigString(fi.Obj) == knownFuncSigs[old] {
				cands = append(cands, n)
			}
		}
		if len(cands) == 1 {
			p.RenamedFunc[old] = cands[0]
			taken[cands[0]] = true
		}
	}
	var oldf []string
	for k := range knownFields {
		oldf = append(oldf, k)
	}
	sort.Strings(oldf)
	for _, k := range oldf {
		parts := strings.Split(k, ".")
		if len(parts) < 3 {
			continue
		}
		field := parts[len(parts)-1]
		typ := parts[len(parts)-2]
		pkg := strings.Join(parts[:len(parts)-2], ".")
		n := p.Named(pkg, typ)
		if n == nil {
			continue
		}
		st, ok := n.Underlying().(*types.Struct)
		if !ok {
			continue
		}
		present := false
		var cands []*types.Var
		for i := 0; i < st.NumFields(); i++ {
			f := st.Field(i)
			if f.Name() == field {
				present = true
			}
			if _, known := knownFields[pkg+"."+typ+"."+f.Name()]; !known && types.TypeString(f.Type(), func(q *types.Package) string { return q.Name() }) == knownFields[k] {
				cands = append(cands, f)
			}
		}
		if !present && len(cands) == 1 {
			p.RenamedField[k] = cands[0]
		}
	}
}
