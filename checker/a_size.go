package main

// SIZE: bytes-accounted effect of an Encode path versus the symbolic value of len()/Len().
// Both are closed linear forms over atoms len(<field path>) and SUM(<list field>, <per-element form>)
// once a valuation of the guard variables is fixed; they are compared coefficient by coefficient.

import (
	"fmt"
	"go/ast"
	"go/token"
	"go/types"
	"sort"
	"strings"
)

type Lin struct {
	K     int64
	Atoms map[string]int64
	Bad   string // non-empty: not a closed form
}

func linConst(k int64) Lin  { return Lin{K: k, Atoms: map[string]int64{}} }
func linAtom(a string) Lin  { return Lin{Atoms: map[string]int64{a: 1}} }
func linBad(why string) Lin { return Lin{Bad: why, Atoms: map[string]int64{}} }

func (a Lin) add(b Lin) Lin {
	if a.Bad != "" {
		return a
	}
	if b.Bad != "" {
		return b
	}
	r := Lin{K: a.K + b.K, Atoms: map[string]int64{}}
	for k, v := range a.Atoms {
		r.Atoms[k] += v
	}
	for k, v := range b.Atoms {
		r.Atoms[k] += v
	}
	for k, v := range r.Atoms {
		if v == 0 {
			delete(r.Atoms, k)
		}
	}
	return r
}

func (a Lin) neg() Lin {
	if a.Bad != "" {
		return a
	}
	r := Lin{K: -a.K, Atoms: map[string]int64{}}
	for k, v := range a.Atoms {
		r.Atoms[k] = -v
	}
	return r
}

func (a Lin) String() string {
	if a.Bad != "" {
		return "⊥(" + a.Bad + ")"
	}
	var ks []string
	for k := range a.Atoms {
		ks = append(ks, k)
	}
	sort.Strings(ks)
	var parts []string
	if a.K != 0 || len(ks) == 0 {
		parts = append(parts, fmt.Sprint(a.K))
	}
	for _, k := range ks {
		if a.Atoms[k] == 1 {
			parts = append(parts, k)
		} else {
			parts = append(parts, fmt.Sprintf("%d*%s", a.Atoms[k], k))
		}
	}
	return strings.Join(parts, " + ")
}

func (a Lin) equal(b Lin) bool { return a.Bad == "" && b.Bad == "" && a.String() == b.String() }

// sizeCtx evaluates integer expressions along one trace.
type sizeCtx struct {
	c      *Ctx
	fi     *FuncInfo
	h      *Interp
	t      *Trace
	vars   map[types.Object]Lin
	recv   types.Object
	init   map[types.Object]Val // the valuation (emptiness of fields)
	elemOf map[types.Object]string
	plen   map[types.Object]Lin // symbolic length of slice/string parameters
	depth  int
}

// path renders a value expression as a canonical, name-independent path.
func (s *sizeCtx) path(e ast.Expr) string {
	switch x := ast.Unparen(e).(type) {
	case *ast.Ident:
		if raw := s.h.rawObjOf(x); raw != nil {
			if def, ok := s.c.P.AliasExpr[raw]; ok {
				return s.path(def) // a named local: the path of what it names
			}
		}
		o := s.h.objOf(x)
		if o == s.recv && o != nil {
			return "recv"
		}
		if p, ok := s.elemOf[o]; ok {
			return "elem(" + p + ")"
		}
		if o != nil {
			return "?" + o.Name()
		}
	case *ast.SelectorExpr:
		if o := s.h.objOf(x); o != nil {
			if f, ok := o.(*types.Var); ok && f.IsField() {
				return s.path(x.X) + "." + f.Name()
			}
			return o.Name()
		}
	case *ast.StarExpr:
		return s.path(x.X)
	case *ast.CallExpr:
		// conversions and cast(str)
		if len(x.Args) == 1 {
			if tv, ok := s.h.Info.Types[x.Fun]; ok && tv.IsType() {
				return s.path(x.Args[0])
			}
			if f, ok := s.h.callee(&state{env: newEnv()}, x).(*types.Func); ok && f.Name() == "cast" {
				return s.path(x.Args[0])
			}
		}
	}
	return "?" + s.c.P.exprStr(e)
}

// emptiness of a value expression under the valuation
func (s *sizeCtx) emptiness(e ast.Expr) VK {
	o := s.h.objOf(ast.Unparen(e))
	if o != nil {
		if v, ok := s.init[o]; ok {
			return v.K
		}
	}
	return VUnknown
}

func (s *sizeCtx) eval(e ast.Expr) Lin {
	e = ast.Unparen(e)
	if tv, ok := s.h.Info.Types[e]; ok && tv.Value != nil {
		if v, ok := constVal(tv); ok && v.K == VInt {
			return linConst(v.I)
		}
	}
	switch x := e.(type) {
	case *ast.Ident:
		if o := s.h.objOf(x); o != nil {
			if l, ok := s.vars[o]; ok {
				return l
			}
		}
		return linBad("unknown variable " + x.Name)
	case *ast.BinaryExpr:
		switch x.Op {
		case token.ADD:
			return s.eval(x.X).add(s.eval(x.Y))
		case token.SUB:
			return s.eval(x.X).add(s.eval(x.Y).neg())
		}
		return linBad("operator " + x.Op.String())
	case *ast.CallExpr:
		if tv, ok := s.h.Info.Types[x.Fun]; ok && tv.IsType() && len(x.Args) == 1 {
			return s.eval(x.Args[0])
		}
		callee := s.h.callee(&state{env: newEnv()}, x)
		if b, ok := callee.(*types.Builtin); ok {
			switch b.Name() {
			case "len":
				return s.lenOf(x.Args[0])
			case "copy":
				// copy into a buffer that the header check proved large enough: len(src)
				return s.lenOf(x.Args[1])
			}
			return linBad("builtin " + b.Name())
		}
		if f, ok := callee.(*types.Func); ok {
			return s.c.sizeOfCall(s, f, x)
		}
		return linBad("dynamic call")
	}
	return linBad(fmt.Sprintf("%T %s", e, s.c.P.exprStr(e)))
}

func (s *sizeCtx) lenOf(e ast.Expr) Lin {
	e = ast.Unparen(e)
	if o := s.h.objOf(e); o != nil {
		if l, ok := s.plen[o]; ok {
			return l
		}
	}
	if call, ok := e.(*ast.CallExpr); ok && len(call.Args) == 1 {
		if tv, ok := s.h.Info.Types[call.Fun]; ok && tv.IsType() {
			return s.lenOf(call.Args[0])
		}
		if f, ok := s.h.callee(&state{env: newEnv()}, call).(*types.Func); ok && f.Name() == "cast" {
			return s.lenOf(call.Args[0])
		}
	}
	// constant strings / map literal lookups are resolved by the interpreter's evaluator
	switch s.emptiness(e) {
	case VEmpty, VNil:
		return linConst(0)
	}
	if ix, ok := e.(*ast.IndexExpr); ok {
		// versionNames[c.Version]: package-level map literal with a constant key
		if n, ok := s.c.mapLitLen(s, ix); ok {
			return linConst(n)
		}
	}
	p := s.path(e)
	if strings.Contains(p, "?") {
		return linBad("length of " + p)
	}
	return linAtom("len(" + p + ")")
}

// mapLitLen: length of versionNames[key] for a package-level map composite literal.
func (c *Ctx) mapLitLen(s *sizeCtx, ix *ast.IndexExpr) (int64, bool) {
	gv, ok := s.h.objOf(ix.X).(*types.Var)
	if !ok || gv.IsField() || gv.Pkg() == nil || gv.Parent() != gv.Pkg().Scope() {
		return 0, false
	}
	// key value under the valuation: field object or the value assigned on the trace
	var key Val
	if o := s.h.objOf(ix.Index); o != nil {
		if v, ok := s.init[o]; ok {
			key = v
		}
		// a store on this trace before the use overrides
		for _, e := range s.t.Ev {
			if e.Kind == EvAssign && e.LObj == o && e.Pos < ix.Pos() && e.RVal.K == VInt {
				key = e.RVal
			}
		}
	}
	if key.K != VInt {
		return 0, false
	}
	for _, f := range s.fi.Pkg.Syntax {
		var res int64 = -1
		ast.Inspect(f, func(m ast.Node) bool {
			vs, ok := m.(*ast.ValueSpec)
			if !ok {
				return true
			}
			for i, n := range vs.Names {
				if s.h.Info.Defs[n] != gv || i >= len(vs.Values) {
					continue
				}
				cl, ok := vs.Values[i].(*ast.CompositeLit)
				if !ok {
					continue
				}
				for _, el := range cl.Elts {
					kv, ok := el.(*ast.KeyValueExpr)
					if !ok {
						continue
					}
					ktv, ok := s.h.Info.Types[kv.Key]
					if !ok || ktv.Value == nil {
						continue
					}
					if kvv, _ := constVal(ktv); kvv.K == VInt && kvv.I == key.I {
						if call, ok := ast.Unparen(kv.Value).(*ast.CallExpr); ok && len(call.Args) == 1 {
							if atv, ok := s.h.Info.Types[call.Args[0]]; ok && atv.Value != nil {
								if sv, _ := constVal(atv); sv.K == VStr {
									res = int64(len(sv.S))
								} else if sv.K == VEmpty {
									res = 0
								}
							}
						}
					}
				}
			}
			return true
		})
		if res >= 0 {
			return res, true
		}
	}
	return 0, false
}

// sizeOfCall: the integer result 0 of a call, through helper summaries.
func (c *Ctx) sizeOfCall(s *sizeCtx, f *types.Func, call *ast.CallExpr) Lin {
	if s.depth > 4 {
		return linBad("summary depth")
	}
	// leaf facts: varintLen(x) bytes are what writeVarint(_, x, _) writes for x <= maxVarint (C01/CONST)
	if f.Pkg() != nil && f.Pkg().Name() == "packet" {
		switch f.Name() {
		case "varintLen":
			if len(call.Args) == 1 {
				inner := s.eval(call.Args[0])
				if inner.Bad != "" {
					return inner
				}
				return linAtom("VARINT(" + inner.String() + ")")
			}
		case "writeVarint":
			if len(call.Args) == 3 {
				inner := s.eval(call.Args[1])
				if inner.Bad != "" {
					return inner
				}
				return linAtom("VARINT(" + inner.String() + ")")
			}
		}
	}
	fi := c.P.ByObj[f]
	if fi == nil || fi.Decl.Body == nil {
		return linBad("external call " + FuncName(f))
	}
	sig := f.Type().(*types.Signature)
	// method on the receiver (len(), Len()) or plain helper: evaluate its success traces symbolically
	sub := &sizeCtx{c: c, fi: fi, h: &Interp{P: c.P, Info: fi.Pkg.TypesInfo}, vars: map[types.Object]Lin{}, init: s.init, elemOf: map[types.Object]string{}, plen: map[types.Object]Lin{}, depth: s.depth + 1}
	if sig.Recv() != nil {
		if sel, ok := ast.Unparen(call.Fun).(*ast.SelectorExpr); ok && s.path(sel.X) == "recv" {
			sub.recv = sig.Recv()
		} else if ok {
			if p := s.path(sel.X); !strings.Contains(p, "?") {
				sub.elemOf[sig.Recv()] = strings.TrimSuffix(strings.TrimPrefix(p, "elem("), ")")
				if !strings.HasPrefix(p, "elem(") {
					return linBad("method on " + p)
				}
			}
		}
	}
	// bind integer parameters to the caller's symbolic arguments, other parameters to paths
	paths := map[types.Object]string{}
	for i := 0; i < sig.Params().Len() && i < len(call.Args); i++ {
		p := sig.Params().At(i)
		if b, ok := p.Type().Underlying().(*types.Basic); ok && b.Info()&types.IsInteger != 0 {
			sub.vars[p] = s.eval(call.Args[i])
		} else {
			paths[p] = s.path(call.Args[i])
			// length facts of slice/string parameters
			if _, isSlice := p.Type().Underlying().(*types.Slice); isSlice || isString(p.Type()) {
				sub.plen[p] = s.lenOfArg(call.Args[i])
			}
		}
	}
	return c.summary(sub, fi)
}

func isString(t types.Type) bool {
	b, ok := t.Underlying().(*types.Basic)
	return ok && b.Info()&types.IsString != 0
}

func (s *sizeCtx) lenOfArg(e ast.Expr) Lin {
	e = ast.Unparen(e)
	// dst[total:] style buffers have no meaningful length
	if _, ok := e.(*ast.SliceExpr); ok {
		return linBad("buffer")
	}
	return s.lenOf(e)
}

// summary: value of result 0 over the success traces of fi (must be unique).
func (c *Ctx) summary(s *sizeCtx, fi *FuncInfo) Lin {
	in := c.P.TraceFunc(fi, TraceOpts{Init: s.init, NoMerge: true})
	if in.Over {
		return linBad("path budget in " + fi.Name)
	}
	var res *Lin
	// range loops are generalised from the paths that iterate: ignore the zero-iteration variants
	maxLoops := 0
	loopsOf := func(t *Trace) int {
		n := 0
		for _, e := range t.Ev {
			if e.Kind == EvLoopBegin {
				if _, ok := e.LoopStmt.(*ast.RangeStmt); ok {
					n++
				}
			}
		}
		return n
	}
	for _, t := range in.Traces {
		if t.Exit == ExitReturn && loopsOf(t) > maxLoops {
			maxLoops = loopsOf(t)
		}
	}
	for _, t := range in.Traces {
		if t.Exit != ExitReturn || len(t.Results) == 0 || loopsOf(t) != maxLoops {
			continue
		}
		// success traces only: last result nil (when there is an error result)
		if len(t.Results) > 1 {
			if t.retErr() > 0 {
				continue
			}
			last := t.Results[len(t.Results)-1]
			if _, isCall := ast.Unparen(last).(*ast.CallExpr); isCall {
				continue // a constructed error
			}
			if tv, ok := fi.Pkg.TypesInfo.Types[last]; ok && !tv.IsNil() {
				// `return n, err` after a failed helper: error paths are excluded by outcome events
				if o := s.h.objOf(last); o != nil {
					if v, ok := t.Env.vals[o]; ok && v.K == VNonNil {
						continue
					}
					if v, ok := t.Env.vals[o]; ok && v.K == VNil {
						// tested (or forked at the return) nil: a success path
					} else if _, isDef := t.Env.defs[o]; isDef {
						// untested error variable: ambiguous, treat as error path of the helper
						continue
					}
				}
			}
		}
		s.t = t
		v := s.walk(t)
		if res == nil {
			res = &v
		} else if !res.equal(v) {
			return linBad(fmt.Sprintf("paths of %s disagree: %s vs %s", fi.Name, res, v))
		}
	}
	if res == nil {
		return linBad("no success path in " + fi.Name)
	}
	return *res
}

// walk replays the integer assignments of one trace and returns the value of result 0.
func (s *sizeCtx) walk(t *Trace) Lin {
	type loopAcc struct {
		stmt  ast.Stmt
		list  string
		saved map[types.Object]Lin
	}
	var loops []loopAcc
	vars := s.vars
	local := map[types.Object]Lin{}
	for k, v := range vars {
		local[k] = v
	}
	s.vars = local
	defer func() { s.vars = vars }()
	for _, e := range t.Ev {
		switch e.Kind {
		case EvLoopBegin:
			if rs, ok := e.LoopStmt.(*ast.RangeStmt); ok {
				p := s.path(rs.X)
				if rs.Value != nil {
					if o := s.h.objOf(rs.Value); o != nil {
						s.elemOf[o] = p
					}
				}
				saved := map[types.Object]Lin{}
				for k, v := range s.vars {
					saved[k] = v
				}
				loops = append(loops, loopAcc{stmt: e.LoopStmt, list: p, saved: saved})
			} else {
				loops = append(loops, loopAcc{stmt: e.LoopStmt, list: "?for"})
			}
		case EvLoopEnd:
			if n := len(loops); n > 0 && loops[n-1].stmt == e.LoopStmt {
				la := loops[n-1]
				loops = loops[:n-1]
				// generalise: every variable changed in the body by delta becomes saved + SUM(list, delta)
				for k, v := range s.vars {
					old, had := la.saved[k]
					if !had || old.equal(v) {
						continue
					}
					if la.list == "?for" || strings.Contains(la.list, "?") {
						s.vars[k] = linBad("loop over " + la.list)
						continue
					}
					delta := v.add(old.neg())
					if delta.Bad != "" {
						s.vars[k] = delta
						continue
					}
					if len(delta.Atoms) == 0 {
						// a constant per element: k * len(list)
						s.vars[k] = old.add(Lin{Atoms: map[string]int64{"len(" + la.list + ")": delta.K}})
					} else {
						s.vars[k] = old.add(linAtom("SUM(" + la.list + ": " + delta.String() + ")"))
					}
				}
			}
		case EvAssign:
			if e.LObj == nil || e.Conditional {
				continue
			}
			if b, ok := e.LObj.Type().Underlying().(*types.Basic); !ok || b.Info()&types.IsInteger == 0 {
				continue
			}
			if _, isVar := e.LObj.(*types.Var); !isVar || e.LObj.(*types.Var).IsField() {
				continue
			}
			switch n := e.Node.(type) {
			case *ast.AssignStmt:
				switch n.Tok {
				case token.ADD_ASSIGN:
					s.vars[e.LObj] = s.getVar(e.LObj).add(s.eval(n.Rhs[0]))
				case token.SUB_ASSIGN:
					s.vars[e.LObj] = s.getVar(e.LObj).add(s.eval(n.Rhs[0]).neg())
				case token.ASSIGN, token.DEFINE:
					// which result of a multi-value call?
					if len(n.Rhs) == 1 && len(n.Lhs) > 1 {
						idx := -1
						for i, l := range n.Lhs {
							if s.h.objOf(l) == e.LObj {
								idx = i
							}
						}
						if idx == 0 {
							s.vars[e.LObj] = s.eval(n.Rhs[0])
						} else {
							s.vars[e.LObj] = linBad("result " + fmt.Sprint(idx))
						}
					} else {
						for i, l := range n.Lhs {
							if s.h.objOf(l) == e.LObj && i < len(n.Rhs) {
								s.vars[e.LObj] = s.eval(n.Rhs[i])
							}
						}
					}
				default:
					s.vars[e.LObj] = linBad("operator " + n.Tok.String())
				}
			case *ast.IncDecStmt:
				d := int64(1)
				if n.Tok == token.DEC {
					d = -1
				}
				s.vars[e.LObj] = s.getVar(e.LObj).add(linConst(d))
			case *ast.DeclStmt:
				s.vars[e.LObj] = s.eval(e.RHS)
			}
		}
	}
	if len(t.Results) == 0 {
		return linBad("no result")
	}
	return s.eval(t.Results[0])
}

func (s *sizeCtx) getVar(o types.Object) Lin {
	if l, ok := s.vars[o]; ok {
		return l
	}
	return linBad("unset " + o.Name())
}
