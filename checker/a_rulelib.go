package main

import (
	"fmt"
	"go/ast"
	"go/types"
	"strings"
)

// ------------------------------------------------------------------ event predicates

type Pred func(e *Event) bool

func sameFunc(a types.Object, f *types.Func) bool {
	g, ok := a.(*types.Func)
	if !ok || f == nil {
		return false
	}
	if g == f {
		return true
	}
	// the same method reached through an embedded interface / promoted field
	return g.Name() == f.Name() && g.Pkg() == f.Pkg() && FuncName(g) == FuncName(f)
}

// callTo matches calls (not go/defer statements) of one of the functions.
func callTo(fs ...*types.Func) Pred {
	return func(e *Event) bool {
		if e.Kind != EvCall {
			return false
		}
		for _, f := range fs {
			if sameFunc(e.Callee, f) {
				return true
			}
		}
		return false
	}
}

// callToVar matches calls of a function value held in a variable or field.
func callToVar(v types.Object) Pred {
	return func(e *Event) bool { return e.Kind == EvCall && v != nil && e.Callee == v }
}

func typeIs(t types.Type, pkg, name string, ptr bool) bool {
	if t == nil {
		return false
	}
	if ptr {
		p, ok := t.(*types.Pointer)
		if !ok {
			return false
		}
		t = p.Elem()
	}
	n, ok := t.(*types.Named)
	if !ok {
		return false
	}
	return n.Obj().Name() == name && n.Obj().Pkg() != nil && n.Obj().Pkg().Name() == pkg
}

// argIs: argument i of the call has (refined) static type *pkg.name.
func argIs(i int, pkg, name string) Pred {
	return func(e *Event) bool {
		return e.Kind == EvCall && i < len(e.ArgTypes) && typeIs(e.ArgTypes[i], pkg, name, true)
	}
}

func argConstInt(i int, v int64) Pred {
	return func(e *Event) bool {
		return e.Kind == EvCall && i < len(e.ArgVals) && e.ArgVals[i].K == VInt && e.ArgVals[i].I == v
	}
}

func and(ps ...Pred) Pred {
	return func(e *Event) bool {
		for _, p := range ps {
			if !p(e) {
				return false
			}
		}
		return true
	}
}

func or(ps ...Pred) Pred {
	return func(e *Event) bool {
		for _, p := range ps {
			if p(e) {
				return true
			}
		}
		return false
	}
}

func sendOn(f types.Object) Pred {
	return func(e *Event) bool { return e.Kind == EvSend && f != nil && e.ChanObj == f }
}
func recvOn(f types.Object) Pred {
	return func(e *Event) bool { return e.Kind == EvRecv && f != nil && e.ChanObj == f }
}
func storeTo(f types.Object) Pred {
	return func(e *Event) bool { return e.Kind == EvAssign && f != nil && e.LObj == f }
}

// ------------------------------------------------------------------ trace queries

func (t *Trace) first(p Pred) int {
	for i, e := range t.Ev {
		if p(e) {
			return i
		}
	}
	return -1
}

func (t *Trace) firstFrom(from int, p Pred) int {
	for i := from; i < len(t.Ev); i++ {
		if p(t.Ev[i]) {
			return i
		}
	}
	return -1
}

func (t *Trace) all(p Pred) []int {
	var out []int
	for i, e := range t.Ev {
		if p(e) {
			out = append(out, i)
		}
	}
	return out
}

func (t *Trace) has(p Pred) bool { return t.first(p) >= 0 }

// errOutcome: +1 when the path took the error (non-nil) side of the variable defined by call,
// -1 for the ok side, 0 when the result was not tested on this path.
func (t *Trace) errOutcome(call *Event) int {
	for _, e := range t.Ev {
		if e.Kind == EvOutcome && e.DefCall == call && e.Nilness != 0 {
			return e.Nilness
		}
	}
	return 0
}

// okOutcome: +1 when a comma-ok variable defined at marker was true on the path, -1 false, 0 untested.
func (t *Trace) okOutcome(marker *Event) int {
	for _, e := range t.Ev {
		if e.Kind == EvOutcome && e.DefCall == marker && e.Nilness == 0 {
			if e.Outcome {
				return 1
			}
			return -1
		}
	}
	return 0
}

// retErr classifies the last (error) result of a return: +1 non-nil, -1 nil, 0 unknown.
func (t *Trace) retErr() int {
	if t.Exit != ExitReturn || len(t.RVals) == 0 {
		if t.Exit == ExitReturn && len(t.Results) == 0 {
			return -1
		}
		return 0
	}
	v := t.RVals[len(t.RVals)-1]
	switch v.K {
	case VNil:
		return -1
	case VNonNil:
		return 1
	}
	return 0
}

// success: the trace returns normally without a non-nil error (loop back-edges count as success).
func (t *Trace) success() bool {
	if t.Exit == ExitPanic {
		return false
	}
	if t.Exit == ExitLoopBack {
		return true
	}
	return t.retErr() <= 0 && !t.retKnownErr()
}

func (t *Trace) retKnownErr() bool { return t.retErr() > 0 }

// precedes: on every trace that contains an event matching B, an event matching A occurs before
// the first B. It returns the first offending trace.
func precedes(traces []*Trace, A, B Pred) (bool, *Trace, int) {
	n := 0
	for _, t := range traces {
		b := t.first(B)
		if b < 0 {
			continue
		}
		n++
		a := t.first(A)
		if a < 0 || a > b {
			return false, t, n
		}
	}
	return true, nil, n
}

// neverAfter: no event matching B occurs after an event matching A.
func neverAfter(traces []*Trace, A, B Pred) (bool, *Trace) {
	for _, t := range traces {
		a := t.first(A)
		if a < 0 {
			continue
		}
		if t.firstFrom(a+1, B) >= 0 {
			return false, t
		}
	}
	return true, nil
}

// ------------------------------------------------------------------ misc helpers

func (c *Ctx) witness(t *Trace) []string {
	if t == nil {
		return nil
	}
	return c.P.TraceStrings(t)
}

func (c *Ctx) mustFunc(r *Rule, name string) *FuncInfo {
	fi := c.P.Func(name)
	if fi == nil {
		r.Undecided(name, 0, "anchor function not found (renamed or removed)")
		return nil
	}
	c.Touch(name)
	return fi
}

// funcLits returns the function literals syntactically inside n (nested ones included).
func funcLits(n ast.Node) []*ast.FuncLit {
	var out []*ast.FuncLit
	ast.Inspect(n, func(m ast.Node) bool {
		if l, ok := m.(*ast.FuncLit); ok {
			out = append(out, l)
		}
		return true
	})
	return out
}

// litEvents collects every event of every trace of lit and of the literals nested in it.
func (c *Ctx) litEvents(fi *FuncInfo, lit *ast.FuncLit, opts TraceOpts) ([]*Event, int) {
	var out []*Event
	paths := 0
	var visit func(l *ast.FuncLit)
	seen := map[*ast.FuncLit]bool{}
	visit = func(l *ast.FuncLit) {
		if seen[l] {
			return
		}
		seen[l] = true
		in := c.P.TraceLit(fi, l, opts)
		paths += len(in.Traces)
		for _, t := range in.Traces {
			for _, e := range t.Ev {
				out = append(out, e)
				if e.Kind == EvFuncLit {
					visit(e.Lit)
				}
			}
		}
	}
	visit(lit)
	return out, paths
}

func typeStr(t types.Type) string {
	if t == nil {
		return "<nil>"
	}
	return types.TypeString(t, func(p *types.Package) string { return p.Name() })
}

func joinTypes(ts []types.Type) string {
	var s []string
	for _, t := range ts {
		s = append(s, typeStr(t))
	}
	return strings.Join(s, ",")
}

func (c *Ctx) undecidedIfOver(r *Rule, in *Interp, fn string) bool {
	if in.Over || len(in.Unsupported) > 0 {
		r.Undecided(fn, 0, fmt.Sprintf("path enumeration incomplete (budget exhausted=%v, unsupported constructs=%v)", in.Over, in.Unsupported))
		return true
	}
	return false
}

// qosField etc: frequently used objects
type objs struct {
	msgQOS, msgTopic, msgPayload, msgRetain *types.Var
}

func (c *Ctx) msgFields() objs {
	return objs{
		msgQOS:     c.P.Field("packet", "Message", "QOS"),
		msgTopic:   c.P.Field("packet", "Message", "Topic"),
		msgPayload: c.P.Field("packet", "Message", "Payload"),
		msgRetain:  c.P.Field("packet", "Message", "Retain"),
	}
}

// traces returns the (cached) default-option traces of a function: no valuation, die() results non-nil.
func (c *Ctx) traces(fi *FuncInfo) *Interp {
	if c.cache == nil {
		c.cache = map[string]*Interp{}
	}
	if in, ok := c.cache[fi.Name]; ok {
		return in
	}
	in := c.P.TraceFunc(fi, c.defOpts())
	c.cache[fi.Name] = in
	c.Touch(fi.Name)
	return in
}

func (c *Ctx) defOpts() TraceOpts {
	v := c.vocab()
	if c.passArg == nil {
		c.passArg = map[*types.Func]int{}
		// client cleanup(err, …) hands back a non-nil error whenever it was given one: verified here
		if fi := c.P.ByObj[v.cCleanup]; fi != nil {
			sig := fi.Obj.Type().(*types.Signature)
			if sig.Params().Len() > 0 && sig.Results().Len() == 1 {
				in := c.P.TraceFunc(fi, TraceOpts{Init: map[types.Object]Val{sig.Params().At(0): {K: VNonNil}}})
				ok := len(in.Traces) > 0 && !in.Over
				for _, t := range in.Traces {
					if t.Exit != ExitReturn || len(t.RVals) != 1 || t.RVals[0].K != VNonNil {
						ok = false
					}
				}
				if ok {
					c.passArg[v.cCleanup] = 0
				}
			}
		}
	}
	return TraceOpts{NonNil: func(f *types.Func) bool { return f == v.bDie || f == v.cDie }, PassArg: c.passArg}
}

// loopsAt returns the loop statements enclosing event index i of the trace (outermost first).
func (t *Trace) loopsAt(i int) []ast.Stmt {
	var st []ast.Stmt
	for j := 0; j < i && j < len(t.Ev); j++ {
		switch t.Ev[j].Kind {
		case EvLoopBegin:
			st = append(st, t.Ev[j].LoopStmt)
		case EvLoopEnd:
			if n := len(st); n > 0 && st[n-1] == t.Ev[j].LoopStmt {
				st = st[:n-1]
			}
		}
	}
	return st
}

// rangeOver: the innermost enclosing range loop of event i iterates over field f.
func (c *Ctx) inRangeOver(fi *FuncInfo, t *Trace, i int, f *types.Var) bool {
	for _, l := range t.loopsAt(i) {
		if rs, ok := l.(*ast.RangeStmt); ok {
			if (&Interp{P: c.P, Info: fi.Pkg.TypesInfo}).objOf(rs.X) == f {
				return true
			}
		}
	}
	return false
}

// evRHSObj: the object the right-hand side of an assignment event names on its path (through the parameters of
// inlined NEW helpers), falling back to the plain resolution.
func evRHSObj(h *Interp, e *Event) types.Object {
	if e.RObj != nil {
		return e.RObj
	}
	if e.RHS == nil {
		return nil
	}
	return h.objOf(e.RHS)
}

// chanOnPath: the channel object an expression denotes at event index upto of trace t: a field / variable, or —
// for a local that was assigned a channel earlier on the path — what it was last assigned.
func chanOnPath(h *Interp, t *Trace, upto int, e ast.Expr) types.Object {
	o := h.objOf(e)
	for depth := 0; depth < 4 && o != nil; depth++ {
		v, ok := o.(*types.Var)
		if !ok || v.IsField() {
			return o
		}
		var last types.Object
		for _, p := range t.Ev[:upto] {
			if p.Kind == EvAssign && p.LObj == o && p.RHS != nil {
				last = evRHSObj(h, p)
			}
		}
		if last == nil || last == o {
			return o
		}
		o = last
	}
	return o
}
