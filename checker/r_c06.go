package main

import (
	"fmt"
	"go/ast"
	"go/types"
	"strings"

	"golang.org/x/tools/go/ssa"
)

func init() {
	register("C06", propC06)
	register("C11", propC11)
}

const c06Explanation = "Static analysis of MemoryBackend.Subscribe/Unsubscribe/Publish/Dequeue and memorySession.applyQOS: (LOOPVAR, SSA) every subscription object stored in a session tree is allocated per filter (not one shared loop variable); " +
	"(ONCE/GATE) Publish iterates the session maps and performs at most one queue send per session, only behind a successful subscription lookup for the message topic; (RETAINCLR) the retain flag is cleared before any fan-out; " +
	"(CAP) every message leaving Dequeue went through applyQOS, whose decision table over published x granted QoS yields min(); (IMMUT) the shared message is never written after fan-out — QoS capping writes only to a copy; " +
	"(UNSUB/SETONLY) subscriptions are stored with Set (replace) before the ack and removed before the ack. The exact recipient set at runtime and concurrent histories are not decided."

func backendVocab(c *Ctx) (subs, tq, sq, ac, retained, tempS, storedS, active *types.Var) {
	return c.P.Field("broker", "memorySession", "subscriptions"), c.P.Field("broker", "memorySession", "temporaryQueue"),
		c.P.Field("broker", "memorySession", "storedQueue"), c.P.Field("broker", "memorySession", "activeClient"),
		c.P.Field("broker", "MemoryBackend", "retainedMessages"), c.P.Field("broker", "MemoryBackend", "temporarySessions"),
		c.P.Field("broker", "MemoryBackend", "storedSessions"), c.P.Field("broker", "MemoryBackend", "activeClients")
}

// treeCall matches a call of a topic.Tree method whose receiver is the tree held in field f.
func (c *Ctx) treeCall(fi *FuncInfo, f *types.Var, names ...string) Pred {
	h := &Interp{P: c.P, Info: fi.Pkg.TypesInfo}
	return func(e *Event) bool {
		if e.Kind != EvCall {
			return false
		}
		fn, ok := e.Callee.(*types.Func)
		if !ok || fn.Pkg() == nil || fn.Pkg().Name() != "topic" {
			return false
		}
		match := len(names) == 0
		for _, n := range names {
			if fn.Name() == n {
				match = true
			}
		}
		if !match {
			return false
		}
		sel, ok := ast.Unparen(e.Call.Fun).(*ast.SelectorExpr)
		return ok && h.objOf(sel.X) == f
	}
}

var treeMutators = []string{"Set", "Add", "Empty", "Remove", "Clear", "Reset"}

func propC06(c *Ctx) string {
	v := c.vocab()
	subs, _, _, _, _, tempS, storedS, _ := backendVocab(c)
	gate := c.Rule("C06/VOCAB", "TABLE", "vocabulary resolves", 1)
	if subs == nil || tempS == nil || storedS == nil || len(v.missing()) > 0 {
		gate.Undecided("vocabulary", 0, "memorySession / MemoryBackend fields not found: "+strings.Join(v.missing(), ","))
		return c06Explanation
	}
	gate.Pass("vocabulary", 0, 1, "resolved")
	c06LoopVar(c, subs)
	c06Publish(c, v, "C06")
	c06Cap(c, v)
	c06Immut(c, v)
	c06Unsub(c, v)
	// the broker finds recipients through MatchFirst on each session's subscription tree and removes
	// subscriptions through Empty: the tree's name-vs-filter walk and its pruning are part of this property
	c04Table(c, "C06/MATCH", "topic.(*Tree).match", matchRef, map[string]bool{"segment=+": true, "segment=#": true})
	c04Seg(c, "C06/SEG")
	c05Prune(c, "C06/PRUNE")
	// the filters the backend stores are the filters the client asked for (no normalisation on the way)
	c20Suback(c, v)
	// a subscriber keeps receiving only while completed handshakes give their window slot back
	if ra := c.Rule("C06/ACKRETURN", "TRACE", "the PUBACK/PUBCOMP handler returns exactly one window slot per completed handshake, without blocking", 2); true {
		ackH, compH := c.handlerOf(ra, "broker", "Puback"), c.handlerOf(ra, "broker", "Pubcomp")
		if ackH != nil && compH != nil {
			c16AckReturn(c, v, ra, ackH, compH)
		}
	}
	c.NotDecide("the exact recipient set at runtime for all histories", "topic/payload integrity end to end", "concurrent histories (only lock discipline, see C13/C15)",
		"which of several matching subscriptions of one client grants the QoS (MatchFirst picks one, allowed by the statement)")
	c.Assume("topic.Tree.Set replaces the value list (C05/ADDSET)", "instance-insensitive field keys")
	return c06Explanation
}

func c06LoopVar(c *Ctx, subs *types.Var) {
	r := c.Rule("C06/LOOPVAR", "ORIGIN(SSA)", "every pointer stored into a session's subscription tree inside a loop is allocated per iteration (one distinct subscription object per filter)", 1)
	_, pkgs := c.P.SSA()
	bp := pkgs["broker"]
	if bp == nil {
		r.Undecided("broker SSA", 0, "package not built")
		return
	}
	for _, fi := range c.P.LibFuncsAll("broker") {
		fn := c.P.SSAFunc(fi)
		if fn == nil {
			continue
		}
		for _, f := range withAnon(fn) {
			for _, blk := range f.Blocks {
				for _, ins := range blk.Instrs {
					call, ok := ins.(*ssa.Call)
					if !ok {
						continue
					}
					callee := call.Common().StaticCallee()
					if callee == nil || callee.Pkg == nil || callee.Pkg.Pkg.Name() != "topic" || (callee.Name() != "Set" && callee.Name() != "Add") {
						continue
					}
					args := call.Common().Args
					if len(args) < 3 {
						continue
					}
					// receiver loaded from field subscriptions?
					fromSubs := false
					if u, ok := args[0].(*ssa.UnOp); ok {
						if fa, ok := u.X.(*ssa.FieldAddr); ok && fieldOf(fa.X.Type(), fa.Field) == subs {
							fromSubs = true
						}
					}
					if !fromSubs {
						continue
					}
					c.Touch(fi.Name)
					val := args[2]
					if mi, ok := val.(*ssa.MakeInterface); ok {
						val = mi.X
					}
					construct := fi.Name + ":subscriptions." + callee.Name() + "(value)"
					if _, isPtr := val.Type().Underlying().(*types.Pointer); !isPtr {
						r.Pass(construct, call.Pos(), 1, "value stored by copy")
						continue
					}
					al, isAlloc := val.(*ssa.Alloc)
					if !isAlloc {
						r.Pass(construct, call.Pos(), 1, "pointer is not a local allocation (element address or fresh value): "+val.String())
						continue
					}
					if !inCycle(blk) {
						r.Pass(construct, call.Pos(), 1, "not in a loop")
						continue
					}
					perIter := inCycle(al.Block()) && reaches(al.Block(), blk) && reaches(blk, al.Block())
					r.Check(construct, perIter, call.Pos(), 1,
						fmt.Sprintf("&%s is one allocation outside the loop (module go version %s: per-function loop variable): all filters of one SUBSCRIBE share the last filter's QoS", al.Comment, c.P.GoVersion))
				}
			}
		}
	}
}

func c06Publish(c *Ctx, v *vocab, prop string) {
	r := c.Rule(prop+"/FANOUT", "TRACE", "MemoryBackend.Publish: queue sends only inside the loops over the session maps (depth 1), ≤1 per iteration, gated by lookupSubscription(msg.Topic) != nil, after Retain=false", 4)
	fi := c.mustFunc(r, "broker.(*MemoryBackend).Publish")
	if fi == nil {
		return
	}
	_, _, _, _, _, tempS, storedS, _ := backendVocab(c)
	in := c.traces(fi)
	if c.undecidedIfOver(r, in, fi.Name) {
		return
	}
	mf := c.msgFields()
	h := &Interp{P: c.P, Info: fi.Pkg.TypesInfo}
	enq := c.isQueueSend(fi)
	var bad *Trace
	why := ""
	nSend := 0
	loopsSeen := map[*types.Var]bool{}
	sig := fi.Obj.Type().(*types.Signature)
	msgP := sig.Params().At(1)
	for _, t := range in.Traces {
		// per iteration
		type iter struct {
			sends int
			gate  bool
		}
		var cur *iter
		retainCleared := false
		for i, e := range t.Ev {
			switch {
			case e.Kind == EvAssign && e.LObj == mf.msgRetain && !e.Conditional:
				if e.RVal.K == VBool && !e.RVal.B {
					retainCleared = true
				} else {
					retainCleared = false
				}
			case e.Kind == EvLoopBegin:
				cur = &iter{}
			case e.Kind == EvLoopEnd:
				cur = nil
			case e.Kind == EvOutcome && e.Nilness > 0 && e.DefCall != nil && e.DefCall.Kind == EvCall:
				if f, ok := e.DefCall.Callee.(*types.Func); ok && (f.Name() == "lookupSubscription" || f.Name() == "MatchFirst") && cur != nil {
					// the lookup must use the message's topic
					if len(e.DefCall.Call.Args) == 1 {
						if sel, ok := ast.Unparen(e.DefCall.Call.Args[0]).(*ast.SelectorExpr); ok && h.objOf(sel) == mf.msgTopic && h.objOf(sel.X) == msgP {
							cur.gate = true
						}
					}
				}
			case enq(e):
				nSend++
				loops := t.loopsAt(i)
				if len(loops) != 1 {
					bad, why = t, fmt.Sprintf("queue send at loop depth %d (must be directly inside the loop over a session map: one enqueue per session)", len(loops))
					break
				}
				rs, ok := loops[0].(*ast.RangeStmt)
				if !ok || (h.objOf(rs.X) != tempS && h.objOf(rs.X) != storedS) {
					bad, why = t, "queue send inside a loop that does not range over temporarySessions/storedSessions"
					break
				}
				loopsSeen[h.objOf(rs.X).(*types.Var)] = true
				if cur == nil {
					bad, why = t, "queue send outside an iteration"
					break
				}
				cur.sends++
				if cur.sends > 1 {
					bad, why = t, "two queue sends in one iteration: a client with one session receives the message twice"
				}
				if !cur.gate {
					bad, why = t, "queue send not gated by a successful subscription lookup for msg.Topic"
				}
				if !retainCleared {
					bad, why = t, "queue send before the retain flag of the live message was cleared"
				}
				if h.objOf(e.Val) != msgP {
					bad, why = t, "the value queued is not the published message"
				}
			}
			if bad != nil {
				break
			}
		}
		if bad != nil {
			break
		}
	}
	r.Check(fi.Name+":fan-out discipline", bad == nil && nSend > 0, fi.Decl.Pos(), len(in.Traces), why+fmt.Sprintf(" [queue sends seen on paths: %d]", nSend), c.witness(bad)...)
	r.Check(fi.Name+":both session maps walked", loopsSeen[tempS] && loopsSeen[storedS], fi.Decl.Pos(), len(in.Traces), "temporary and stored sessions must both be offered the message")
	// retain clear is unconditional on every success path
	okClr := true
	var w *Trace
	for _, t := range in.Traces {
		if t.Exit == ExitReturn && t.retErr() < 0 {
			found := false
			for _, e := range t.Ev {
				if e.Kind == EvAssign && e.LObj == mf.msgRetain && !e.Conditional && e.RVal.K == VBool && !e.RVal.B {
					found = true
				}
			}
			if !found {
				okClr, w = false, t
			}
		}
	}
	r.Check(fi.Name+":Retain=false on every path", okClr, fi.Decl.Pos(), len(in.Traces), "the live copy must reach subscribers with the retain flag cleared", c.witness(w)...)
	// the lookup helper really queries the session's subscription tree with its argument
	lk := c.mustFunc(r, "broker.(*memorySession).lookupSubscription")
	if lk != nil {
		subs, _, _, _, _, _, _, _ := backendVocab(c)
		lin := c.traces(lk)
		ok := true
		n := 0
		lh := &Interp{P: c.P, Info: lk.Pkg.TypesInfo}
		lsig := lk.Obj.Type().(*types.Signature)
		for _, t := range lin.Traces {
			i := t.first(c.treeCall(lk, subs, "MatchFirst", "Match"))
			if i < 0 {
				ok = false
				continue
			}
			n++
			if lh.objOf(t.Ev[i].Call.Args[0]) != lsig.Params().At(0) {
				ok = false
			}
		}
		r.Check(lk.Name+":Match on subscriptions(topic)", ok && n > 0, lk.Decl.Pos(), len(lin.Traces), "the subscription lookup must match the given topic name against the session's filter tree")
	}
}

func c06Cap(c *Ctx, v *vocab) {
	r := c.Rule("C06/CAP", "TRACE(table)", "every message returned by Dequeue is applyQOS(received message); applyQOS over (published, granted) QoS returns a copy with QOS=granted when published>granted, else the message itself", 11)
	fi := c.mustFunc(r, "broker.(*MemoryBackend).Dequeue")
	ap := c.mustFunc(r, "broker.(*memorySession).applyQOS")
	if fi == nil || ap == nil {
		return
	}
	in := c.traces(fi)
	h := &Interp{P: c.P, Info: fi.Pkg.TypesInfo}
	nret := 0
	for _, t := range in.Traces {
		if t.Exit != ExitReturn || len(t.Results) != 3 {
			continue
		}
		res := ast.Unparen(t.Results[0])
		if tv, ok := fi.Pkg.TypesInfo.Types[res]; ok && tv.IsNil() {
			continue
		}
		nret++
		call, ok := res.(*ast.CallExpr)
		good := false
		if ok {
			if f, _ := h.callee(&state{env: newEnv()}, call).(*types.Func); f == ap.Obj && len(call.Args) == 1 {
				// the argument is the value received on this path
				ri := t.first(func(e *Event) bool { return e.Kind == EvRecv && e.LHS != nil })
				if ri >= 0 && h.objOf(t.Ev[ri].LHS) == h.objOf(call.Args[0]) {
					good = true
				}
			}
		}
		ri := t.first(func(e *Event) bool { return e.Kind == EvRecv })
		q := "?"
		if ri >= 0 && t.Ev[ri].ChanObj != nil {
			q = t.Ev[ri].ChanObj.Name()
		}
		r.Check(fi.Name+":return applyQOS(msg) from "+q, good, t.Ret.Pos(), len(in.Traces), "a message leaves Dequeue without the QoS cap of the matching subscription", c.witness(t)...)
	}
	if nret == 0 {
		r.Undecided(fi.Name, fi.Decl.Pos(), "no message-returning path found")
	}
	// applyQOS table
	mf := c.msgFields()
	subQOS := c.P.Field("packet", "Subscription", "QOS")
	copyFn := c.P.Method("packet", "Message", "Copy")
	ah := &Interp{P: c.P, Info: ap.Pkg.TypesInfo}
	asig := ap.Obj.Type().(*types.Signature)
	msgP := asig.Params().At(0)
	lookup := c.P.Method("broker", "memorySession", "lookupSubscription")
	for pq := int64(0); pq <= 2; pq++ {
		for gq := int64(0); gq <= 2; gq++ {
			ain := c.P.TraceFunc(ap, TraceOpts{Init: map[types.Object]Val{mf.msgQOS: vInt(pq), subQOS: vInt(gq)}})
			key := fmt.Sprintf("%s@published=%d,granted=%d", ap.Name, pq, gq)
			var bad *Trace
			why := ""
			n := 0
			for _, t := range ain.Traces {
				if t.Exit != ExitReturn || len(t.Results) != 1 {
					continue
				}
				// subscription found?
				found := false
				for _, e := range t.Ev {
					if e.Kind == EvOutcome && e.Nilness > 0 && e.DefCall != nil && sameFunc(e.DefCall.Callee, lookup) {
						found = true
					}
				}
				if !found {
					continue
				}
				n++
				copied, capped, wrote := false, false, false
				for _, e := range t.Ev {
					if e.Kind == EvAssign && e.LObj == msgP {
						if call, ok := ast.Unparen(e.RHS).(*ast.CallExpr); ok {
							if f, _ := ah.callee(&state{env: newEnv()}, call).(*types.Func); f == copyFn {
								copied = true
							}
						}
					}
					if e.Kind == EvAssign && e.LObj == mf.msgQOS {
						wrote = true
						if copied && e.RVal.K == VInt && e.RVal.I == gq {
							capped = true
						}
					}
				}
				if ah.objOf(t.Results[0]) != msgP {
					bad, why = t, "applyQOS does not return the (possibly copied) message variable"
				}
				if pq > gq && !(copied && capped) {
					bad, why = t, fmt.Sprintf("published QoS %d > granted %d but the result is not a copy with QOS=%d", pq, gq, gq)
				}
				if pq <= gq && wrote {
					bad, why = t, "QoS written although published <= granted (delivery QoS must be the lower of the two)"
				}
				if wrote && !copied {
					bad, why = t, "the QoS cap is written into the shared message (it is queued for every matching session)"
				}
			}
			r.Check(key, bad == nil && n > 0, ap.Decl.Pos(), len(ain.Traces), why, c.witness(bad)...)
		}
	}
}

func c06Immut(c *Ctx, v *vocab) {
	r := c.Rule("C06/IMMUT", "TRACE", "in package broker a store through *packet.Message is either the one Retain=false before fan-out in Publish or goes to a message freshly obtained on the same path (Copy(), NewPublish, composite literal)", 2)
	mf := c.msgFields()
	fields := map[types.Object]bool{mf.msgQOS: true, mf.msgTopic: true, mf.msgPayload: true, mf.msgRetain: true}
	for _, fi := range c.P.LibFuncs("broker") {
		if fi.Decl.Body == nil {
			continue
		}
		in := c.traces(fi)
		h := &Interp{P: c.P, Info: fi.Pkg.TypesInfo}
		type site struct {
			ok  bool
			why string
			t   *Trace
			e   *Event
		}
		sites := map[ast.Node]*site{}
		var order []ast.Node
		for _, t := range in.Traces {
			for i, e := range t.Ev {
				if e.Kind != EvAssign || !fields[e.LObj] {
					continue
				}
				s, seen := sites[e.Node]
				if !seen {
					s = &site{ok: true, e: e}
					sites[e.Node] = s
					order = append(order, e.Node)
				}
				// root of the left-hand side
				root := ast.Unparen(e.LHS)
				for {
					if sel, ok := root.(*ast.SelectorExpr); ok {
						root = ast.Unparen(sel.X)
						continue
					}
					break
				}
				ro := h.objOf(root)
				fresh := false
				for _, p := range t.Ev[:i] {
					if p.Kind == EvAssign && p.LObj == ro && ro != nil && p.RHS != nil {
						fresh = false
						switch y := ast.Unparen(p.RHS).(type) {
						case *ast.CallExpr:
							if f, ok := h.callee(&state{env: newEnv()}, y).(*types.Func); ok && (f.Name() == "Copy" || c.P.constructorNonNil(f)) {
								fresh = true
							}
						case *ast.UnaryExpr:
							if _, ok := y.X.(*ast.CompositeLit); ok {
								fresh = true
							}
						case *ast.CompositeLit:
							fresh = true
						}
					}
				}
				if fresh {
					continue
				}
				// the one allowed store: Retain=false in Backend.Publish implementations before any queue send
				if e.LObj == mf.msgRetain && fi.Obj.Name() == "Publish" && e.RVal.K == VBool && !e.RVal.B {
					before := true
					for _, p := range t.Ev[:i] {
						if c.isQueueSend(fi)(p) {
							before = false
						}
					}
					if before {
						continue
					}
					s.ok, s.why, s.t = false, "Retain is cleared after the message was already queued for a session", t
					continue
				}
				s.ok, s.why, s.t = false, "store to "+e.LObj.Name()+" of a message that is not fresh on this path: the message is shared by all matching sessions (and by the publisher's packet)", t
			}
		}
		for _, n := range order {
			s := sites[n]
			r.Check(fmt.Sprintf("%s:store %s", fi.Name, c.P.exprStr(s.e.LHS)), s.ok, s.e.Pos, len(in.Traces), s.why, c.witness(s.t)...)
		}
	}
}

func c06Unsub(c *Ctx, v *vocab) {
	r := c.Rule("C06/UNSUB", "TRACE", "Subscribe: subscriptions.Set(sub.Topic, …) for every requested filter before ack(); Unsubscribe: subscriptions.Empty(topic) for every topic before ack(); the subscription tree is never written with Add", 3)
	subs, _, _, _, _, _, _, _ := backendVocab(c)
	for _, name := range []string{"broker.(*MemoryBackend).Subscribe", "broker.(*MemoryBackend).Unsubscribe"} {
		fi := c.mustFunc(r, name)
		if fi == nil {
			continue
		}
		sig := fi.Obj.Type().(*types.Signature)
		ackP := sig.Params().At(2)
		listP := sig.Params().At(1)
		in := c.traces(fi)
		h := &Interp{P: c.P, Info: fi.Pkg.TypesInfo}
		want := "Set"
		if strings.HasSuffix(name, "Unsubscribe") {
			want = "Empty"
		}
		mut := c.treeCall(fi, subs, treeMutators...)
		ok, why := true, ""
		var w *Trace
		nAck, nMut := 0, 0
		for _, t := range in.Traces {
			a := t.first(callToVar(ackP))
			if a >= 0 {
				nAck++
				if t.firstFrom(a+1, mut) >= 0 {
					ok, why, w = false, "the subscription tree is edited after the acknowledgement was released", t
				}
			}
			for i, e := range t.Ev {
				if !mut(e) {
					continue
				}
				nMut++
				f := e.Callee.(*types.Func)
				if f.Name() != want {
					ok, why, w = false, "subscription tree written with "+f.Name()+" (expected "+want+")", t
				}
				// inside a range over the request list, key derived from the range variable
				loops := t.loopsAt(i)
				inList := false
				for _, l := range loops {
					if rs, isR := l.(*ast.RangeStmt); isR && h.objOf(rs.X) == listP {
						inList = true
						key := ast.Unparen(e.Call.Args[0])
						if sel, isSel := key.(*ast.SelectorExpr); isSel {
							key = sel.X
						}
						if rs.Value == nil || (h.objOf(key) != h.objOf(rs.Value) && !copyOf(h, t, i, key, h.objOf(rs.Value))) {
							ok, why, w = false, "the tree key is not the filter of the current request element", t
						}
					}
				}
				if !inList {
					ok, why, w = false, "tree write outside the loop over the requested filters", t
				}
			}
			// every successful path that acks must have visited the loop when the list is non-empty: covered by loop unrolling (1 iteration)
		}
		r.Check(name+":"+want+"≺ack()", ok && nAck > 0 && nMut > 0, fi.Decl.Pos(), len(in.Traces), why, c.witness(w)...)
	}
	// no Add on a subscriptions tree anywhere in broker
	nAdd := 0
	for _, fi := range c.P.LibFuncs("broker") {
		if fi.Decl.Body == nil {
			continue
		}
		in := c.traces(fi)
		for _, t := range in.Traces {
			for _, e := range t.Ev {
				if c.treeCall(fi, subs, "Add")(e) {
					nAdd++
					r.Fail(fi.Name+":subscriptions.Add", e.Pos, len(in.Traces), "a repeated subscription must replace the granted QoS (Set), Add keeps the old one as well")
				}
			}
		}
	}
	if nAdd == 0 {
		r.Pass("broker:no subscriptions.Add", 0, 1, "zero-count rule; positive example: topic.Tree.Add exists and is matched by name in C05")
	}
}

// ------------------------------------------------------------------ C11

const c11Explanation = "Static analysis of the retained-message path: (WRITERS) the retained tree is mutated only in MemoryBackend.Publish, with the decision table over (retain flag, payload empty): Set(topic, copy) / Empty(topic) / nothing; (COPYFLAG) the stored value is msg.Copy() taken before the live message's flag is cleared, so it keeps the flag and is not the shared live object; " +
	"(REPLAY) Subscribe searches the retained tree with every requested filter and queues each result unmodified, non-blocking, on the temporary queue under the global mutex; Dequeue caps QoS for that queue too (C06/CAP); (WILL) the will goes through Backend.Publish unchanged; (SEARCH) the filter-vs-name walk obeys the MQTT table (C04/SEARCH). The retained set after arbitrary histories is not decided."

func propC11(c *Ctx) string {
	v := c.vocab()
	_, tq, _, _, retained, _, _, _ := backendVocab(c)
	gate := c.Rule("C11/VOCAB", "TABLE", "vocabulary resolves", 1)
	if retained == nil || tq == nil || len(v.missing()) > 0 {
		gate.Undecided("vocabulary", 0, "fields not found")
		return c11Explanation
	}
	gate.Pass("vocabulary", 0, 1, "resolved")
	mf := c.msgFields()

	// WRITERS
	r := c.Rule("C11/WRITERS", "TRACE(table)+WHO", "retainedMessages is mutated only in MemoryBackend.Publish; table over (Retain, payload): (T,non-empty)→Set(msg.Topic, msg.Copy()); (T,empty)→Empty(msg.Topic); (F,*)→nothing", 4)
	for _, fi := range c.P.LibFuncs("broker") {
		if fi.Decl.Body == nil || fi.Name == "broker.(*MemoryBackend).Publish" {
			continue
		}
		in := c.traces(fi)
		for _, t := range in.Traces {
			for _, e := range t.Ev {
				if c.treeCall(fi, retained, treeMutators...)(e) {
					r.Fail(fi.Name+":retainedMessages."+e.Callee.Name(), e.Pos, len(in.Traces), "the retained set is edited outside Publish")
				}
			}
		}
	}
	for _, w := range c.writersOf(retained) {
		if w.kind != "literal" {
			r.Fail(w.fn+":retainedMessages "+w.kind, w.pos.Pos(), 1, "the retained tree itself is replaced")
		}
	}
	pub := c.mustFunc(r, "broker.(*MemoryBackend).Publish")
	if pub != nil {
		h := &Interp{P: c.P, Info: pub.Pkg.TypesInfo}
		sig := pub.Obj.Type().(*types.Signature)
		msgP := sig.Params().At(1)
		copyFn := c.P.Method("packet", "Message", "Copy")
		for _, ret := range []bool{true, false} {
			for _, empty := range []bool{true, false} {
				pv := Val{K: VNonEmpty}
				if empty {
					pv = Val{K: VEmpty}
				}
				in := c.P.TraceFunc(pub, TraceOpts{Init: map[types.Object]Val{mf.msgRetain: vBool(ret), mf.msgPayload: pv}})
				key := fmt.Sprintf("%s@retain=%v,payload=%s", pub.Name, ret, pv)
				want := "none"
				if ret && !empty {
					want = "Set"
				} else if ret {
					want = "Empty"
				}
				var bad *Trace
				why := ""
				for _, t := range in.Traces {
					got := "none"
					for i, e := range t.Ev {
						if !c.treeCall(pub, retained, treeMutators...)(e) {
							continue
						}
						if got != "none" {
							bad, why = t, "two edits of the retained tree on one path"
						}
						got = e.Callee.Name()
						// key is msg.Topic
						if sel, ok := ast.Unparen(e.Call.Args[0]).(*ast.SelectorExpr); !ok || h.objOf(sel) != mf.msgTopic || h.objOf(sel.X) != msgP {
							bad, why = t, "retained tree key is not msg.Topic"
						}
						if got == "Set" {
							// value is msg.Copy(), evaluated before Retain=false
							call, ok := ast.Unparen(e.Call.Args[1]).(*ast.CallExpr)
							isCopy := false
							if ok {
								if f, _ := h.callee(&state{env: newEnv()}, call).(*types.Func); f == copyFn {
									if sel, ok := ast.Unparen(call.Fun).(*ast.SelectorExpr); ok && h.objOf(sel.X) == msgP {
										isCopy = true
									}
								}
							}
							if !isCopy {
								bad, why = t, "the retained value is not msg.Copy(): the stored object would be the live shared message whose flag is cleared next"
							}
							for _, p := range t.Ev[:i] {
								if p.Kind == EvAssign && p.LObj == mf.msgRetain {
									bad, why = t, "the retain flag is written before the copy is stored: the stored copy loses the flag"
								}
							}
						}
					}
					if got != want && bad == nil {
						bad, why = t, fmt.Sprintf("retained-tree action %s, expected %s", got, want)
					}
				}
				r.Check(key, bad == nil && len(in.Traces) > 0, pub.Decl.Pos(), len(in.Traces), why, c.witness(bad)...)
			}
		}
	}

	c11Replay(c, retained, tq)

	// WILL
	rw := c.Rule("C11/WILL", "TRACE", "the will is handed to Backend.Publish as stored (same path as a publish; retain flag intact)", 1)
	cl := c.P.ByObj[v.bCleanup]
	if cl == nil {
		rw.Undecided("broker cleanup", 0, "not found")
	} else {
		in := c.traces(cl)
		h := &Interp{P: c.P, Info: cl.Pkg.TypesInfo}
		ok, n := true, 0
		for _, t := range in.Traces {
			for _, e := range t.Ev {
				if callTo(v.bkPublish)(e) {
					n++
					if h.objOf(e.Call.Args[1]) != v.fWill {
						ok = false
					}
				}
				if e.Kind == EvAssign && (e.LObj == mf.msgRetain || e.LObj == mf.msgQOS || e.LObj == mf.msgTopic || e.LObj == mf.msgPayload) {
					ok = false
				}
			}
		}
		rw.Check(cl.Name+":Publish(c.will)", ok && n > 0, cl.Decl.Pos(), len(in.Traces), "the will must be published exactly as supplied at connect")
	}
	// SEARCH table (inherits C04)
	c04Table(c, "C11/SEARCH", "topic.(*Tree).search", searchRef, nil)
	c06CapForC11(c)
	// the retained set is cleared with Empty: pruning must not take values or sub-topics with it; and a will
	// counts as a publish only if it is stored whenever the CONNECT carries one
	c05Prune(c, "C11/PRUNE")
	c12Writers(c, v)
	// the object stored in the retained tree is the object queued on replay: a QoS cap written into it (instead of a
	// copy) changes what later subscribers are replayed
	c06Immut(c, v)
	c.NotDecide("the retained set after arbitrary histories (equality with the last-writer model)", "QoS capping values at runtime (table decided in C06/CAP)", "offline persistent subscribers receiving retained messages published while offline (they receive them as live messages with the flag cleared)")
	c.Assume("topic.Tree.Set replaces, Empty removes (C05)", "instance-insensitive field keys")
	return c11Explanation
}

// the temporary queue is capped as well: Dequeue returns applyQOS for both queues.
func c06CapForC11(c *Ctx) {
	r := c.Rule("C11/CAP", "TRACE", "messages replayed through the temporary queue leave Dequeue through applyQOS (same QoS capping as live deliveries)", 1)
	fi := c.mustFunc(r, "broker.(*MemoryBackend).Dequeue")
	ap := c.P.Func("broker.(*memorySession).applyQOS")
	if fi == nil || ap == nil {
		return
	}
	_, tq, _, _, _, _, _, _ := backendVocab(c)
	in := c.traces(fi)
	h := &Interp{P: c.P, Info: fi.Pkg.TypesInfo}
	ok, n := true, 0
	for _, t := range in.Traces {
		ri := t.first(recvOn(tq))
		if ri < 0 || t.Exit != ExitReturn || len(t.Results) != 3 {
			continue
		}
		n++
		call, isCall := ast.Unparen(t.Results[0]).(*ast.CallExpr)
		if !isCall {
			ok = false
			continue
		}
		if f, _ := h.callee(&state{env: newEnv()}, call).(*types.Func); f != ap.Obj {
			ok = false
		}
	}
	r.Check(fi.Name+":temporaryQueue→applyQOS", ok && n > 0, fi.Decl.Pos(), len(in.Traces), "retained replays must be QoS-capped like live deliveries")
}

// c11Replay: retained replay on subscribe (also inherited by C14: a subscriber must not be able to stall the
// broker through its own retained backlog — the enqueue into its own queue under the global mutex never blocks).
func c11Replay(c *Ctx, retained, tq *types.Var) {
	// REPLAY
	rr := c.Rule("C11/REPLAY", "TRACE", "Subscribe: for every requested filter retainedMessages.Search(sub.Topic); every result is sent unmodified, non-blocking, into temporaryQueue", 2)
	sub := c.mustFunc(rr, "broker.(*MemoryBackend).Subscribe")
	if sub != nil {
		in := c.traces(sub)
		h := &Interp{P: c.P, Info: sub.Pkg.TypesInfo}
		sig := sub.Obj.Type().(*types.Signature)
		listP := sig.Params().At(1)
		nSearch, nSend := 0, 0
		ok, why := true, ""
		var w *Trace
		for _, t := range in.Traces {
			for i, e := range t.Ev {
				if c.treeCall(sub, retained, "Search")(e) {
					nSearch++
					inList := false
					for _, l := range t.loopsAt(i) {
						if rs, isR := l.(*ast.RangeStmt); isR && h.objOf(rs.X) == listP {
							inList = true
							key := ast.Unparen(e.Call.Args[0])
							if sel, isSel := key.(*ast.SelectorExpr); isSel {
								key = sel.X
							}
							if rs.Value == nil || h.objOf(key) != h.objOf(rs.Value) {
								ok, why, w = false, "retained search key is not the filter of the current request element", t
							}
						}
					}
					if !inList {
						ok, why, w = false, "retained search outside the loop over the requested filters", t
					}
				}
				if e.Kind == EvSend && e.ChanObj == tq {
					nSend++
					if e.Blocking {
						ok, why, w = false, "blocking send into the subscriber's own temporary queue under the global mutex", t
					}
					// value: the range variable over the search result, possibly type-asserted
					val := ast.Unparen(e.Val)
					if ta, isTA := val.(*ast.TypeAssertExpr); isTA {
						val = ast.Unparen(ta.X)
					}
					vo := h.objOf(val)
					fromSearch := false
					for _, l := range t.loopsAt(i) {
						if rs, isR := l.(*ast.RangeStmt); isR && rs.Value != nil && h.objOf(rs.Value) == vo {
							ro := h.objOf(rs.X)
							for _, p := range t.Ev[:i] {
								if p.Kind == EvAssign && p.LObj == ro && ro != nil {
									if call, isC := ast.Unparen(p.RHS).(*ast.CallExpr); isC {
										for _, q := range t.Ev[:i] {
											if q.Call == call && c.treeCall(sub, retained, "Search")(q) {
												fromSearch = true
											}
										}
									}
								}
							}
						}
					}
					if !fromSearch {
						ok, why, w = false, "the value queued is not an (unmodified) element of the retained search result", t
					}
				}
				if e.Kind == EvSend && e.ChanObj != tq && c.isQueueSend(sub)(e) {
					ok, why, w = false, "retained replay goes to a queue other than the temporary queue", t
				}
			}
		}
		rr.Check(sub.Name+":Search per filter", ok && nSearch > 0, sub.Decl.Pos(), len(in.Traces), why, c.witness(w)...)
		rr.Check(sub.Name+":replay unmodified, non-blocking", ok && nSend > 0, sub.Decl.Pos(), len(in.Traces), why, c.witness(w)...)
		// lock: Search under globalMutex
		gm := c.P.Field("broker", "MemoryBackend", "globalMutex")
		guards := map[*types.Var]guardSpec{retained: {mutex: gm, anyW: true}}
		res := c.lockAnalysis("broker", guards, nil, 0)
		rl := c.Rule("C11/LOCK", "LOCK", "every use of the retained tree holds the global mutex (publish and subscribe+replay are atomic with respect to each other)", 2)
		c.judgeLocks(rl, res, guards, nil)
	}

}

// copyOf: e names a local whose latest assignment before event upto copied src (x := src; … x.Topic).
func copyOf(h *Interp, t *Trace, upto int, e ast.Expr, src types.Object) bool {
	id, ok := ast.Unparen(e).(*ast.Ident)
	if !ok || src == nil {
		return false
	}
	lo := h.rawObjOf(id)
	if lo == nil {
		return false
	}
	res := false
	for _, p := range t.Ev[:upto] {
		if p.Kind == EvAssign && p.LObj == lo {
			res = evRHSObj(h, p) == src
		}
	}
	return res
}
