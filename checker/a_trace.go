package main

// TRACE: a structured, path-sensitive interpreter over the type-checked AST in continuation-passing
// style. It enumerates the acyclic paths of one function under an abstract valuation and emits, for
// every path, the sequence of type-resolved events plus the exit. Conditions are evaluated over a
// small value lattice, never pattern-matched; what cannot be decided forks the path.

import (
	"fmt"
	"go/ast"
	"go/constant"
	"go/token"
	"go/types"
	"strings"

	"golang.org/x/tools/go/types/typeutil"
)

// ------------------------------------------------------------------ values

type VK int

const (
	VUnknown VK = iota
	VInt
	VBool
	VNil
	VNonNil
	VEmpty    // empty string / slice / map (len == 0)
	VNonEmpty // len > 0
	VPos      // integer > 0, value unknown
	VStr
	VSym // symbolic value; two different symbols are different values
	VLit // function literal
)

type Val struct {
	K   VK
	I   int64
	B   bool
	S   string
	Lit *ast.FuncLit
}

var unknown = Val{}

func vInt(i int64) Val    { return Val{K: VInt, I: i} }
func vBool(b bool) Val    { return Val{K: VBool, B: b} }
func vSym(s string) Val   { return Val{K: VSym, S: s} }
func (v Val) Known() bool { return v.K != VUnknown }
func (v Val) String() string {
	switch v.K {
	case VInt:
		return fmt.Sprint(v.I)
	case VBool:
		return fmt.Sprint(v.B)
	case VNil:
		return "nil"
	case VNonNil:
		return "non-nil"
	case VEmpty:
		return "empty"
	case VNonEmpty:
		return "non-empty"
	case VPos:
		return ">0"
	case VStr:
		return fmt.Sprintf("%q", v.S)
	case VSym:
		return "‹" + v.S + "›"
	case VLit:
		return "func-literal"
	}
	return "?"
}

// ------------------------------------------------------------------ events

type EvKind int

const (
	EvCall EvKind = iota
	EvAssign
	EvSend
	EvRecv
	EvClose
	EvCond     // undecided condition, forked
	EvOutcome  // fork on a variable defined by a call / comma-ok: ok/err, true/false
	EvTypeCase // a type switch clause was taken
	EvSelect   // a select clause was taken
	EvGo
	EvDefer
	EvFuncLit
	EvLoopBegin
	EvLoopEnd
	EvLoopZero // a range statement passed with zero iterations
	EvAccess   // guarded field access (only when requested)
	EvAssert   // x.(T)
	EvPanic
)

var evNames = map[EvKind]string{EvCall: "call", EvAssign: "assign", EvSend: "send", EvRecv: "recv", EvClose: "close",
	EvCond: "cond", EvOutcome: "outcome", EvTypeCase: "typecase", EvSelect: "select", EvGo: "go", EvDefer: "defer",
	EvFuncLit: "funclit", EvLoopBegin: "loop{", EvLoopEnd: "}loop", EvLoopZero: "loop{}", EvAccess: "access", EvAssert: "assert", EvPanic: "panic"}

type Event struct {
	Kind EvKind
	Pos  token.Pos
	Node ast.Node

	// call / go / defer
	Callee   types.Object // *types.Func, *types.Var (function value), *types.Builtin
	Call     *ast.CallExpr
	Lit      *ast.FuncLit // literal bound to the called variable / the literal itself for EvFuncLit
	Deferred bool         // executed at function exit through defer
	ArgVals  []Val
	ArgTypes []types.Type // static argument types, refined by type switches / assertions on the path
	Nilness  int          // EvOutcome/EvCond on `v == nil`/`v != nil`: +1 v is non-nil on this path, -1 nil

	// assign
	LHS, RHS    ast.Expr
	LObj        types.Object // field or variable written
	RVal        Val
	Write       bool // EvAccess: write
	Conditional bool // assignment inside a joined (not forked) if: may or may not have happened

	// channel operations
	Chan      ast.Expr
	ChanObj   types.Object
	Val       ast.Expr
	Blocking  bool
	Select    *ast.SelectStmt
	ChanLit   *ast.FuncLit // channel obtained by calling a variable bound to this literal (queue(sess))
	ChanField *types.Var   // the struct field the channel expression denotes on this path, when it resolves to one

	// cond / outcome
	Cond    ast.Expr
	Outcome bool
	Var     types.Object
	DefCall *Event // the call that defined Var

	RObj    types.Object   // EvAssign: the object the right-hand side names on this path (through inlined helpers' parameters)
	ArgObjs []types.Object // EvCall: the same for each argument (nil where the argument is not a name)
	Made    *MadeInfo      // EvAssign: the make(...) the assigned value was created by on this path (through helpers)
	RetExpr ast.Expr       // EvAssign from an inlined helper call: the operand of the helper's return statement on this path

	// type case / assert
	Types    []types.Type
	Default  bool
	Clause   ast.Node
	CommaOk  bool
	LoopStmt ast.Stmt
	Depth    int // inline depth
	InFunc   *types.Func
}

func (p *Program) exprStr(e ast.Expr) string {
	if e == nil {
		return ""
	}
	return types.ExprString(e)
}

func (p *Program) EvString(e *Event) string {
	s := evNames[e.Kind]
	switch e.Kind {
	case EvCall, EvGo, EvDefer:
		name := ""
		switch c := e.Callee.(type) {
		case *types.Func:
			name = FuncName(c)
		case nil:
			name = p.exprStr(e.Call.Fun)
		default:
			name = c.Name()
		}
		var args []string
		if e.Call != nil {
			for _, a := range e.Call.Args {
				args = append(args, p.exprStr(a))
			}
		}
		s += " " + name + "(" + strings.Join(args, ", ") + ")"
		if e.Deferred {
			s += " [deferred]"
		}
	case EvAssign:
		s += " " + p.exprStr(e.LHS) + " = " + p.exprStr(e.RHS)
	case EvSend:
		s += " " + p.exprStr(e.Chan) + " <- " + p.exprStr(e.Val)
		if !e.Blocking {
			s += " [non-blocking]"
		}
	case EvRecv:
		s += " <-" + p.exprStr(e.Chan)
		if !e.Blocking {
			s += " [non-blocking]"
		}
	case EvClose:
		s += " " + p.exprStr(e.Chan)
	case EvCond:
		s += fmt.Sprintf(" [%s] = %v", p.exprStr(e.Cond), e.Outcome)
	case EvOutcome:
		s += fmt.Sprintf(" %s is %v", e.Var.Name(), e.Outcome)
		if e.DefCall != nil && e.DefCall.Call != nil {
			s += " (from " + p.exprStr(e.DefCall.Call.Fun) + ")"
		}
	case EvTypeCase:
		if e.Default {
			s += " default"
		} else {
			var ts []string
			for _, t := range e.Types {
				if t == nil {
					ts = append(ts, "nil")
				} else {
					ts = append(ts, types.TypeString(t, func(p *types.Package) string { return p.Name() }))
				}
			}
			s += " " + strings.Join(ts, ",")
		}
	case EvSelect:
		if e.Default {
			s += " default"
		}
	case EvAccess:
		if e.Write {
			s += " write " + e.LObj.Name()
		} else {
			s += " read " + e.LObj.Name()
		}
	case EvAssert:
		s += " " + p.exprStr(e.RHS)
	}
	return s + " @" + p.Pos(e.Pos)
}

// ------------------------------------------------------------------ traces

type ExitKind int

const (
	ExitReturn ExitKind = iota
	ExitLoopBack
	ExitPanic
)

type Trace struct {
	Ev      []*Event
	Exit    ExitKind
	Ret     *ast.ReturnStmt
	Results []ast.Expr
	RVals   []Val
	Env     *env
}

func (p *Program) TraceStrings(t *Trace) []string {
	var out []string
	for _, e := range t.Ev {
		if e.Kind == EvLoopBegin || e.Kind == EvLoopEnd || e.Kind == EvLoopZero {
			continue
		}
		out = append(out, p.EvString(e))
	}
	switch t.Exit {
	case ExitReturn:
		var rs []string
		for i, r := range t.Results {
			s := p.exprStr(r)
			if i < len(t.RVals) && t.RVals[i].Known() {
				s += "=" + t.RVals[i].String()
			}
			rs = append(rs, s)
		}
		pos := ""
		if t.Ret != nil {
			pos = " @" + p.Pos(t.Ret.Pos())
		}
		out = append(out, "return "+strings.Join(rs, ", ")+pos)
	case ExitLoopBack:
		out = append(out, "loop back-edge")
	case ExitPanic:
		out = append(out, "panic")
	}
	return out
}

// ------------------------------------------------------------------ environment

type link struct {
	target     types.Object // variable that becomes non-nil when the ok variable is true
	nilOnFalse bool
	operand    types.Object // asserted operand: its dynamic type is typ when ok is true
	typ        types.Type
}

type env struct {
	vals  map[types.Object]Val
	defs  map[types.Object]*Event // variable defined by the result of this call / comma-ok
	links map[types.Object]link
	typs  map[types.Object]types.Type   // refined dynamic type of a variable (type switch / assertion)
	alias map[types.Object]types.Object // parameter of an inlined NEW helper -> the object passed at this call
	made  map[types.Object]*MadeInfo    // variable / field that holds the result of a make(...) on this path
	argEx map[types.Object]ast.Expr     // parameter of an inlined NEW helper -> the argument expression at this call
}

// MadeInfo describes the make(...) call a channel, map or slice variable was created by on the path.
type MadeInfo struct {
	Call    *ast.CallExpr
	SizeRaw types.Object // the object the size argument names where it is written (a parameter inside a helper)
	SizeObj types.Object // the same resolved through the parameters of inlined helpers
}

func newEnv() *env {
	return &env{vals: map[types.Object]Val{}, defs: map[types.Object]*Event{}, links: map[types.Object]link{}, typs: map[types.Object]types.Type{},
		alias: map[types.Object]types.Object{}, made: map[types.Object]*MadeInfo{}, argEx: map[types.Object]ast.Expr{}}
}

func (e *env) clone() *env {
	n := newEnv()
	for k, v := range e.vals {
		n.vals[k] = v
	}
	for k, v := range e.defs {
		n.defs[k] = v
	}
	for k, v := range e.links {
		n.links[k] = v
	}
	for k, v := range e.typs {
		n.typs[k] = v
	}
	for k, v := range e.alias {
		n.alias[k] = v
	}
	for k, v := range e.made {
		n.made[k] = v
	}
	for k, v := range e.argEx {
		n.argEx[k] = v
	}
	return n
}

type evList struct {
	ev   *Event
	prev *evList
	n    int
}

type deferred struct {
	call *ast.CallExpr
	prev *deferredList
}
type deferredList = deferred

type state struct {
	env    *env
	evs    *evList
	defers *deferred
	depth  int
	stack  []*types.Func // inline stack
	// the objects an inlined helper's return operands named (set when the helper returns, consumed by the binding
	// of its results)
	retObjs []types.Object
	retExs  []ast.Expr
}

func (s *state) fork() *state {
	return &state{env: s.env.clone(), evs: s.evs, defers: s.defers, depth: s.depth, stack: s.stack, retObjs: s.retObjs, retExs: s.retExs}
}

func (s *state) emit(e *Event) *Event {
	n := 0
	if s.evs != nil {
		n = s.evs.n
	}
	e.Depth = s.depth
	s.evs = &evList{ev: e, prev: s.evs, n: n + 1}
	return e
}

func (s *state) events() []*Event {
	if s.evs == nil {
		return nil
	}
	out := make([]*Event, s.evs.n)
	for l := s.evs; l != nil; l = l.prev {
		out[l.n-1] = l.ev
	}
	return out
}

// ------------------------------------------------------------------ interpreter

type TraceOpts struct {
	Init     map[types.Object]Val                                // initial valuation (fields are keyed by field object, instance-insensitive)
	Oracle   func(in *Interp, st *state, e ast.Expr) (Val, bool) // optional: value of an expression, overriding evaluation
	Force    map[types.Object]Val                                // objects whose value is fixed for the whole run (survives assignments)
	Inline   func(f *types.Func) bool                            // inline calls to these same-program functions (statement-level calls)
	MaxDepth int                                                 // inline depth
	MaxIter  int                                                 // loop body repetitions (default 1)
	Access   map[*types.Var]bool                                 // report accesses to these fields
	NonNil   func(f *types.Func) bool                            // calls whose (first) result is never nil
	PassArg  map[*types.Func]int                                 // calls whose result is non-nil whenever argument i is non-nil
	MaxPaths int
	NoHavoc  bool
	NoMerge  bool                  // do not join call-free ifs over basic-typed assignments
	Keep     map[types.Object]bool // objects whose assignments / tests must stay path-sensitive
}

type Interp struct {
	P           *Program
	Info        *types.Info
	Opts        TraceOpts
	Traces      []*Trace
	Over        bool // budget exhausted
	fn          *types.Func
	Unsupported []string
}

type frame struct {
	brk     func(*state)
	cnt     func(*state)
	ret     func(*state, *ast.ReturnStmt, []ast.Expr, []Val)
	labels  map[string]*frame
	infoPkg *types.Info
}

// TraceFunc enumerates the traces of a declared function.
func (p *Program) TraceFunc(fi *FuncInfo, opts TraceOpts) *Interp {
	in := &Interp{P: p, Info: fi.Pkg.TypesInfo, Opts: opts, fn: fi.Obj}
	in.run(fi.Decl.Body, fi.Decl.Type, fi.Obj)
	return in
}

// TraceLit enumerates the traces of a function literal that lives in the package of fi.
func (p *Program) TraceLit(fi *FuncInfo, lit *ast.FuncLit, opts TraceOpts) *Interp {
	in := &Interp{P: p, Info: fi.Pkg.TypesInfo, Opts: opts, fn: fi.Obj}
	in.run(lit.Body, lit.Type, fi.Obj)
	return in
}

func (in *Interp) run(body *ast.BlockStmt, ft *ast.FuncType, fn *types.Func) {
	if in.Opts.MaxIter == 0 {
		in.Opts.MaxIter = 1
	}
	if in.Opts.MaxPaths == 0 {
		in.Opts.MaxPaths = 20000
	}
	st := &state{env: newEnv()}
	for k, v := range in.Opts.Init {
		st.env.vals[k] = v
	}
	if fn != nil {
		st.stack = []*types.Func{fn}
	}
	fr := &frame{}
	fr.ret = func(s *state, r *ast.ReturnStmt, res []ast.Expr, vals []Val) {
		in.runDefers(s)
		in.finish(s, ExitReturn, r, res, vals)
	}
	in.block(st, body.List, fr, func(s *state) {
		// fell off the end
		fr.ret(s, nil, nil, nil)
	})
}

func (in *Interp) finish(s *state, k ExitKind, r *ast.ReturnStmt, res []ast.Expr, vals []Val) {
	if len(in.Traces) >= in.Opts.MaxPaths {
		in.Over = true
		return
	}
	in.Traces = append(in.Traces, &Trace{Ev: s.events(), Exit: k, Ret: r, Results: res, RVals: vals, Env: s.env})
}

func (in *Interp) runDefers(s *state) {
	for d := s.defers; d != nil; d = d.prev {
		in.callEvent(s, d.call, true)
	}
	s.defers = nil
}

func (in *Interp) unsupported(what string, pos token.Pos) {
	in.Unsupported = append(in.Unsupported, what+" at "+in.P.Pos(pos))
}

func (in *Interp) block(st *state, list []ast.Stmt, fr *frame, k func(*state)) {
	if in.Over {
		return
	}
	if len(list) == 0 {
		k(st)
		return
	}
	in.stmt(st, list[0], fr, func(s *state) { in.block(s, list[1:], fr, k) })
}

func (in *Interp) objOf(e ast.Expr) types.Object {
	o := in.rawObjOf(e)
	if o != nil && in.P != nil && in.P.Alias != nil {
		return in.P.resolveAlias(o)
	}
	return o
}

// pathObj resolves an expression to the object it names on this path: like objOf, and additionally through the
// parameters of inlined helpers (bound to their argument objects at this call site).
func (in *Interp) pathObj(st *state, e ast.Expr) types.Object {
	o := in.objOf(e)
	for i := 0; i < 6 && o != nil; i++ {
		t, ok := st.env.alias[o]
		if !ok || t == o {
			break
		}
		o = t
	}
	return o
}

// lhsObj: the object written by an assignment to l: a plain identifier is itself (a named local is only ever
// written by its own definition), anything else resolves like objOf.
func (in *Interp) lhsObj(l ast.Expr) types.Object {
	if id, ok := ast.Unparen(l).(*ast.Ident); ok {
		return in.rawObjOf(id)
	}
	return in.objOf(l)
}

// chanField resolves a channel expression to the struct field it denotes on this path: a field selection, or a
// call of a function literal / in-repo function whose feasible returns (under the current valuation) all yield
// the same field (queue(sess), sess.queueFor(qos)).
func (in *Interp) chanField(st *state, e ast.Expr, depth int) *types.Var {
	e = ast.Unparen(e)
	if depth > 3 {
		return nil
	}
	call, isCall := e.(*ast.CallExpr)
	if !isCall {
		if fv, ok := in.pathObj(st, e).(*types.Var); ok && fv.IsField() {
			return fv
		}
		return nil
	}
	var body *ast.BlockStmt
	var params []*types.Var
	var recv *types.Var
	sub := &Interp{P: in.P, Info: in.Info, Opts: in.Opts, fn: in.fn}
	switch f := in.callee(st, call).(type) {
	case *types.Var:
		if v, ok := st.env.vals[f]; ok && v.K == VLit && v.Lit != nil {
			body = v.Lit.Body
			if v.Lit.Type.Params != nil {
				for _, fld := range v.Lit.Type.Params.List {
					for _, n := range fld.Names {
						if pv, ok := in.Info.Defs[n].(*types.Var); ok {
							params = append(params, pv)
						}
					}
				}
			}
		}
	case *types.Func:
		if fi := in.P.ByObj[f]; fi != nil && fi.Decl.Body != nil {
			body = fi.Decl.Body
			sub.Info, sub.fn = fi.Pkg.TypesInfo, f
			sig := f.Type().(*types.Signature)
			recv = sig.Recv()
			for i := 0; i < sig.Params().Len(); i++ {
				params = append(params, sig.Params().At(i))
			}
		}
	}
	if body == nil {
		return nil
	}
	s := st.fork()
	if recv != nil {
		if sel, ok := ast.Unparen(call.Fun).(*ast.SelectorExpr); ok {
			if ao := in.pathObj(st, sel.X); ao != nil {
				s.env.alias[recv] = ao
			}
		}
	}
	for i, p := range params {
		delete(s.env.vals, p)
		delete(s.env.alias, p)
		if i < len(call.Args) {
			if v := in.eval(st, call.Args[i]); v.Known() {
				s.env.vals[p] = v
			}
			if ao := in.pathObj(st, call.Args[i]); ao != nil {
				s.env.alias[p] = ao
			}
		}
	}
	var out *types.Var
	ok, n := true, 0
	fr := &frame{}
	fr.ret = func(rs *state, r *ast.ReturnStmt, res []ast.Expr, vals []Val) {
		n++
		if len(res) != 1 {
			ok = false
			return
		}
		f := sub.chanField(rs, res[0], depth+1)
		if f == nil || (out != nil && out != f) {
			ok = false
		}
		out = f
	}
	sub.block(s, body.List, fr, func(*state) { ok = false })
	if ok && n > 0 && !sub.Over {
		return out
	}
	return nil
}

// rawObjOf resolves an expression to the object it names, without alias resolution.
func (in *Interp) rawObjOf(e ast.Expr) types.Object {
	switch x := e.(type) {
	case *ast.Ident:
		if o := in.Info.Uses[x]; o != nil {
			return o
		}
		return in.Info.Defs[x]
	case *ast.SelectorExpr:
		if sel := in.Info.Selections[x]; sel != nil {
			return sel.Obj()
		}
		return in.Info.Uses[x.Sel]
	case *ast.ParenExpr:
		return in.rawObjOf(x.X)
	case *ast.StarExpr:
		return in.rawObjOf(x.X)
	}
	return nil
}

// stmt interprets one statement.
func (in *Interp) stmt(st *state, s ast.Stmt, fr *frame, k func(*state)) {
	if in.Over {
		return
	}
	// calls of NEW helpers nested inside the statement's expressions are interpreted first, in evaluation
	// order, so that the statements a refactoring moved into them are seen where they run
	if len(in.P.NewFuncs) > 0 && s != nil {
		if calls := in.nestedNewCalls(st, s); len(calls) > 0 {
			var run func(s0 *state, i int)
			run = func(s0 *state, i int) {
				if i == len(calls) {
					in.stmtCore(s0, s, fr, k)
					return
				}
				in.callStmt(s0, calls[i], fr, func(s1 *state, _ []Val) { run(s1, i+1) })
			}
			run(st, 0)
			return
		}
	}
	in.stmtCore(st, s, fr, k)
}

// nestedNewCalls: calls of NEW helpers inside the expressions evaluated by statement s itself (not inside nested
// statements, function literals, go / defer), innermost first; the call that is the whole statement / sole
// right-hand side / sole return operand / the (negated, conjoined) condition is left to the regular inlining.
func (in *Interp) nestedNewCalls(st *state, s ast.Stmt) []*ast.CallExpr {
	var roots []ast.Expr
	top := func(e ast.Expr) ast.Expr { return ast.Unparen(e) }
	var direct ast.Expr
	switch x := s.(type) {
	case *ast.ExprStmt:
		roots, direct = []ast.Expr{x.X}, top(x.X)
	case *ast.AssignStmt:
		roots = append(roots, x.Rhs...)
		for _, l := range x.Lhs {
			roots = append(roots, l)
		}
		if len(x.Rhs) == 1 {
			direct = top(x.Rhs[0])
		}
	case *ast.ReturnStmt:
		roots = append(roots, x.Results...)
		if len(x.Results) == 1 {
			direct = top(x.Results[0])
		}
	case *ast.IncDecStmt:
		roots = []ast.Expr{x.X}
	case *ast.SendStmt:
		roots = []ast.Expr{x.Chan, x.Value}
	case *ast.SwitchStmt:
		if x.Tag != nil {
			roots = []ast.Expr{x.Tag}
		}
	case *ast.RangeStmt:
		roots = []ast.Expr{x.X}
	case *ast.IfStmt:
		// a condition built from !, &&, || over direct calls is interpreted by cond(); anything else here
		var leaves func(e ast.Expr)
		leaves = func(e ast.Expr) {
			switch y := ast.Unparen(e).(type) {
			case *ast.UnaryExpr:
				if y.Op == token.NOT {
					leaves(y.X)
					return
				}
			case *ast.BinaryExpr:
				if y.Op == token.LAND || y.Op == token.LOR {
					leaves(y.X)
					leaves(y.Y)
					return
				}
			case *ast.CallExpr:
				// arguments of a direct call may still contain nested calls
				for _, a := range y.Args {
					roots = append(roots, a)
				}
				return
			}
			roots = append(roots, e)
		}
		if x.Init == nil {
			leaves(x.Cond)
		}
	default:
		return nil
	}
	var out []*ast.CallExpr
	for _, r := range roots {
		ast.Inspect(r, func(m ast.Node) bool {
			switch y := m.(type) {
			case *ast.FuncLit:
				return false
			case *ast.CallExpr:
				if ast.Expr(y) == direct {
					return true
				}
				if f, ok := in.callee(st, y).(*types.Func); ok && in.P.NewFuncs[f] {
					out = append(out, y)
				}
			}
			return true
		})
	}
	// innermost first: reverse pre-order is a valid evaluation order for nesting (arguments before the call)
	for i, j := 0, len(out)-1; i < j; i, j = i+1, j-1 {
		out[i], out[j] = out[j], out[i]
	}
	return out
}

func (in *Interp) stmtCore(st *state, s ast.Stmt, fr *frame, k func(*state)) {
	switch x := s.(type) {
	case nil:
		k(st)
	case *ast.BlockStmt:
		in.block(st, x.List, fr, k)
	case *ast.EmptyStmt:
		k(st)
	case *ast.ExprStmt:
		if call, ok := ast.Unparen(x.X).(*ast.CallExpr); ok {
			if in.isPanic(call) {
				in.exprEvents(st, call)
				st.emit(&Event{Kind: EvPanic, Pos: call.Pos(), Node: call, Call: call})
				in.runDefers(st)
				in.finish(st, ExitPanic, nil, nil, nil)
				return
			}
			in.callStmt(st, call, fr, func(s *state, _ []Val) { k(s) })
			return
		}
		in.exprEvents(st, x.X)
		k(st)
	case *ast.DeclStmt:
		gd, ok := x.Decl.(*ast.GenDecl)
		if ok && gd.Tok == token.VAR {
			for _, sp := range gd.Specs {
				vs := sp.(*ast.ValueSpec)
				if len(vs.Values) == 0 {
					for _, n := range vs.Names {
						obj := in.Info.Defs[n]
						if obj != nil {
							st.env.vals[obj] = zeroVal(obj.Type())
						}
					}
					continue
				}
				lhs := make([]ast.Expr, len(vs.Names))
				for i, n := range vs.Names {
					lhs[i] = n
				}
				in.assign(st, lhs, vs.Values, token.DEFINE, x, fr, k)
				return
			}
		}
		k(st)
	case *ast.AssignStmt:
		in.assign(st, x.Lhs, x.Rhs, x.Tok, x, fr, k)
	case *ast.IncDecStmt:
		in.exprEvents(st, x.X)
		obj := in.objOf(x.X)
		ev := &Event{Kind: EvAssign, Pos: x.Pos(), Node: x, LHS: x.X, LObj: obj}
		if obj != nil {
			old := in.eval(st, x.X)
			nv := unknown
			if old.K == VInt {
				if x.Tok == token.INC {
					nv = vInt(old.I + 1)
				} else {
					nv = vInt(old.I - 1)
				}
			}
			st.env.vals[in.key(x.X)] = nv
			ev.RVal = nv
		}
		st.emit(ev)
		in.access(st, x.X, true)
		k(st)
	case *ast.SendStmt:
		in.exprEvents(st, x.Chan)
		in.exprEvents(st, x.Value)
		st.emit(&Event{Kind: EvSend, Pos: x.Pos(), Node: x, Chan: x.Chan, ChanObj: in.chanObj(st, x.Chan), ChanLit: in.chanLit(st, x.Chan), ChanField: in.chanField(st, x.Chan, 0), Val: x.Value, Blocking: true})
		k(st)
	case *ast.GoStmt:
		in.argEvents(st, x.Call)
		ev := &Event{Kind: EvGo, Pos: x.Pos(), Node: x, Call: x.Call, Callee: in.callee(st, x.Call)}
		if lit, ok := ast.Unparen(x.Call.Fun).(*ast.FuncLit); ok {
			ev.Lit = lit
		}
		st.emit(ev)
		k(st)
	case *ast.DeferStmt:
		in.argEvents(st, x.Call)
		ev := &Event{Kind: EvDefer, Pos: x.Pos(), Node: x, Call: x.Call, Callee: in.callee(st, x.Call)}
		if lit, ok := ast.Unparen(x.Call.Fun).(*ast.FuncLit); ok {
			ev.Lit = lit
		}
		st.emit(ev)
		st.defers = &deferred{call: x.Call, prev: st.defers}
		k(st)
	case *ast.ReturnStmt:
		in.returnStmt(st, x, fr)
	case *ast.BranchStmt:
		switch x.Tok {
		case token.BREAK:
			if x.Label != nil || fr.brk == nil {
				in.unsupported("labelled break", x.Pos())
				in.Over = true
				return
			}
			fr.brk(st)
		case token.CONTINUE:
			if x.Label != nil || fr.cnt == nil {
				in.unsupported("labelled continue", x.Pos())
				in.Over = true
				return
			}
			fr.cnt(st)
		default:
			in.unsupported(x.Tok.String(), x.Pos())
			in.Over = true
		}
	case *ast.LabeledStmt:
		in.stmt(st, x.Stmt, fr, k)
	case *ast.IfStmt:
		if in.boringIf(st, x) {
			in.mergeIf(st, x)
			k(st)
			return
		}
		in.stmt(st, x.Init, fr, func(s *state) {
			in.cond(s, x.Cond, func(s1 *state) {
				in.block(s1, x.Body.List, fr, k)
			}, func(s2 *state) {
				if x.Else == nil {
					k(s2)
				} else {
					in.stmt(s2, x.Else, fr, k)
				}
			})
		})
	case *ast.ForStmt:
		in.forStmt(st, x, fr, k)
	case *ast.RangeStmt:
		in.rangeStmt(st, x, fr, k)
	case *ast.SwitchStmt:
		in.switchStmt(st, x, fr, k)
	case *ast.TypeSwitchStmt:
		in.typeSwitch(st, x, fr, k)
	case *ast.SelectStmt:
		in.selectStmt(st, x, fr, k)
	default:
		in.unsupported(fmt.Sprintf("%T", s), s.Pos())
		in.Over = true
	}
}

func zeroVal(t types.Type) Val {
	switch u := t.Underlying().(type) {
	case *types.Basic:
		switch {
		case u.Info()&types.IsBoolean != 0:
			return vBool(false)
		case u.Info()&types.IsInteger != 0:
			return vInt(0)
		case u.Info()&types.IsString != 0:
			return Val{K: VEmpty}
		}
	case *types.Pointer, *types.Interface, *types.Signature, *types.Chan:
		return Val{K: VNil}
	case *types.Slice, *types.Map:
		return Val{K: VEmpty}
	}
	return unknown
}

func (in *Interp) isPanic(call *ast.CallExpr) bool {
	if id, ok := ast.Unparen(call.Fun).(*ast.Ident); ok {
		if b, ok := in.Info.Uses[id].(*types.Builtin); ok && b.Name() == "panic" {
			return true
		}
	}
	return false
}

func (in *Interp) returnStmt(st *state, x *ast.ReturnStmt, fr *frame) {
	// `return f(...)` with an inlinable call: inline it
	if len(x.Results) == 1 {
		if call, ok := ast.Unparen(x.Results[0]).(*ast.CallExpr); ok && in.inlinable(st, call) != nil {
			in.callStmt(st, call, fr, func(s *state, vals []Val) {
				res := x.Results
				fr.ret(s, x, res, vals)
			})
			return
		}
	}
	for _, r := range x.Results {
		in.exprEvents(st, r)
	}
	done := func(s *state) {
		var vals []Val
		for _, r := range x.Results {
			vals = append(vals, in.eval(s, r))
		}
		fr.ret(s, x, x.Results, vals)
	}
	// `return v, err` with an untested error variable that a call defined is the single-exit spelling of
	// `if err != nil { return v, err }; return v, nil`: fork on it the same way
	if n := len(x.Results); n >= 1 {
		if id, ok := ast.Unparen(x.Results[n-1]).(*ast.Ident); ok && id.Name != "nil" {
			o, ko := in.objOf(id), in.key(id)
			if o != nil && ko != nil && isErrType(o.Type()) && !in.eval(st, id).Known() {
				if d, ok := st.env.defs[o]; ok {
					cond := &ast.BinaryExpr{X: id, OpPos: id.End(), Op: token.NEQ, Y: &ast.Ident{NamePos: id.End(), Name: "nil"}}
					sE, sN := st.fork(), st.fork()
					sE.env.vals[ko] = Val{K: VNonNil}
					sE.emit(&Event{Kind: EvOutcome, Pos: id.Pos(), Node: cond, Cond: cond, Outcome: true, Var: o, DefCall: d, Nilness: 1})
					sN.env.vals[ko] = Val{K: VNil}
					sN.emit(&Event{Kind: EvOutcome, Pos: id.Pos(), Node: cond, Cond: cond, Outcome: false, Var: o, DefCall: d, Nilness: -1})
					done(sE)
					done(sN)
					return
				}
			}
		}
	}
	done(st)
}

// collectAssigned lists the objects assigned anywhere inside n (excluding nested function literals).
func (in *Interp) collectAssigned(n ast.Node) []types.Object {
	var out []types.Object
	add := func(e ast.Expr) {
		if o := in.objOf(e); o != nil {
			out = append(out, o)
		}
	}
	ast.Inspect(n, func(m ast.Node) bool {
		switch y := m.(type) {
		case *ast.FuncLit:
			return false
		case *ast.AssignStmt:
			for _, l := range y.Lhs {
				add(l)
			}
		case *ast.IncDecStmt:
			add(y.X)
		case *ast.RangeStmt:
			if y.Key != nil {
				add(y.Key)
			}
			if y.Value != nil {
				add(y.Value)
			}
		}
		return true
	})
	return out
}

func (in *Interp) havoc(st *state, n ast.Node) {
	if in.Opts.NoHavoc {
		return
	}
	for _, o := range in.collectAssigned(n) {
		delete(st.env.vals, o)
		delete(st.env.defs, o)
		delete(st.env.links, o)
		in.invalidate(st, o)
	}
}

func (in *Interp) forStmt(st *state, x *ast.ForStmt, fr *frame, k func(*state)) {
	in.stmt(st, x.Init, fr, func(s0 *state) {
		in.havoc(s0, x)
		exit := func(s *state) {
			in.havoc(s, x)
			s.emit(&Event{Kind: EvLoopEnd, Pos: x.End(), Node: x, LoopStmt: x})
			k(s)
		}
		var iter func(s *state, n int)
		iter = func(s *state, n int) {
			body := func(sb *state) {
				sb.emit(&Event{Kind: EvLoopBegin, Pos: x.Pos(), Node: x, LoopStmt: x})
				nfr := *fr
				after := func(sa *state) {
					// end of one iteration (normal end or continue)
					in.stmt(sa, x.Post, fr, func(sp *state) {
						if x.Cond == nil {
							if n+1 < in.Opts.MaxIter {
								sp2 := sp.fork()
								sp2.emit(&Event{Kind: EvLoopEnd, Pos: x.End(), Node: x, LoopStmt: x})
								in.havoc(sp2, x)
								iter(sp2, n+1)
							}
							sp.emit(&Event{Kind: EvLoopEnd, Pos: x.End(), Node: x, LoopStmt: x})
							in.runDefersPeek(sp)
							in.finish(sp, ExitLoopBack, nil, nil, nil)
							return
						}
						if n+1 < in.Opts.MaxIter {
							sp2 := sp.fork()
							sp2.emit(&Event{Kind: EvLoopEnd, Pos: x.End(), Node: x, LoopStmt: x})
							in.havoc(sp2, x)
							iter(sp2, n+1)
						}
						exit(sp)
					})
				}
				nfr.cnt = after
				nfr.brk = func(sb2 *state) {
					sb2.emit(&Event{Kind: EvLoopEnd, Pos: x.End(), Node: x, LoopStmt: x})
					in.havoc(sb2, x)
					k(sb2)
				}
				in.block(sb, x.Body.List, &nfr, after)
			}
			if x.Cond == nil {
				body(s)
				return
			}
			in.cond(s, x.Cond, body, func(sf *state) {
				if n == 0 {
					k(sf)
				} else {
					exit(sf)
				}
			})
		}
		iter(s0, 0)
	})
}

// runDefersPeek does nothing: a loop back-edge is not a function exit.
func (in *Interp) runDefersPeek(s *state) {}

func (in *Interp) rangeStmt(st *state, x *ast.RangeStmt, fr *frame, k func(*state)) {
	in.exprEvents(st, x.X)
	in.access(st, x.X, false)
	coll := in.eval(st, x.X)
	in.havoc(st, x)
	// zero iterations
	if coll.K != VNonEmpty {
		s0 := st.fork()
		s0.emit(&Event{Kind: EvLoopZero, Pos: x.Pos(), Node: x, LoopStmt: x})
		k(s0)
	}
	if coll.K == VEmpty {
		return
	}
	var iter func(s *state, n int)
	iter = func(s *state, n int) {
		s.emit(&Event{Kind: EvLoopBegin, Pos: x.Pos(), Node: x, LoopStmt: x})
		for _, kv := range []ast.Expr{x.Key, x.Value} {
			if kv != nil {
				if o := in.objOf(kv); o != nil {
					delete(s.env.vals, o)
				}
			}
		}
		nfr := *fr
		after := func(sa *state) {
			sa.emit(&Event{Kind: EvLoopEnd, Pos: x.End(), Node: x, LoopStmt: x})
			if n+1 < in.Opts.MaxIter {
				s2 := sa.fork()
				in.havoc(s2, x)
				iter(s2, n+1)
			}
			in.havoc(sa, x)
			k(sa)
		}
		nfr.cnt = after
		nfr.brk = func(sb *state) {
			sb.emit(&Event{Kind: EvLoopEnd, Pos: x.End(), Node: x, LoopStmt: x})
			in.havoc(sb, x)
			k(sb)
		}
		in.block(s, x.Body.List, &nfr, after)
	}
	iter(st, 0)
}

func (in *Interp) switchStmt(st *state, x *ast.SwitchStmt, fr *frame, k func(*state)) {
	in.stmt(st, x.Init, fr, func(s0 *state) {
		if x.Tag != nil {
			in.exprEvents(s0, x.Tag)
		}
		nfr := *fr
		nfr.brk = k
		var clauses []*ast.CaseClause
		var def *ast.CaseClause
		for _, c := range x.Body.List {
			cc := c.(*ast.CaseClause)
			for _, s := range cc.Body {
				if b, ok := s.(*ast.BranchStmt); ok && b.Tok == token.FALLTHROUGH {
					in.unsupported("fallthrough", b.Pos())
					in.Over = true
					return
				}
			}
			if cc.List == nil {
				def = cc
			} else {
				clauses = append(clauses, cc)
			}
		}
		var try func(s *state, ci, ei int)
		try = func(s *state, ci, ei int) {
			if ci >= len(clauses) {
				if def != nil {
					in.block(s, def.Body, &nfr, k)
				} else {
					k(s)
				}
				return
			}
			cc := clauses[ci]
			if ei >= len(cc.List) {
				try(s, ci+1, 0)
				return
			}
			var c ast.Expr
			if x.Tag != nil {
				c = &ast.BinaryExpr{X: x.Tag, Op: token.EQL, Y: cc.List[ei], OpPos: cc.List[ei].Pos()}
			} else {
				c = cc.List[ei]
			}
			in.cond(s, c, func(st2 *state) { in.block(st2, cc.Body, &nfr, k) }, func(sf *state) { try(sf, ci, ei+1) })
		}
		try(s0, 0, 0)
	})
}

func (in *Interp) typeSwitch(st *state, x *ast.TypeSwitchStmt, fr *frame, k func(*state)) {
	in.stmt(st, x.Init, fr, func(s0 *state) {
		var operand ast.Expr
		switch a := x.Assign.(type) {
		case *ast.AssignStmt:
			operand = ast.Unparen(a.Rhs[0]).(*ast.TypeAssertExpr).X
		case *ast.ExprStmt:
			operand = ast.Unparen(a.X).(*ast.TypeAssertExpr).X
		}
		in.exprEvents(s0, operand)
		opObj := in.objOf(operand)
		nfr := *fr
		nfr.brk = k
		hasDefault := false
		for _, c := range x.Body.List {
			cc := c.(*ast.CaseClause)
			s := s0.fork()
			ev := &Event{Kind: EvTypeCase, Pos: cc.Pos(), Node: x, Clause: cc, RHS: operand}
			if cc.List == nil {
				hasDefault = true
				ev.Default = true
			}
			for _, te := range cc.List {
				ev.Types = append(ev.Types, in.Info.TypeOf(te))
			}
			s.emit(ev)
			if impl := in.Info.Implicits[cc]; impl != nil {
				if len(ev.Types) == 1 && ev.Types[0] != nil {
					s.env.typs[impl] = ev.Types[0]
					if _, isIface := ev.Types[0].Underlying().(*types.Interface); !isIface {
						s.env.vals[impl] = Val{K: VNonNil}
					}
				}
			}
			if opObj != nil && len(ev.Types) == 1 && ev.Types[0] != nil {
				s.env.typs[opObj] = ev.Types[0]
			}
			in.block(s, cc.Body, &nfr, k)
		}
		if !hasDefault {
			s := s0.fork()
			s.emit(&Event{Kind: EvTypeCase, Pos: x.End(), Node: x, Default: true, RHS: operand})
			k(s)
		}
	})
}

func (in *Interp) selectStmt(st *state, x *ast.SelectStmt, fr *frame, k func(*state)) {
	hasDefault := false
	for _, c := range x.Body.List {
		if c.(*ast.CommClause).Comm == nil {
			hasDefault = true
		}
	}
	// channel operands and send values of all clauses are evaluated first
	for _, c := range x.Body.List {
		cc := c.(*ast.CommClause)
		switch m := cc.Comm.(type) {
		case *ast.SendStmt:
			in.exprEvents(st, m.Chan)
			in.exprEvents(st, m.Value)
		case *ast.ExprStmt:
			if u, ok := ast.Unparen(m.X).(*ast.UnaryExpr); ok {
				in.exprEvents(st, u.X)
			}
		case *ast.AssignStmt:
			if u, ok := ast.Unparen(m.Rhs[0]).(*ast.UnaryExpr); ok {
				in.exprEvents(st, u.X)
			}
		}
	}
	nfr := *fr
	nfr.brk = k
	if len(x.Body.List) == 0 {
		// select {} blocks forever
		st.emit(&Event{Kind: EvSelect, Pos: x.Pos(), Node: x, Select: x, Blocking: true})
		return
	}
	for _, c := range x.Body.List {
		cc := c.(*ast.CommClause)
		s := st.fork()
		s.emit(&Event{Kind: EvSelect, Pos: cc.Pos(), Node: x, Clause: cc, Select: x, Default: cc.Comm == nil, Blocking: !hasDefault})
		switch m := cc.Comm.(type) {
		case *ast.SendStmt:
			s.emit(&Event{Kind: EvSend, Pos: m.Pos(), Node: m, Chan: m.Chan, ChanObj: in.chanObj(s, m.Chan), ChanLit: in.chanLit(s, m.Chan), ChanField: in.chanField(s, m.Chan, 0), Val: m.Value, Blocking: !hasDefault, Select: x})
		case *ast.ExprStmt:
			if u, ok := ast.Unparen(m.X).(*ast.UnaryExpr); ok && u.Op == token.ARROW {
				s.emit(&Event{Kind: EvRecv, Pos: m.Pos(), Node: m, Chan: u.X, ChanObj: in.chanObj(s, u.X), Blocking: !hasDefault, Select: x})
			}
		case *ast.AssignStmt:
			if u, ok := ast.Unparen(m.Rhs[0]).(*ast.UnaryExpr); ok && u.Op == token.ARROW {
				s.emit(&Event{Kind: EvRecv, Pos: m.Pos(), Node: m, Chan: u.X, ChanObj: in.chanObj(s, u.X), Blocking: !hasDefault, Select: x, LHS: m.Lhs[0]})
				for _, l := range m.Lhs {
					if o := in.objOf(l); o != nil {
						delete(s.env.vals, o)
					}
				}
			}
		}
		in.block(s, cc.Body, &nfr, k)
	}
}

// chanObj resolves a channel expression to the field / variable / function it comes from:
// c.ackQueue -> field ackQueue; c.tomb.Dying() -> method Dying; queue(sess) -> variable queue.
func (in *Interp) chanLit(st *state, e ast.Expr) *ast.FuncLit {
	if call, ok := ast.Unparen(e).(*ast.CallExpr); ok {
		if o := in.objOf(call.Fun); o != nil {
			if v, ok := st.env.vals[o]; ok && v.K == VLit {
				return v.Lit
			}
		}
	}
	return nil
}

func (in *Interp) chanObj(st *state, e ast.Expr) types.Object {
	e = ast.Unparen(e)
	if call, ok := e.(*ast.CallExpr); ok {
		return in.callee(st, call)
	}
	return in.pathObj(st, e)
}

// ------------------------------------------------------------------ expressions

func (in *Interp) callee(st *state, call *ast.CallExpr) types.Object {
	if tv, ok := in.Info.Types[call.Fun]; ok && tv.IsType() {
		return nil // conversion
	}
	if o := typeutil.Callee(in.Info, call); o != nil {
		return o
	}
	return in.objOf(call.Fun)
}

// argEvents walks the receiver and arguments of a call for nested events (not the call itself).
func (in *Interp) argEvents(st *state, call *ast.CallExpr) {
	switch f := ast.Unparen(call.Fun).(type) {
	case *ast.SelectorExpr:
		in.exprEvents(st, f.X)
	case *ast.FuncLit:
		// immediately invoked literal: treated as an opaque event
	case *ast.Ident:
	default:
		in.exprEvents(st, call.Fun)
	}
	for _, a := range call.Args {
		in.exprEvents(st, a)
	}
}

// callEvent emits the event for one call (after its arguments).
func (in *Interp) callEvent(st *state, call *ast.CallExpr, deferredCall bool) *Event {
	if tv, ok := in.Info.Types[call.Fun]; ok && tv.IsType() {
		return nil
	}
	obj := in.callee(st, call)
	if b, ok := obj.(*types.Builtin); ok {
		switch b.Name() {
		case "close":
			ev := &Event{Kind: EvClose, Pos: call.Pos(), Node: call, Call: call, Chan: call.Args[0], ChanObj: in.chanObj(st, call.Args[0]), Deferred: deferredCall}
			return st.emit(ev)
		case "delete":
			in.access(st, call.Args[0], true)
		case "append":
			// reading arg 0 is reported by exprEvents
		}
	}
	ev := &Event{Kind: EvCall, Pos: call.Pos(), Node: call, Call: call, Callee: obj, Deferred: deferredCall}
	if v, ok := obj.(*types.Var); ok {
		if val, ok := st.env.vals[v]; ok && val.K == VLit {
			ev.Lit = val.Lit
		}
	}
	for _, a := range call.Args {
		ev.ArgVals = append(ev.ArgVals, in.eval(st, a))
		t := in.Info.TypeOf(a)
		if ao := in.objOf(a); ao != nil {
			if rt, ok := st.env.typs[ao]; ok {
				t = rt
			}
		}
		ev.ArgTypes = append(ev.ArgTypes, t)
		ev.ArgObjs = append(ev.ArgObjs, in.pathObj(st, a))
	}
	return st.emit(ev)
}

// exprEvents emits the events of an expression in evaluation order.
func (in *Interp) exprEvents(st *state, e ast.Expr) {
	switch x := e.(type) {
	case nil:
	case *ast.CallExpr:
		in.argEvents(st, x)
		in.callEvent(st, x, false)
	case *ast.FuncLit:
		st.emit(&Event{Kind: EvFuncLit, Pos: x.Pos(), Node: x, Lit: x})
	case *ast.ParenExpr:
		in.exprEvents(st, x.X)
	case *ast.UnaryExpr:
		in.exprEvents(st, x.X)
		if x.Op == token.ARROW {
			st.emit(&Event{Kind: EvRecv, Pos: x.Pos(), Node: x, Chan: x.X, ChanObj: in.chanObj(st, x.X), Blocking: true})
		}
	case *ast.BinaryExpr:
		in.exprEvents(st, x.X)
		in.exprEvents(st, x.Y)
	case *ast.StarExpr:
		in.exprEvents(st, x.X)
	case *ast.SelectorExpr:
		in.exprEvents(st, x.X)
		in.access(st, x, false)
	case *ast.IndexExpr:
		in.exprEvents(st, x.X)
		in.exprEvents(st, x.Index)
	case *ast.SliceExpr:
		in.exprEvents(st, x.X)
		in.exprEvents(st, x.Low)
		in.exprEvents(st, x.High)
		in.exprEvents(st, x.Max)
	case *ast.TypeAssertExpr:
		in.exprEvents(st, x.X)
		if x.Type != nil {
			st.emit(&Event{Kind: EvAssert, Pos: x.Pos(), Node: x, RHS: x, Types: []types.Type{in.Info.TypeOf(x.Type)}})
		}
	case *ast.CompositeLit:
		for _, el := range x.Elts {
			if kv, ok := el.(*ast.KeyValueExpr); ok {
				in.exprEvents(st, kv.Value)
			} else {
				in.exprEvents(st, el)
			}
		}
	case *ast.KeyValueExpr:
		in.exprEvents(st, x.Value)
	}
}

// access reports a guarded field access when requested.
func (in *Interp) access(st *state, e ast.Expr, write bool) {
	if in.Opts.Access == nil {
		return
	}
	e = ast.Unparen(e)
	switch x := e.(type) {
	case *ast.SelectorExpr:
		if sel := in.Info.Selections[x]; sel != nil && sel.Kind() == types.FieldVal {
			if f, ok := sel.Obj().(*types.Var); ok && in.Opts.Access[f] {
				st.emit(&Event{Kind: EvAccess, Pos: x.Pos(), Node: x, LObj: f, LHS: x, Write: write})
			}
		}
	case *ast.IndexExpr:
		if write {
			in.access(st, x.X, true)
		}
	case *ast.SliceExpr:
		if write {
			in.access(st, x.X, true)
		}
	case *ast.StarExpr:
		if write {
			in.access(st, x.X, true)
		}
	}
}

// ------------------------------------------------------------------ evaluation

func constVal(tv types.TypeAndValue) (Val, bool) {
	if tv.Value == nil {
		return unknown, false
	}
	switch tv.Value.Kind() {
	case constant.Bool:
		return vBool(constant.BoolVal(tv.Value)), true
	case constant.Int:
		if i, ok := constant.Int64Val(tv.Value); ok {
			return vInt(i), true
		}
	case constant.String:
		s := constant.StringVal(tv.Value)
		if s == "" {
			return Val{K: VEmpty}, true
		}
		return Val{K: VStr, S: s}, true
	}
	return unknown, false
}

func (in *Interp) eval(st *state, e ast.Expr) Val {
	if e == nil {
		return unknown
	}
	if in.Opts.Force != nil {
		if o := in.objOf(e); o != nil {
			if v, ok := in.Opts.Force[o]; ok {
				return v
			}
		}
	}
	if in.Opts.Oracle != nil {
		if v, ok := in.Opts.Oracle(in, st, e); ok {
			return v
		}
	}
	if tv, ok := in.Info.Types[e]; ok {
		if v, ok := constVal(tv); ok {
			return v
		}
		if tv.IsNil() {
			return Val{K: VNil}
		}
	}
	switch x := e.(type) {
	case *ast.ParenExpr:
		return in.eval(st, x.X)
	case *ast.Ident:
		if o := in.objOf(x); o != nil {
			if v, ok := st.env.vals[o]; ok {
				return v
			}
			return in.globalVal(o)
		}
	case *ast.SelectorExpr:
		if o := in.objOf(x); o != nil {
			if v, ok := in.lookup(st, in.key(x)); ok {
				return v
			}
			return in.globalVal(o)
		}
	case *ast.StarExpr:
		return unknown
	case *ast.UnaryExpr:
		switch x.Op {
		case token.AND:
			return Val{K: VNonNil}
		case token.NOT:
			v := in.eval(st, x.X)
			if v.K == VBool {
				return vBool(!v.B)
			}
		case token.SUB:
			v := in.eval(st, x.X)
			if v.K == VInt {
				return vInt(-v.I)
			}
		}
	case *ast.CompositeLit:
		t := in.Info.TypeOf(x)
		if t != nil {
			switch t.Underlying().(type) {
			case *types.Slice, *types.Map:
				if len(x.Elts) == 0 {
					return Val{K: VEmpty}
				}
				return Val{K: VNonEmpty}
			}
		}
		return Val{K: VNonNil}
	case *ast.FuncLit:
		return Val{K: VLit, Lit: x}
	case *ast.BinaryExpr:
		if v, ok := in.evalBinary(st, x); ok {
			return v
		}
	case *ast.CallExpr:
		return in.evalCall(st, x)
	case *ast.IndexExpr:
		return unknown
	}
	return unknown
}

func (in *Interp) globalVal(o types.Object) Val {
	v, ok := o.(*types.Var)
	if !ok || v.IsField() || v.Pkg() == nil || v.Parent() != v.Pkg().Scope() {
		return unknown
	}
	// package-level variables of error type initialised with errors.New are never nil
	if types.Identical(v.Type(), types.Universe.Lookup("error").Type()) {
		return Val{K: VNonNil}
	}
	return unknown
}

func (in *Interp) evalCall(st *state, x *ast.CallExpr) Val {
	if tv, ok := in.Info.Types[x.Fun]; ok && tv.IsType() && len(x.Args) == 1 {
		v := in.eval(st, x.Args[0])
		return v
	}
	obj := in.callee(st, x)
	switch o := obj.(type) {
	case *types.Builtin:
		switch o.Name() {
		case "len":
			v := in.eval(st, x.Args[0])
			switch v.K {
			case VEmpty, VNil:
				return vInt(0)
			case VNonEmpty:
				return Val{K: VPos}
			case VStr:
				return vInt(int64(len(v.S)))
			}
		case "new", "make":
			return Val{K: VNonNil}
		}
	case *types.Func:
		if in.Opts.NonNil != nil && in.Opts.NonNil(o) {
			return Val{K: VNonNil}
		}
		if i, ok := in.Opts.PassArg[o]; ok && i < len(x.Args) {
			if v := in.eval(st, x.Args[i]); v.K == VNonNil {
				return v
			}
		}
		if v, ok := in.inlinePure(st, o, x); ok {
			return v
		}
		if in.P.constructorNonNil(o) {
			return Val{K: VNonNil}
		}
	}
	return unknown
}

// constructorNonNil: every return of f yields &T{...} or new(T).
func (p *Program) constructorNonNil(f *types.Func) bool {
	fi := p.ByObj[f]
	if fi == nil || fi.Decl.Body == nil {
		return false
	}
	sig := f.Type().(*types.Signature)
	if sig.Results().Len() != 1 {
		return false
	}
	ok := true
	n := 0
	ast.Inspect(fi.Decl.Body, func(m ast.Node) bool {
		if _, isLit := m.(*ast.FuncLit); isLit {
			return false
		}
		if r, isRet := m.(*ast.ReturnStmt); isRet {
			n++
			if len(r.Results) != 1 {
				ok = false
				return true
			}
			switch y := ast.Unparen(r.Results[0]).(type) {
			case *ast.UnaryExpr:
				if y.Op != token.AND {
					ok = false
				}
			case *ast.CallExpr:
				if id, isId := y.Fun.(*ast.Ident); !isId || id.Name != "new" {
					ok = false
				}
			default:
				ok = false
			}
		}
		return true
	})
	return ok && n > 0
}

// inlinePure evaluates a call to a tiny pure predicate: body is a single `return expr`.
func (in *Interp) inlinePure(st *state, f *types.Func, call *ast.CallExpr) (Val, bool) {
	fi := in.P.ByObj[f]
	if fi == nil || fi.Decl.Body == nil || len(fi.Decl.Body.List) != 1 {
		return unknown, false
	}
	ret, ok := fi.Decl.Body.List[0].(*ast.ReturnStmt)
	if !ok || len(ret.Results) != 1 {
		return unknown, false
	}
	sub := &Interp{P: in.P, Info: fi.Pkg.TypesInfo, Opts: in.Opts}
	s2 := &state{env: st.env.clone()}
	sig := f.Type().(*types.Signature)
	if sig.Recv() != nil {
		if sel, ok := ast.Unparen(call.Fun).(*ast.SelectorExpr); ok {
			if v := in.eval(st, sel.X); v.Known() {
				s2.env.vals[sig.Recv()] = v
			} else {
				delete(s2.env.vals, sig.Recv())
			}
		}
	}
	for i := 0; i < sig.Params().Len() && i < len(call.Args); i++ {
		if v := in.eval(st, call.Args[i]); v.Known() {
			s2.env.vals[sig.Params().At(i)] = v
		}
	}
	// only side-effect free bodies
	pure := true
	ast.Inspect(ret.Results[0], func(m ast.Node) bool {
		if c, ok := m.(*ast.CallExpr); ok {
			if tv, ok := sub.Info.Types[c.Fun]; ok && tv.IsType() {
				return true
			}
			if b, ok := sub.callee(s2, c).(*types.Builtin); ok && (b.Name() == "len" || b.Name() == "cap") {
				return true
			}
			pure = false
		}
		return true
	})
	if !pure {
		return unknown, false
	}
	v := sub.evalBoolExpr(s2, ret.Results[0])
	return v, v.Known()
}

// evalBoolExpr evaluates a side-effect free boolean expression with &&, ||, !.
func (in *Interp) evalBoolExpr(st *state, e ast.Expr) Val {
	e = ast.Unparen(e)
	switch x := e.(type) {
	case *ast.BinaryExpr:
		switch x.Op {
		case token.LAND:
			a := in.evalBoolExpr(st, x.X)
			if a.K == VBool && !a.B {
				return vBool(false)
			}
			b := in.evalBoolExpr(st, x.Y)
			if b.K == VBool && !b.B {
				return vBool(false)
			}
			if a.K == VBool && b.K == VBool {
				return vBool(true)
			}
			return unknown
		case token.LOR:
			a := in.evalBoolExpr(st, x.X)
			if a.K == VBool && a.B {
				return vBool(true)
			}
			b := in.evalBoolExpr(st, x.Y)
			if b.K == VBool && b.B {
				return vBool(true)
			}
			if a.K == VBool && b.K == VBool {
				return vBool(false)
			}
			return unknown
		}
	case *ast.UnaryExpr:
		if x.Op == token.NOT {
			a := in.evalBoolExpr(st, x.X)
			if a.K == VBool {
				return vBool(!a.B)
			}
			return unknown
		}
	}
	return in.eval(st, e)
}

func cmpInts(op token.Token, a, b int64) bool {
	switch op {
	case token.EQL:
		return a == b
	case token.NEQ:
		return a != b
	case token.LSS:
		return a < b
	case token.LEQ:
		return a <= b
	case token.GTR:
		return a > b
	case token.GEQ:
		return a >= b
	}
	return false
}

func flip(op token.Token) token.Token {
	switch op {
	case token.LSS:
		return token.GTR
	case token.LEQ:
		return token.GEQ
	case token.GTR:
		return token.LSS
	case token.GEQ:
		return token.LEQ
	}
	return op
}

func (in *Interp) evalBinary(st *state, x *ast.BinaryExpr) (Val, bool) {
	switch x.Op {
	case token.EQL, token.NEQ, token.LSS, token.LEQ, token.GTR, token.GEQ:
	case token.ADD, token.SUB:
		a, b := in.eval(st, x.X), in.eval(st, x.Y)
		if a.K == VInt && b.K == VInt {
			if x.Op == token.ADD {
				return vInt(a.I + b.I), true
			}
			return vInt(a.I - b.I), true
		}
		return unknown, false
	case token.LAND, token.LOR:
		v := in.evalBoolExpr(st, x)
		return v, v.Known()
	default:
		return unknown, false
	}
	a, b := in.eval(st, x.X), in.eval(st, x.Y)
	return compareVals(x.Op, a, b)
}

func compareVals(op token.Token, a, b Val) (Val, bool) {
	if !a.Known() || !b.Known() {
		return unknown, false
	}
	eq := func(r bool) (Val, bool) {
		switch op {
		case token.EQL:
			return vBool(r), true
		case token.NEQ:
			return vBool(!r), true
		}
		return unknown, false
	}
	switch {
	case a.K == VInt && b.K == VInt:
		return vBool(cmpInts(op, a.I, b.I)), true
	case a.K == VPos && b.K == VInt:
		return cmpPos(op, b.I)
	case a.K == VInt && b.K == VPos:
		return cmpPos(flip(op), a.I)
	case a.K == VBool && b.K == VBool:
		return eq(a.B == b.B)
	case a.K == VNil && b.K == VNil:
		return eq(true)
	case (a.K == VNil && b.K == VNonNil) || (a.K == VNonNil && b.K == VNil):
		return eq(false)
	case a.K == VNil && (b.K == VLit) || b.K == VNil && a.K == VLit:
		return eq(false)
	case a.K == VSym && b.K == VSym:
		return eq(a.S == b.S)
	case a.K == VSym && (b.K == VStr || b.K == VEmpty), b.K == VSym && (a.K == VStr || a.K == VEmpty):
		return eq(false)
	case a.K == VStr && b.K == VStr:
		return eq(a.S == b.S)
	case a.K == VEmpty && b.K == VEmpty:
		return eq(true)
	case (a.K == VEmpty && (b.K == VNonEmpty || b.K == VStr)) || (b.K == VEmpty && (a.K == VNonEmpty || a.K == VStr)):
		return eq(false)
	case a.K == VEmpty && b.K == VNil, a.K == VNil && b.K == VEmpty:
		// nil slice compared with nil: an empty slice may or may not be nil
		return unknown, false
	}
	return unknown, false
}

// cmpPos decides (positive op k).
func cmpPos(op token.Token, k int64) (Val, bool) {
	switch op {
	case token.GTR: // pos > k
		if k <= 0 {
			return vBool(true), true
		}
	case token.GEQ:
		if k <= 1 {
			return vBool(true), true
		}
	case token.LSS: // pos < k
		if k <= 1 {
			return vBool(false), true
		}
	case token.LEQ:
		if k <= 0 {
			return vBool(false), true
		}
	case token.EQL:
		if k <= 0 {
			return vBool(false), true
		}
	case token.NEQ:
		if k <= 0 {
			return vBool(true), true
		}
	}
	return unknown, false
}

// cond interprets a condition with short-circuit evaluation; undecided leaves fork.
func (in *Interp) cond(st *state, e ast.Expr, kT, kF func(*state)) {
	if in.Over {
		return
	}
	e = ast.Unparen(e)
	switch x := e.(type) {
	case *ast.BinaryExpr:
		switch x.Op {
		case token.LAND:
			in.cond(st, x.X, func(s *state) { in.cond(s, x.Y, kT, kF) }, kF)
			return
		case token.LOR:
			in.cond(st, x.X, kT, func(s *state) { in.cond(s, x.Y, kT, kF) })
			return
		}
	case *ast.UnaryExpr:
		if x.Op == token.NOT {
			in.cond(st, x.X, kF, kT)
			return
		}
	}
	// a condition that is a call of a NEW helper (extracted by a refactoring): interpret its body
	if call, ok := e.(*ast.CallExpr); ok {
		if fi := in.inlinable(st, call); fi != nil && in.P.NewFuncs[fi.Obj] {
			if sig := fi.Obj.Type().(*types.Signature); sig.Results().Len() == 1 {
				in.callStmt(st, call, &frame{}, func(s *state, vals []Val) {
					if len(vals) == 1 && vals[0].K == VBool {
						if vals[0].B {
							kT(s)
						} else {
							kF(s)
						}
						return
					}
					sT, sF := s.fork(), s.fork()
					sT.emit(&Event{Kind: EvCond, Pos: e.Pos(), Node: e, Cond: e, Outcome: true})
					sF.emit(&Event{Kind: EvCond, Pos: e.Pos(), Node: e, Cond: e, Outcome: false})
					kT(sT)
					kF(sF)
				})
				return
			}
		}
	}
	in.exprEvents(st, e)
	v := in.eval(st, e)
	if v.K == VBool {
		if v.B {
			kT(st)
		} else {
			kF(st)
		}
		return
	}
	// undecided: fork with refinement
	sT, sF := st.fork(), st.fork()
	in.refine(sT, e, true)
	in.refine(sF, e, false)
	kT(sT)
	kF(sF)
}

// refine records the fork and narrows the environment.
func (in *Interp) refine(s *state, e ast.Expr, outcome bool) {
	var v types.Object
	nilness := 0
	// x != nil, x == nil, len(x) > 0 ..., bool variables, x == const
	switch x := e.(type) {
	case *ast.Ident, *ast.SelectorExpr:
		if o := in.objOf(x.(ast.Expr)); o != nil {
			v = o
			s.env.vals[in.key(x.(ast.Expr))] = vBool(outcome)
			if l, ok := s.env.links[o]; ok {
				if outcome {
					s.env.vals[l.target] = Val{K: VNonNil}
					if l.operand != nil && l.typ != nil {
						s.env.typs[l.operand] = l.typ
					}
				} else if l.nilOnFalse {
					s.env.vals[l.target] = Val{K: VNil}
				}
			}
		}
	case *ast.BinaryExpr:
		a, b := in.eval(s, x.X), in.eval(s, x.Y)
		side, other, otherV := x.X, x.Y, b
		if a.Known() && !b.Known() {
			side, other, otherV = x.Y, x.X, a
		}
		_ = other
		o := in.objOf(side)
		ko := in.key(side)
		isLen := false
		if c, ok := ast.Unparen(side).(*ast.CallExpr); ok {
			if bi, ok := in.callee(s, c).(*types.Builtin); ok && bi.Name() == "len" && len(c.Args) == 1 {
				o = in.objOf(c.Args[0])
				ko = in.key(c.Args[0])
				isLen = true
			}
		}
		if o != nil && ko != nil {
			v = o
			op := x.Op
			if side == x.Y {
				op = flip(op)
			}
			truth := outcome
			switch {
			case otherV.K == VNil && (op == token.EQL || op == token.NEQ):
				isNil := (op == token.EQL) == truth
				if isNil {
					s.env.vals[ko] = Val{K: VNil}
					nilness = -1
				} else {
					s.env.vals[ko] = Val{K: VNonNil}
					nilness = 1
				}
			case isLen && otherV.K == VInt:
				// len(x) op k
				if r, ok := cmpPos(op, otherV.I); ok {
					// the comparison is decided for positive lengths; the fork tells us which side we are on
					if r.B == truth {
						s.env.vals[ko] = Val{K: VNonEmpty}
					} else {
						s.env.vals[ko] = Val{K: VEmpty}
					}
				} else if cmpInts(op, 0, otherV.I) != truth {
					s.env.vals[ko] = Val{K: VNonEmpty}
				}
			case otherV.K == VEmpty && (op == token.EQL || op == token.NEQ):
				if (op == token.EQL) == truth {
					s.env.vals[ko] = Val{K: VEmpty}
				} else {
					s.env.vals[ko] = Val{K: VNonEmpty}
				}
			case otherV.K == VInt && op == token.EQL && truth:
				s.env.vals[ko] = otherV
			case otherV.K == VInt && op == token.NEQ && !truth:
				s.env.vals[ko] = otherV
			case (otherV.K == VSym || otherV.K == VStr) && ((op == token.EQL && truth) || (op == token.NEQ && !truth)):
				s.env.vals[ko] = otherV
			}
		}
	}
	if v != nil {
		if d, ok := s.env.defs[v]; ok {
			s.emit(&Event{Kind: EvOutcome, Pos: e.Pos(), Node: e, Cond: e, Outcome: outcome, Var: v, DefCall: d, Nilness: nilness})
			return
		}
	}
	s.emit(&Event{Kind: EvCond, Pos: e.Pos(), Node: e, Cond: e, Outcome: outcome, Var: v, Nilness: nilness})
}

// ------------------------------------------------------------------ assignments and calls

func (in *Interp) assign(st *state, lhs, rhs []ast.Expr, tok token.Token, node ast.Node, fr *frame, k func(*state)) {
	// compound assignment
	if tok != token.ASSIGN && tok != token.DEFINE {
		for _, r := range rhs {
			in.exprEvents(st, r)
		}
		for _, l := range lhs {
			in.exprEvents(st, lhsBase(l))
			o := in.lhsObj(l)
			ev := &Event{Kind: EvAssign, Pos: node.Pos(), Node: node, LHS: l, RHS: rhs[0], LObj: o}
			if o != nil {
				old, add := in.eval(st, l), in.eval(st, rhs[0])
				nv := unknown
				if old.K == VInt && add.K == VInt {
					switch tok {
					case token.ADD_ASSIGN:
						nv = vInt(old.I + add.I)
					case token.SUB_ASSIGN:
						nv = vInt(old.I - add.I)
					}
				}
				if ko := in.key(l); ko != nil {
					if nv.Known() {
						st.env.vals[ko] = nv
					} else {
						delete(st.env.vals, ko)
					}
				}
				ev.RVal = nv
			}
			st.emit(ev)
			in.access(st, l, true)
		}
		k(st)
		return
	}
	// single call on the right with several results, or an inlinable call
	if len(rhs) == 1 {
		r := ast.Unparen(rhs[0])
		if call, ok := r.(*ast.CallExpr); ok {
			if tv, isT := in.Info.Types[call.Fun]; !(isT && tv.IsType()) {
				for _, l := range lhs {
					in.exprEvents(st, lhsBase(l))
				}
				in.callStmt(st, call, fr, func(s *state, vals []Val) {
					ev := s.lastCall(call)
					ret, rex := s.retObjs, s.retExs
					s.retObjs, s.retExs = nil, nil
					for i, l := range lhs {
						v := unknown
						if i < len(vals) {
							v = vals[i]
						}
						in.bind(s, l, rhs[0], v, node, ev, len(lhs) > 1 || true)
						if i < len(rex) && s.evs != nil && s.evs.ev.Kind == EvAssign {
							s.evs.ev.RetExpr = rex[i]
						}
						if i < len(ret) && ret[i] != nil {
							in.adopt(s, l, ret[i], ev)
						}
					}
					k(s)
				})
				return
			}
		}
		// comma-ok forms
		if len(lhs) == 2 {
			in.exprEvents(st, r)
			in.bind(st, lhs[0], rhs[0], unknown, node, nil, false)
			okObj := in.objOf(lhs[1])
			marker := &Event{Kind: EvAssert, Pos: r.Pos(), Node: r, RHS: r, CommaOk: true}
			if ta, ok := r.(*ast.TypeAssertExpr); ok && ta.Type != nil {
				marker.Types = []types.Type{in.Info.TypeOf(ta.Type)}
			}
			if okObj != nil {
				delete(st.env.vals, okObj)
				st.env.defs[okObj] = marker
				if t := in.objOf(lhs[0]); t != nil {
					nilOnFalse := false
					if tt := t.Type(); tt != nil {
						switch tt.Underlying().(type) {
						case *types.Pointer, *types.Interface, *types.Map, *types.Chan, *types.Signature:
							nilOnFalse = true
						}
					}
					_, isAssert := r.(*ast.TypeAssertExpr)
					if isAssert {
						lk := link{target: t, nilOnFalse: nilOnFalse}
						if ta, ok := r.(*ast.TypeAssertExpr); ok && len(marker.Types) == 1 {
							lk.operand, lk.typ = in.objOf(ta.X), marker.Types[0]
						}
						st.env.links[okObj] = lk
						if len(marker.Types) == 1 {
							st.env.typs[t] = marker.Types[0]
						}
					}
				}
			}
			k(st)
			return
		}
	}
	for _, r := range rhs {
		in.exprEvents(st, r)
	}
	vals := make([]Val, len(rhs))
	for i, r := range rhs {
		vals[i] = in.eval(st, r)
	}
	for i, l := range lhs {
		in.exprEvents(st, lhsBase(l))
		var r ast.Expr
		v := unknown
		if i < len(rhs) {
			r, v = rhs[i], vals[i]
		}
		in.bind(st, l, r, v, node, nil, false)
	}
	k(st)
}

func lhsBase(l ast.Expr) ast.Expr {
	switch x := ast.Unparen(l).(type) {
	case *ast.Ident:
		return nil
	case *ast.SelectorExpr:
		return x.X
	case *ast.IndexExpr:
		return x
	case *ast.StarExpr:
		return x.X
	}
	return l
}

func (s *state) lastCall(call *ast.CallExpr) *Event {
	for l := s.evs; l != nil; l = l.prev {
		if l.ev.Kind == EvCall && l.ev.Call == call {
			return l.ev
		}
	}
	return nil
}

func (in *Interp) bind(st *state, l, r ast.Expr, v Val, node ast.Node, def *Event, fromCall bool) {
	if id, ok := l.(*ast.Ident); ok && id.Name == "_" {
		return
	}
	o := in.lhsObj(l)
	ev := &Event{Kind: EvAssign, Pos: node.Pos(), Node: node, LHS: l, RHS: r, LObj: o, RVal: v}
	if r != nil {
		ev.RObj = in.pathObj(st, r)
	}
	if o != nil && r != nil {
		if _, isIndex := ast.Unparen(l).(*ast.IndexExpr); !isIndex {
			delete(st.env.made, o)
			if mc, ok := ast.Unparen(r).(*ast.CallExpr); ok {
				if id, isId := ast.Unparen(mc.Fun).(*ast.Ident); isId && id.Name == "make" {
					if _, isB := in.Info.Uses[id].(*types.Builtin); isB {
						mi := &MadeInfo{Call: mc}
						if len(mc.Args) >= 2 {
							mi.SizeRaw, mi.SizeObj = in.objOf(mc.Args[1]), in.pathObj(st, mc.Args[1])
						}
						st.env.made[o], ev.Made = mi, mi
					}
				}
			} else if ro := in.objOf(r); ro != nil {
				if mi, ok := st.env.made[ro]; ok {
					st.env.made[o], ev.Made = mi, mi
				}
			}
		}
	}
	if o != nil {
		if _, isIndex := ast.Unparen(l).(*ast.IndexExpr); !isIndex {
			ko := in.key(l)
			if ko == nil {
				ko = o
			}
			in.invalidate(st, ko)
			if v.Known() {
				st.env.vals[ko] = v
			} else {
				delete(st.env.vals, ko)
			}
			delete(st.env.links, o)
			delete(st.env.typs, o)
			if def != nil {
				st.env.defs[o] = def
			} else {
				delete(st.env.defs, o)
			}
			// copy the refined type of the source variable
			if r != nil {
				if ro := in.objOf(r); ro != nil {
					if t, ok := st.env.typs[ro]; ok {
						st.env.typs[o] = t
					}
					if d, ok := st.env.defs[ro]; ok && def == nil {
						st.env.defs[o] = d
					}
				}
			}
		}
	}
	st.emit(ev)
	in.access(st, l, true)
}

// adopt: the result of an inlined helper was bound to l; src is the object the helper's return operand named. What
// the helper did to src it did to l: the make(...) is carried over, and the channel operations the helper performed
// on its local are attributed to the field that now holds the channel.
func (in *Interp) adopt(s *state, l ast.Expr, src types.Object, callEv *Event) {
	o := in.lhsObj(l)
	if o == nil || src == nil || o == src {
		return
	}
	var asg *Event
	if s.evs != nil && s.evs.ev.Kind == EvAssign && s.evs.ev.LObj == o {
		asg = s.evs.ev
	}
	if asg != nil && asg.RObj == nil {
		asg.RObj = src
	}
	if mi, ok := s.env.made[src]; ok {
		s.env.made[o] = mi
		if asg != nil {
			asg.Made = mi
		}
	}
	if _, isChan := o.Type().Underlying().(*types.Chan); !isChan {
		return
	}
	if lv, ok := src.(*types.Var); !ok || lv.IsField() {
		return
	}
	fv, _ := o.(*types.Var)
	for n := s.evs; n != nil && n.ev != callEv; n = n.prev {
		e := n.ev
		if e.ChanObj == src {
			e.ChanObj = o
			if fv != nil && fv.IsField() && e.ChanField == nil {
				e.ChanField = fv
			}
		}
	}
}

// inlinable returns the function to inline for call, or nil.
func (in *Interp) inlinable(st *state, call *ast.CallExpr) *FuncInfo {
	if in.Opts.Inline == nil && len(in.P.NewFuncs) == 0 {
		return nil
	}
	f, ok := in.callee(st, call).(*types.Func)
	if !ok {
		return nil
	}
	fi := in.P.ByObj[f]
	isNew := in.P.NewFuncs[f]
	if fi == nil || fi.Decl.Body == nil || !(isNew || (in.Opts.Inline != nil && in.Opts.Inline(f))) {
		return nil
	}
	max := in.Opts.MaxDepth
	if max == 0 {
		max = 1
	}
	if isNew && max < 3 {
		max = 3
	}
	if st.depth >= max {
		return nil
	}
	for _, g := range st.stack {
		if g == f {
			return nil
		}
	}
	return fi
}

// callStmt handles a statement-level call: emits argument events and the call event; when the
// callee is inlinable its body is interpreted and k receives the abstract results.
func (in *Interp) callStmt(st *state, call *ast.CallExpr, fr *frame, k func(*state, []Val)) {
	in.argEvents(st, call)
	ev := in.callEvent(st, call, false)
	fi := in.inlinable(st, call)
	if fi == nil || ev == nil {
		var vals []Val
		if ev != nil {
			if f, ok := ev.Callee.(*types.Func); ok {
				n := f.Type().(*types.Signature).Results().Len()
				vals = make([]Val, n)
				if n >= 1 {
					vals[0] = in.eval(st, call)
				}
			}
		}
		k(st, vals)
		return
	}
	// inline
	sig := fi.Obj.Type().(*types.Signature)
	sub := &Interp{P: in.P, Info: fi.Pkg.TypesInfo, Opts: in.Opts, fn: fi.Obj}
	saveDefers := st.defers
	st.defers = nil
	st.depth++
	st.stack = append(append([]*types.Func{}, st.stack...), fi.Obj)
	if sig.Recv() != nil {
		if sel, ok := ast.Unparen(call.Fun).(*ast.SelectorExpr); ok {
			if v := in.eval(st, sel.X); v.Known() {
				st.env.vals[sig.Recv()] = v
			} else {
				delete(st.env.vals, sig.Recv())
			}
		}
	}
	for i := 0; i < sig.Params().Len(); i++ {
		p := sig.Params().At(i)
		delete(st.env.vals, p)
		if i < len(call.Args) && !sig.Variadic() {
			if v := in.eval(st, call.Args[i]); v.Known() {
				st.env.vals[p] = v
			}
			if ao := in.objOf(call.Args[i]); ao != nil {
				if t, ok := st.env.typs[ao]; ok {
					st.env.typs[p] = t
				}
			}
			delete(st.env.alias, p)
			if ao := in.pathObj(st, call.Args[i]); ao != nil {
				st.env.alias[p] = ao
			}
			st.env.argEx[p] = call.Args[i]
		}
	}
	sfr := &frame{}
	sfr.ret = func(s *state, r *ast.ReturnStmt, res []ast.Expr, vals []Val) {
		s.retObjs, s.retExs = nil, nil
		for _, e := range res {
			s.retObjs = append(s.retObjs, sub.pathObj(s, e))
			s.retExs = append(s.retExs, e)
		}
		sub.runDefers(s)
		s.defers = saveDefers
		s.depth--
		s.stack = s.stack[:len(s.stack)-1]
		k(s, vals)
	}
	sub.Traces = nil
	// share budget and results with the parent interpreter
	sub.block(st, fi.Decl.Body.List, sfr, func(s *state) { sfr.ret(s, nil, nil, nil) })
	// the sub interpreter only produces traces through in.finish via continuations of the parent;
	// loop back-edges inside inlined callees end the path in the sub interpreter: propagate them.
	for _, t := range sub.Traces {
		in.Traces = append(in.Traces, t)
	}
	if sub.Over {
		in.Over = true
	}
	in.Unsupported = append(in.Unsupported, sub.Unsupported...)
}

// ------------------------------------------------------------------ boring ifs
//
// An `if` whose condition is call-free and does not test a call result / comma-ok variable, and whose
// branches only assign call-free values to variables or fields of basic type (numbers, durations,
// booleans, strings), cannot contain any vocabulary event. Forking on it only multiplies paths
// (processConnect has seven such defaulting ifs). It is interpreted as a join: the assigned objects
// become unknown and the assignments are emitted as conditional events.

func (in *Interp) callFree(e ast.Expr) bool {
	ok := true
	ast.Inspect(e, func(m ast.Node) bool {
		switch y := m.(type) {
		case *ast.CallExpr:
			if tv, isT := in.Info.Types[y.Fun]; isT && tv.IsType() {
				return true
			}
			if id, isId := ast.Unparen(y.Fun).(*ast.Ident); isId {
				if b, isB := in.Info.Uses[id].(*types.Builtin); isB && (b.Name() == "len" || b.Name() == "cap") {
					return true
				}
			}
			ok = false
		case *ast.UnaryExpr:
			if y.Op == token.ARROW {
				ok = false
			}
		case *ast.FuncLit, *ast.TypeAssertExpr:
			ok = false
		}
		return ok
	})
	return ok
}

func isBasicType(t types.Type) bool {
	if t == nil {
		return false
	}
	b, ok := t.Underlying().(*types.Basic)
	return ok && b.Info()&(types.IsNumeric|types.IsBoolean|types.IsString) != 0
}

func (in *Interp) boringBody(st *state, list []ast.Stmt) bool {
	for _, s := range list {
		switch y := s.(type) {
		case *ast.AssignStmt:
			if y.Tok == token.DEFINE {
				return false
			}
			for _, l := range y.Lhs {
				if !isBasicType(in.Info.TypeOf(l)) || !in.callFree(l) {
					return false
				}
				if o := in.objOf(l); o != nil && in.Opts.Keep != nil && in.Opts.Keep[o] {
					return false
				}
			}
			for _, r := range y.Rhs {
				if !in.callFree(r) {
					return false
				}
			}
		case *ast.IncDecStmt:
			if !isBasicType(in.Info.TypeOf(y.X)) {
				return false
			}
			if o := in.objOf(y.X); o != nil && in.Opts.Keep != nil && in.Opts.Keep[o] {
				return false
			}
		case *ast.EmptyStmt:
		default:
			return false
		}
	}
	return true
}

func (in *Interp) boringIf(st *state, x *ast.IfStmt) bool {
	if in.Opts.NoMerge || x.Init != nil || !in.callFree(x.Cond) {
		return false
	}
	// a decidable condition is not boring: it prunes
	if v := in.evalBoolExpr(st, x.Cond); v.K == VBool {
		return false
	}
	tested := false
	ast.Inspect(x.Cond, func(m ast.Node) bool {
		if e, ok := m.(ast.Expr); ok {
			if o := in.objOf(e); o != nil {
				if _, ok := st.env.defs[o]; ok {
					tested = true
				}
				if _, ok := st.env.links[o]; ok {
					tested = true
				}
				if in.Opts.Keep != nil && in.Opts.Keep[o] {
					tested = true
				}
			}
		}
		return true
	})
	if tested {
		return false
	}
	if !in.boringBody(st, x.Body.List) {
		return false
	}
	switch e := x.Else.(type) {
	case nil:
	case *ast.BlockStmt:
		if !in.boringBody(st, e.List) {
			return false
		}
	default:
		return false
	}
	return true
}

func (in *Interp) mergeIf(st *state, x *ast.IfStmt) {
	emit := func(list []ast.Stmt) {
		for _, s := range list {
			switch y := s.(type) {
			case *ast.AssignStmt:
				for i, l := range y.Lhs {
					o := in.lhsObj(l)
					var r ast.Expr
					if i < len(y.Rhs) {
						r = y.Rhs[i]
					}
					st.emit(&Event{Kind: EvAssign, Pos: y.Pos(), Node: y, LHS: l, RHS: r, LObj: o, Conditional: true})
					if ko := in.key(l); ko != nil {
						delete(st.env.vals, ko)
					}
					in.access(st, l, true)
				}
			case *ast.IncDecStmt:
				o := in.objOf(y.X)
				st.emit(&Event{Kind: EvAssign, Pos: y.Pos(), Node: y, LHS: y.X, LObj: o, Conditional: true})
				if ko := in.key(y.X); ko != nil {
					delete(st.env.vals, ko)
				}
			}
		}
	}
	in.exprEvents(st, x.Cond)
	emit(x.Body.List)
	if e, ok := x.Else.(*ast.BlockStmt); ok {
		emit(e.List)
	}
}

// ------------------------------------------------------------------ path-sensitive field keys
//
// The environment keys of selector expressions are synthetic objects per (base key, field), so that
// child.values and node.values are distinct facts; a valuation given for the plain field object is the
// instance-insensitive default that every path key falls back to.

type pathKey struct{ base, field types.Object }

func (p *Program) synth(base, field types.Object) *types.Var {
	if p.keyTab == nil {
		p.keyTab = map[pathKey]*types.Var{}
		p.keyInfo = map[types.Object]pathKey{}
	}
	k := pathKey{base, field}
	if v, ok := p.keyTab[k]; ok {
		return v
	}
	v := types.NewVar(field.Pos(), field.Pkg(), base.Name()+"."+field.Name(), field.Type())
	p.keyTab[k] = v
	p.keyInfo[v] = k
	return v
}

// key returns the environment key of an expression (nil when it has none).
func (in *Interp) key(e ast.Expr) types.Object {
	switch x := ast.Unparen(e).(type) {
	case *ast.Ident:
		return in.objOf(x)
	case *ast.StarExpr:
		return in.key(x.X)
	case *ast.SelectorExpr:
		o := in.objOf(x)
		if o == nil {
			return nil
		}
		if f, ok := o.(*types.Var); ok && f.IsField() {
			if b := in.key(x.X); b != nil {
				return in.P.synth(b, f)
			}
		}
		return o
	}
	return nil
}

// lookup reads the value of key k with fall-back to the plain field valuation.
func (in *Interp) lookup(st *state, k types.Object) (Val, bool) {
	if k == nil {
		return unknown, false
	}
	if v, ok := st.env.vals[k]; ok {
		return v, true
	}
	if pk, ok := in.P.keyInfo[k]; ok {
		if v, ok := st.env.vals[pk.field]; ok {
			return v, true
		}
	}
	return unknown, false
}

// invalidate forgets every path fact rooted at (or through) object o, or about field o.
func (in *Interp) invalidate(st *state, o types.Object) {
	for k := range st.env.vals {
		pk, ok := in.P.keyInfo[k]
		for ok {
			if pk.base == o || pk.field == o {
				delete(st.env.vals, k)
				break
			}
			pk, ok = in.P.keyInfo[pk.base]
		}
	}
}
