package main

// LOCK: must-hold locksets computed along TRACE paths (mutex = field object, instance-insensitive).

import (
	"fmt"
	"go/ast"
	"go/types"
	"sort"
	"strings"
)

type lockMode int

const (
	lockNone lockMode = iota
	lockR
	lockW
)

type lockset map[*types.Var]lockMode

func (l lockset) clone() lockset {
	n := lockset{}
	for k, v := range l {
		n[k] = v
	}
	return n
}

func (l lockset) String() string {
	var s []string
	for k, v := range l {
		m := "W"
		if v == lockR {
			m = "R"
		}
		s = append(s, k.Name()+":"+m)
	}
	sort.Strings(s)
	return "{" + strings.Join(s, ",") + "}"
}

func meet(a, b lockset) lockset {
	if a == nil {
		return b.clone()
	}
	n := lockset{}
	for k, v := range a {
		if w, ok := b[k]; ok {
			if w < v {
				v = w
			}
			n[k] = v
		}
	}
	return n
}

// guardSpec: field -> required mutex field; writes need W, reads need R or W.
type guardSpec struct {
	mutex  *types.Var
	reason string
	anyW   bool // any access (also reads) needs the exclusive lock (plain sync.Mutex)
}

type lockAccess struct {
	fn    *FuncInfo
	ev    *Event
	held  lockset
	trace *Trace
}

type lockResult struct {
	accesses   []lockAccess
	entry      map[*types.Func]lockset
	badUnlock  []lockAccess // deferred/explicit unlock of a mutex not held
	paths      int
	funcs      int
	callsUnder map[*types.Func][]lockAccess // calls to watched functions with the lockset held
	watched    []lockAccess                 // events selected by watchEv with the lockset held
}

// mutexOp classifies a call event as Lock/RLock/Unlock/RUnlock on a mutex field.
func (c *Ctx) mutexOp(in *Interp, e *Event) (*types.Var, string) {
	if e.Kind != EvCall && e.Kind != EvDefer {
		return nil, ""
	}
	f, ok := e.Callee.(*types.Func)
	if !ok || f.Pkg() == nil || f.Pkg().Path() != "sync" {
		return nil, ""
	}
	switch f.Name() {
	case "Lock", "Unlock", "RLock", "RUnlock":
	default:
		return nil, ""
	}
	sel, ok := ast.Unparen(e.Call.Fun).(*ast.SelectorExpr)
	if !ok {
		return nil, ""
	}
	mo, _ := in.objOf(sel.X).(*types.Var)
	if mo == nil {
		return nil, ""
	}
	return mo, f.Name()
}

// lockAnalysis runs the lockset computation over all functions of pkg.
// roots: functions whose entry lockset is empty (exported API, goroutine roots); others inherit the
// intersection of their call sites.
func (c *Ctx) lockAnalysis(pkg string, guarded map[*types.Var]guardSpec, watch map[*types.Func]bool, inlineDepth int) *lockResult {
	return c.lockAnalysisEv(pkg, guarded, watch, nil)
}

func (c *Ctx) lockAnalysisEv(pkg string, guarded map[*types.Var]guardSpec, watch map[*types.Func]bool, watchEv func(fi *FuncInfo, e *Event) bool) *lockResult {
	res := &lockResult{entry: map[*types.Func]lockset{}, callsUnder: map[*types.Func][]lockAccess{}}
	fns := c.P.LibFuncs(pkg)
	acc := map[*types.Var]bool{}
	for f := range guarded {
		acc[f] = true
	}
	type fdata struct {
		fi *FuncInfo
		in *Interp
	}
	var data []fdata
	calledFrom := map[*types.Func]bool{}
	for _, fi := range fns {
		if fi.Decl.Body == nil {
			continue
		}
		in := c.P.TraceFunc(fi, TraceOpts{Access: acc})
		c.Touch(fi.Name)
		data = append(data, fdata{fi, in})
		res.paths += len(in.Traces)
		res.funcs++
		for _, t := range in.Traces {
			for _, e := range t.Ev {
				if e.Kind == EvCall {
					if g, ok := e.Callee.(*types.Func); ok && c.P.ByObj[g] != nil && c.P.ByObj[g].Pkg == fi.Pkg {
						calledFrom[g] = true
					}
				}
			}
		}
	}
	isRoot := func(fi *FuncInfo) bool {
		if fi.Obj.Exported() {
			return true
		}
		return !calledFrom[fi.Obj] // never called directly in the package: goroutine root / method value / interface use
	}
	// fixpoint on entry locksets
	for _, d := range data {
		if isRoot(d.fi) {
			res.entry[d.fi.Obj] = lockset{}
		}
	}
	for iter := 0; iter < 10; iter++ {
		changed := false
		sites := map[*types.Func]lockset{}
		seenSite := map[*types.Func]bool{}
		for _, d := range data {
			entry, ok := res.entry[d.fi.Obj]
			if !ok {
				continue // not yet reached
			}
			for _, t := range d.in.Traces {
				held := entry.clone()
				for _, e := range t.Ev {
					if e.Kind == EvDefer {
						continue
					}
					if m, op := c.mutexOp(d.in, e); m != nil {
						switch op {
						case "Lock":
							held[m] = lockW
						case "RLock":
							if held[m] < lockR {
								held[m] = lockR
							}
						case "Unlock", "RUnlock":
							delete(held, m)
						}
						continue
					}
					if e.Kind == EvCall {
						if g, ok := e.Callee.(*types.Func); ok && c.P.ByObj[g] != nil && c.P.ByObj[g].Pkg == d.fi.Pkg && !isRoot(c.P.ByObj[g]) {
							if seenSite[g] {
								sites[g] = meet(sites[g], held)
							} else {
								sites[g] = held.clone()
								seenSite[g] = true
							}
						}
					}
				}
			}
		}
		for g, ls := range sites {
			old, ok := res.entry[g]
			if !ok || old.String() != ls.String() {
				res.entry[g] = ls
				changed = true
			}
		}
		if !changed {
			break
		}
	}
	// final pass: record accesses
	for _, d := range data {
		entry, ok := res.entry[d.fi.Obj]
		if !ok {
			entry = lockset{} // unreachable helper: treat as unlocked
		}
		for _, t := range d.in.Traces {
			held := entry.clone()
			for _, e := range t.Ev {
				if e.Kind == EvDefer {
					continue
				}
				if m, op := c.mutexOp(d.in, e); m != nil {
					switch op {
					case "Lock":
						held[m] = lockW
					case "RLock":
						if held[m] < lockR {
							held[m] = lockR
						}
					case "Unlock", "RUnlock":
						if _, ok := held[m]; !ok {
							res.badUnlock = append(res.badUnlock, lockAccess{d.fi, e, held.clone(), t})
						}
						delete(held, m)
					}
					continue
				}
				if e.Kind == EvAccess {
					res.accesses = append(res.accesses, lockAccess{d.fi, e, held.clone(), t})
				}
				if watchEv != nil && watchEv(d.fi, e) {
					res.watched = append(res.watched, lockAccess{d.fi, e, held.clone(), t})
				}
				if e.Kind == EvCall && watch != nil {
					if g, ok := e.Callee.(*types.Func); ok {
						for w := range watch {
							if sameFunc(g, w) {
								res.callsUnder[w] = append(res.callsUnder[w], lockAccess{d.fi, e, held.clone(), t})
							}
						}
					}
				}
			}
		}
	}
	return res
}

// judge reports, per (function, field, mode), whether the required mutex was held on every path.
func (c *Ctx) judgeLocks(r *Rule, res *lockResult, guarded map[*types.Var]guardSpec, exempt func(fi *FuncInfo, f *types.Var) string) int {
	type key struct {
		fn string
		f  *types.Var
		w  bool
	}
	ok := map[key]bool{}
	cnt := map[key]int{}
	wit := map[key]lockAccess{}
	var order []key
	for _, a := range res.accesses {
		f := a.ev.LObj.(*types.Var)
		k := key{a.fn.Name, f, a.ev.Write}
		if _, seen := cnt[k]; !seen {
			order = append(order, k)
			ok[k] = true
		}
		cnt[k]++
		g := guarded[f]
		mode := a.held[g.mutex]
		good := mode == lockW || (mode == lockR && !a.ev.Write && !g.anyW)
		if !good && ok[k] {
			ok[k] = false
			wit[k] = a
		}
	}
	n := 0
	for _, k := range order {
		fi := c.P.Func(k.fn)
		if exempt != nil {
			if why := exempt(fi, k.f); why != "" {
				continue
			}
		}
		n++
		mode := "read"
		if k.w {
			mode = "write"
		}
		construct := fmt.Sprintf("%s:%s %s under %s", k.fn, mode, k.f.Name(), guarded[k.f].mutex.Name())
		if ok[k] {
			r.Pass(construct, fi.Decl.Pos(), cnt[k], fmt.Sprintf("%d accesses on all paths hold the mutex", cnt[k]))
		} else {
			a := wit[k]
			r.Fail(construct, a.ev.Pos, cnt[k], fmt.Sprintf("access without the required lock (held: %s)", a.held), c.witness(a.trace)...)
		}
	}
	for _, b := range res.badUnlock {
		m, _ := c.mutexOp(&Interp{P: c.P, Info: b.fn.Pkg.TypesInfo}, b.ev)
		name := "?"
		if m != nil {
			name = m.Name()
		}
		if _, watched := mutexOfSpec(guarded, m); !watched {
			continue
		}
		r.Fail(fmt.Sprintf("%s:unlock %s not held", b.fn.Name, name), b.ev.Pos, 1, "a path reaches an Unlock (possibly deferred) of a mutex that is not held there: runtime fatal error, or the critical section was left early", c.witness(b.trace)...)
		n++
	}
	return n
}

func mutexOfSpec(guarded map[*types.Var]guardSpec, m *types.Var) (guardSpec, bool) {
	for _, g := range guarded {
		if g.mutex == m {
			return g, true
		}
	}
	return guardSpec{}, false
}
