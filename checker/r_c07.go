package main

import (
	"fmt"
	"go/ast"
	"go/types"
	"sort"
	"strings"
)

func init() { register("C07", propC07) }

// closure classification: which packet type does a function literal enqueue into ackQueue?
type ackClosure struct {
	lit      *ast.FuncLit
	enqueues []types.Type // static types sent into ackQueue
	events   []*Event
	paths    int
}

func (c *Ctx) classifyAckClosure(fi *FuncInfo, v *vocab, lit *ast.FuncLit) *ackClosure {
	evs, n := c.litEvents(fi, lit, TraceOpts{})
	ac := &ackClosure{lit: lit, events: evs, paths: n}
	for _, e := range evs {
		if e.Kind == EvSend && e.ChanObj == v.fAckQueue {
			ac.enqueues = append(ac.enqueues, fi.Pkg.TypesInfo.TypeOf(e.Val))
		}
	}
	return ac
}

func (a *ackClosure) enqueuesType(pkg, name string) bool {
	for _, t := range a.enqueues {
		if typeIs(t, pkg, name, true) {
			return true
		}
	}
	return false
}

// ackArg resolves the Ack argument (index i) of a Backend call event to nil / a closure.
func ackArgLit(fi *FuncInfo, e *Event, i int) (isNil bool, lit *ast.FuncLit) {
	if i >= len(e.ArgVals) {
		return false, nil
	}
	switch e.ArgVals[i].K {
	case VNil:
		return true, nil
	case VLit:
		return false, e.ArgVals[i].Lit
	}
	if l, ok := ast.Unparen(e.Call.Args[i]).(*ast.FuncLit); ok {
		return false, l
	}
	return false, nil
}

func propC07(c *Ctx) string {
	v := c.vocab()
	gate := c.Rule("C07/VOCAB", "TABLE", "rule vocabulary (methods, fields, constants) resolves on this tree", 1)
	if m := v.missing(); len(m) > 0 {
		gate.Undecided("vocabulary", 0, "unresolved: "+strings.Join(m, ", "))
		return c07Explanation
	}
	gate.Pass("vocabulary", 0, 1, "all objects resolved through go/types")

	c07AckAfter(c, v)
	c07AckOnly(c, v)
	c07Table(c, v)
	c07RelTerm(c, v)
	c07DelOrder(c, v)
	c07ReqTokens(c, v, "C07")
	// the Incoming store of a resumed session is what makes a retransmitted PUBREL find its PUBLISH
	c08Setup(c, v)
	// a take-over hands the session on only after the old connection has terminated (its processor may still be
	// between Backend.Publish and the release of the stored message)
	c13Setup(c, v)

	c.NotDecide("arbitrary interleavings of retransmitted PUBLISH/PUBREL with connection failures (schedules, crash points)",
		"custom Backend implementations that acknowledge late or from another goroutine: only the closure contents and MemoryBackend.Publish are decided",
		"exactly-once hand-over at runtime; the rules decide the ordering constraints that make a second hand-over impossible after a completed PUBCOMP")
	c.Assume("broker.Session implementations honour their interface comments (DeletePacket removes, LookupPacket returns nil for unknown ids)",
		"field keys are instance-insensitive: one packet.Message / one client per handler invocation")
	return c07Explanation
}

const c07Explanation = "Static path analysis (TRACE engine: structured AST interpreter, conditions evaluated over a finite QoS valuation) of broker.(*Client).processPublish/processPubrel/acker and MemoryBackend.Publish: " +
	"(ACKAFTER) no queue send or retained write follows ack() and no error return contains ack(); (ACKONLY) PUBACK/PUBCOMP reach the wire only through the ack closure -> ackQueue -> acker, plus the direct PUBCOMP for an unknown id; " +
	"(TABLE) per-QoS decision table of processPublish incl. PUBREC only after SavePacket(Incoming) succeeded; (RELTERM) every non-error path of processPubrel produces a PUBCOMP; " +
	"(DELORDER) the stored QoS 2 publish is deleted before the PUBCOMP for it can be written, (RELEASE) and that delete happens in the acknowledgement closure itself, before the PUBCOMP is queued, so that it does not depend on the connection surviving until the acker runs. These are necessary ordering conditions of the property, decided on every path; the behaviour over schedules is not decided."

// ---------------------------------------------------------------- ACKAFTER

func c07AckAfter(c *Ctx, v *vocab) {
	r := c.Rule("C07/ACKAFTER", "TRACE", "in every Backend.Publish implementation of the repo: nothing is enqueued or retained after ack(), and no error return follows ack()", 1)
	for _, fi := range c.implementations("broker", "Backend", "Publish") {
		c.Touch(fi.Name)
		sig := fi.Obj.Type().(*types.Signature)
		if sig.Params().Len() < 3 {
			r.Undecided(fi.Name, fi.Decl.Pos(), "unexpected signature")
			continue
		}
		ackParam := sig.Params().At(2)
		in := c.P.TraceFunc(fi, TraceOpts{})
		if c.undecidedIfOver(r, in, fi.Name) {
			continue
		}
		isAck := callToVar(ackParam)
		enq := c.isQueueSend(fi)
		retainedW := func(e *Event) bool {
			if e.Kind != EvCall {
				return false
			}
			f, ok := e.Callee.(*types.Func)
			if !ok || f.Pkg() == nil || f.Pkg().Name() != "topic" {
				return false
			}
			switch f.Name() {
			case "Set", "Add", "Empty", "Remove", "Clear", "Reset":
				return true
			}
			return false
		}
		ok, w := neverAfter(in.Traces, isAck, or(enq, retainedW))
		r.Check(fi.Name+":ack()≺{enqueue,retain}", ok, fi.Decl.Pos(), len(in.Traces),
			"a queue send or retained-tree write occurs after ack(): the publisher is acknowledged before the backend accepted the message", c.witness(w)...)
		// no error return after ack
		bad := (*Trace)(nil)
		nAck := 0
		for _, t := range in.Traces {
			if !t.has(isAck) {
				continue
			}
			nAck++
			if t.Exit == ExitReturn && t.retErr() > 0 {
				bad = t
				break
			}
			if t.Exit == ExitReturn && t.retErr() == 0 {
				bad = t
				break
			}
		}
		r.Check(fi.Name+":ack()⇒return nil", bad == nil && nAck > 0, fi.Decl.Pos(), len(in.Traces),
			"a path calls ack() and then returns a (possibly) non-nil error, or ack() is never called", c.witness(bad)...)
	}
}

// implementations returns the in-repo methods named meth on concrete types that implement pkg.iface.
func (c *Ctx) implementations(pkg, iface, meth string) []*FuncInfo {
	n := c.P.Named(pkg, iface)
	if n == nil {
		return nil
	}
	it, ok := n.Underlying().(*types.Interface)
	if !ok {
		return nil
	}
	var out []*FuncInfo
	for _, fi := range c.P.Funcs {
		if fi.Obj.Name() != meth {
			continue
		}
		sig := fi.Obj.Type().(*types.Signature)
		if sig.Recv() == nil {
			continue
		}
		rt := sig.Recv().Type()
		if types.Implements(rt, it) || types.Implements(types.NewPointer(rt), it) {
			out = append(out, fi)
		}
	}
	sort.Slice(out, func(i, j int) bool { return out[i].Name < out[j].Name })
	return out
}

// ---------------------------------------------------------------- ACKONLY

func c07AckOnly(c *Ctx, v *vocab) {
	r := c.Rule("C07/ACKONLY", "TRACE+WHO", "in package broker a *Puback/*Pubcomp reaches the wire only via ack closure -> ackQueue -> acker (plus the direct PUBCOMP for an unknown id)", 4)
	receivers := map[string]bool{}
	for _, fi := range c.P.LibFuncs("broker") {
		if fi.Decl.Body == nil {
			continue
		}
		in := c.traces(fi)
		if in.Over {
			r.Undecided(fi.Name, fi.Decl.Pos(), "path budget exhausted")
			continue
		}
		// direct sends
		for _, t := range in.Traces {
			for i, e := range t.Ev {
				if !callTo(v.bSend)(e) && !callTo(v.connSend)(e) {
					continue
				}
				// the designated sink: the value drained from ackQueue is written by the draining
				// goroutine (whatever a type assertion on the path narrowed its static type to)
				if e.Call != nil && len(e.Call.Args) > 0 && ackQueueValue(fi, v, t.Ev[:i], e.Call.Args[0]) {
					continue
				}
				if argIs(0, "packet", "Puback")(e) {
					r.Fail(fi.Name+":send(*packet.Puback)", e.Pos, len(in.Traces), "a PUBACK is written directly instead of through the ack closure handed to Backend.Publish", c.witness(t)...)
				}
				if argIs(0, "packet", "Pubcomp")(e) {
					// allowed only when the lookup produced no stored publish
					neg := false
					for _, p := range t.Ev[:i] {
						if p.Kind == EvOutcome && p.DefCall != nil {
							if p.DefCall.Kind == EvAssert && len(p.DefCall.Types) == 1 && typeIs(p.DefCall.Types[0], "packet", "Publish", true) && !p.Outcome {
								neg = true
							}
							if p.DefCall.Kind == EvCall && sameFunc(p.DefCall.Callee, v.bsLookup) && p.Nilness < 0 && p.Var != nil && p.Var.Name() != "err" && !isErrType(p.Var.Type()) {
								neg = true
							}
						}
						if callTo(v.bkPublish)(p) {
							neg = false
						}
					}
					r.Check(fi.Name+":send(*packet.Pubcomp)", neg, e.Pos, len(in.Traces),
						"a PUBCOMP is written directly although the stored publish may exist (only the unknown-id branch may answer directly)", c.witness(t)...)
				}
			}
			if t.has(recvOn(v.fAckQueue)) {
				receivers[fi.Name] = true
			}
		}
		c.Touch(fi.Name)
		// enqueues outside closures handed to Backend.Publish
		for _, t := range in.Traces {
			for _, e := range t.Ev {
				if e.Kind == EvSend && e.ChanObj == v.fAckQueue {
					tt := fi.Pkg.TypesInfo.TypeOf(e.Val)
					if typeIs(tt, "packet", "Puback", true) || typeIs(tt, "packet", "Pubcomp", true) {
						r.Fail(fi.Name+":ackQueue<-"+typeStr(tt), e.Pos, len(in.Traces), "an acknowledgement is queued outside the ack closure handed to the backend", c.witness(t)...)
					}
				}
			}
		}
		// closures: every literal that enqueues Puback/Pubcomp must be the Ack argument of Backend.Publish
		lits := funcLits(fi.Decl.Body)
		handed := map[*ast.FuncLit]bool{}
		for _, t := range in.Traces {
			for _, e := range t.Ev {
				if callTo(v.bkPublish)(e) {
					if _, lit := ackArgLit(fi, e, 2); lit != nil {
						handed[lit] = true
					}
				}
			}
		}
		top := map[*ast.FuncLit]bool{}
		for _, t := range in.Traces {
			for _, e := range t.Ev {
				if e.Kind == EvFuncLit {
					top[e.Lit] = true
				}
			}
		}
		_ = lits
		var tl []*ast.FuncLit
		for l := range top {
			tl = append(tl, l)
		}
		sort.Slice(tl, func(i, j int) bool { return tl[i].Pos() < tl[j].Pos() })
		for _, l := range tl {
			ac := c.classifyAckClosure(fi, v, l)
			for _, tt := range ac.enqueues {
				if typeIs(tt, "packet", "Puback", true) || typeIs(tt, "packet", "Pubcomp", true) {
					r.Check(fi.Name+":closure→ackQueue<-"+typeStr(tt), handed[l], l.Pos(), ac.paths,
						"a closure that queues an acknowledgement is not the Ack argument of Backend.Publish")
				}
			}
		}
	}
	var rs []string
	for n := range receivers {
		rs = append(rs, n)
	}
	sort.Strings(rs)
	r.Check("ackQueue:single receiver", len(rs) == 1, 0, 1, fmt.Sprintf("receivers of ackQueue: %v (exactly one goroutine function must drain it)", rs))
}

// ackQueueValue reports whether arg is the variable bound by a receive from ackQueue earlier on the path.
func ackQueueValue(fi *FuncInfo, v *vocab, before []*Event, arg ast.Expr) bool {
	id, ok := ast.Unparen(arg).(*ast.Ident)
	if !ok {
		return false
	}
	o := fi.Pkg.TypesInfo.ObjectOf(id)
	if o == nil {
		return false
	}
	for _, p := range before {
		if p.Kind == EvRecv && p.ChanObj == v.fAckQueue && p.LHS != nil {
			if lid, ok := ast.Unparen(p.LHS).(*ast.Ident); ok && fi.Pkg.TypesInfo.ObjectOf(lid) == o {
				return true
			}
		}
	}
	return false
}

func isErrType(t types.Type) bool {
	return t != nil && types.Identical(t, types.Universe.Lookup("error").Type())
}

// ---------------------------------------------------------------- TABLE

type rowSet map[string]bool

func (s rowSet) String() string {
	var k []string
	for x := range s {
		k = append(k, x)
	}
	sort.Strings(k)
	return "{" + strings.Join(k, ", ") + "}"
}

func c07Table(c *Ctx, v *vocab) {
	r := c.Rule("C07/TABLE", "TRACE(table)", "decision table of broker processPublish by QoS: 0→Publish(nil ack); 1→token, Publish(ack closure queues PUBACK(id)); 2→token, SavePacket(Incoming)→ok ≺ send(PUBREC(id)), no Publish", 3)
	fi := c.handlerOf(r, "broker", "Publish")
	if fi == nil {
		return
	}
	mf := c.msgFields()
	ref := map[int64]rowSet{
		0: {"Backend.Publish(ack=nil)": true},
		1: {"take(publishTokens)": true, "Backend.Publish(ack=closure→PUBACK)": true},
		2: {"take(publishTokens)": true, "SavePacket(Incoming)": true, "send(PUBREC)": true},
	}
	info := fi.Pkg.TypesInfo
	for q := int64(0); q <= 2; q++ {
		in := c.P.TraceFunc(fi, TraceOpts{Init: map[types.Object]Val{mf.msgQOS: vInt(q)}, NonNil: func(f *types.Func) bool { return f == v.bDie }})
		key := fmt.Sprintf("%s@QOS=%d", fi.Name, q)
		if c.undecidedIfOver(r, in, key) {
			continue
		}
		may := rowSet{}
		var mustFail *Trace
		nsucc := 0
		for _, t := range in.Traces {
			if !t.success() {
				continue
			}
			nsucc++
			have := rowSet{}
			for i, e := range t.Ev {
				switch {
				case recvOn(v.fPublishTokens)(e):
					have["take(publishTokens)"] = true
				case callTo(v.bkPublish)(e):
					isNil, lit := ackArgLit(fi, e, 2)
					switch {
					case isNil:
						have["Backend.Publish(ack=nil)"] = true
					case lit != nil:
						ac := c.classifyAckClosure(fi, v, lit)
						switch {
						case ac.enqueuesType("packet", "Puback"):
							have["Backend.Publish(ack=closure→PUBACK)"] = true
						case ac.enqueuesType("packet", "Pubcomp"):
							have["Backend.Publish(ack=closure→PUBCOMP)"] = true
						default:
							have["Backend.Publish(ack=closure→nothing)"] = true
						}
					default:
						have["Backend.Publish(ack=?)"] = true
					}
				case callTo(v.bsSave)(e) && argConstInt(0, v.incoming)(e):
					if t.errOutcome(e) == -1 {
						have["SavePacket(Incoming)"] = true
					} else {
						have["SavePacket(Incoming) unchecked"] = true
					}
				case callTo(v.bsSave)(e):
					have["SavePacket(other)"] = true
				case callTo(v.bSend)(e), callTo(v.connSend)(e):
					switch {
					case argIs(0, "packet", "Pubrec")(e):
						// PUBREC must come after the successful save
						saved := false
						for _, p := range t.Ev[:i] {
							if callTo(v.bsSave)(p) && argConstInt(0, v.incoming)(p) && t.errOutcome(p) == -1 {
								saved = true
							}
						}
						if saved {
							have["send(PUBREC)"] = true
						} else {
							have["send(PUBREC) before SavePacket(Incoming)→ok"] = true
						}
					default:
						if len(e.ArgTypes) > 0 {
							have["send("+typeStr(e.ArgTypes[0])+")"] = true
						}
					}
				case e.Kind == EvSend && e.ChanObj == v.fAckQueue:
					have["ackQueue<-"+typeStr(info.TypeOf(e.Val))] = true
				}
			}
			for k := range have {
				may[k] = true
			}
			for k := range ref[q] {
				if !have[k] && mustFail == nil {
					mustFail = t
				}
			}
		}
		okMay := may.String() == ref[q].String()
		r.Check(key, okMay && mustFail == nil && nsucc > 0, fi.Decl.Pos(), len(in.Traces),
			fmt.Sprintf("extracted row %s, reference row %s (success traces: %d)", may, ref[q], nsucc), c.witness(mustFail)...)
	}
	// id correlation: the PUBACK / PUBREC carry the id of the publish
	in := c.P.TraceFunc(fi, TraceOpts{})
	idOf := func(typ string) bool {
		f := c.P.Field("packet", typ, "ID")
		pid := c.P.Field("packet", "Publish", "ID")
		found, ok := false, true
		for _, t := range in.Traces {
			for _, e := range t.Ev {
				if e.Kind == EvAssign && e.LObj == f {
					found = true
					ro := evRHSObj(&Interp{P: c.P, Info: info}, e)
					if ro != pid {
						ok = false
					}
				}
			}
		}
		return found && ok
	}
	c.Rule("C07/ID", "TRACE", "the acknowledgement carries the packet id of the publish it answers", 2)
	rid := c.Rule("C07/ID", "", "", 2)
	rid.Check(fi.Name+":Puback.ID=Publish.ID", idOf("Puback"), fi.Decl.Pos(), len(in.Traces), "every store to Puback.ID must copy Publish.ID")
	rid.Check(fi.Name+":Pubrec.ID=Publish.ID", idOf("Pubrec"), fi.Decl.Pos(), len(in.Traces), "every store to Pubrec.ID must copy Publish.ID")
}

// handlerOf finds the handler the broker's (or client's) packet type switch calls for *packet.T.
func (c *Ctx) handlerOf(r *Rule, pkg, typ string) *FuncInfo {
	var sw *FuncInfo
	if pkg == "broker" {
		sw = c.P.Func("broker.(*Client).processPacket")
	} else {
		sw = c.P.Func("client.(*Client).processor")
	}
	if sw == nil {
		r.Undecided(pkg+" packet switch", 0, "dispatch function not found")
		return nil
	}
	c.Touch(sw.Name)
	in := c.P.TraceFunc(sw, TraceOpts{})
	for _, t := range in.Traces {
		for i, e := range t.Ev {
			if e.Kind == EvTypeCase && len(e.Types) == 1 && typeIs(e.Types[0], "packet", typ, true) {
				for _, n := range t.Ev[i+1:] {
					if n.Kind == EvTypeCase {
						break
					}
					if n.Kind == EvCall {
						if f, ok := n.Callee.(*types.Func); ok {
							if h := c.P.ByObj[f]; h != nil && shortPkg(h.Pkg.PkgPath) == pkg {
								c.Touch(h.Name)
								return h
							}
						}
					}
				}
			}
		}
	}
	r.Undecided(pkg+" handler for *packet."+typ, sw.Decl.Pos(), "no arm of the packet type switch handles this type")
	return nil
}

// ---------------------------------------------------------------- RELTERM

func c07RelTerm(c *Ctx, v *vocab) {
	r := c.Rule("C07/RELTERM", "TRACE", "every non-error path of the broker's PUBREL handler produces a PUBCOMP (direct send, or Backend.Publish with a closure that queues it)", 2)
	fi := c.handlerOf(r, "broker", "Pubrel")
	if fi == nil {
		return
	}
	in := c.P.TraceFunc(fi, TraceOpts{NonNil: func(f *types.Func) bool { return f == v.bDie }})
	if c.undecidedIfOver(r, in, fi.Name) {
		return
	}
	rows := map[string]int{}
	for _, t := range in.Traces {
		if !t.success() {
			continue
		}
		produced := ""
		for _, e := range t.Ev {
			if (callTo(v.bSend)(e) || callTo(v.connSend)(e)) && argIs(0, "packet", "Pubcomp")(e) && t.errOutcome(e) <= 0 {
				produced = "direct"
			}
			if callTo(v.bkPublish)(e) {
				if _, lit := ackArgLit(fi, e, 2); lit != nil {
					if c.classifyAckClosure(fi, v, lit).enqueuesType("packet", "Pubcomp") {
						produced = "via-ack"
					}
				}
			}
		}
		if produced == "" {
			r.Fail(fi.Name+":return-ok without PUBCOMP", fi.Decl.Pos(), len(in.Traces), "a PUBREL is consumed without any PUBCOMP: the publisher's handshake never terminates", c.witness(t)...)
			return
		}
		rows[produced]++
	}
	r.Check(fi.Name+":stored→PUBCOMP via ack", rows["via-ack"] > 0, fi.Decl.Pos(), len(in.Traces), fmt.Sprintf("rows: %v", rows))
	r.Check(fi.Name+":unknown id→PUBCOMP direct", rows["direct"] > 0, fi.Decl.Pos(), len(in.Traces), fmt.Sprintf("rows: %v", rows))
	// pubcomp id
	info := fi.Pkg.TypesInfo
	f := c.P.Field("packet", "Pubcomp", "ID")
	sig := fi.Obj.Type().(*types.Signature)
	okID, found := true, false
	for _, t := range in.Traces {
		for _, e := range t.Ev {
			if e.Kind == EvAssign && e.LObj == f {
				found = true
				ro := evRHSObj(&Interp{P: c.P, Info: info}, e)
				if sig.Params().Len() == 0 || (ro != sig.Params().At(0) && ro != c.P.Field("packet", "Publish", "ID")) {
					okID = false
				}
			}
		}
	}
	r.Check(fi.Name+":Pubcomp.ID=released id", found && okID, fi.Decl.Pos(), len(in.Traces), "Pubcomp.ID must be the id of the PUBREL being answered")
}

// ---------------------------------------------------------------- DELORDER

func c07DelOrder(c *Ctx, v *vocab) {
	r := c.Rule("C07/DELORDER", "TRACE", "the stored QoS 2 publish is deleted (DeletePacket(Incoming)→ok) before the PUBCOMP for it can be written: in the ack closure before queueing, or in the acker before send", 1)
	pubrel := c.handlerOf(r, "broker", "Pubrel")
	if pubrel == nil {
		return
	}
	delIn := and(callTo(v.bsDelete), argConstInt(0, v.incoming))
	// (A) closure side
	condA, nA := true, 0
	pin := c.P.TraceFunc(pubrel, TraceOpts{})
	seenLit := map[*ast.FuncLit]bool{}
	for _, t := range pin.Traces {
		for _, e := range t.Ev {
			if !callTo(v.bkPublish)(e) {
				continue
			}
			_, lit := ackArgLit(pubrel, e, 2)
			if lit == nil || seenLit[lit] {
				continue
			}
			seenLit[lit] = true
			// innermost literal that performs the enqueue
			for _, l := range funcLits(lit) {
				lin := c.P.TraceLit(pubrel, l, TraceOpts{})
				for _, lt := range lin.Traces {
					q := lt.first(func(e *Event) bool {
						return e.Kind == EvSend && e.ChanObj == v.fAckQueue
					})
					if q < 0 {
						continue
					}
					nA++
					d := lt.first(delIn)
					if d < 0 || d > q || lt.errOutcome(lt.Ev[d]) != -1 {
						condA = false
					}
				}
			}
		}
	}
	if nA == 0 {
		condA = false
	}
	// (B) acker side: the function that drains ackQueue
	condB, nB := true, 0
	var witness *Trace
	var ackerFn *FuncInfo
	for _, fi := range c.P.LibFuncs("broker") {
		if fi.Decl.Body == nil {
			continue
		}
		in := c.traces(fi)
		for _, t := range in.Traces {
			rq := t.first(recvOn(v.fAckQueue))
			if rq < 0 {
				continue
			}
			ackerFn = fi
			for i := rq + 1; i < len(t.Ev); i++ {
				e := t.Ev[i]
				if !(callTo(v.bSend)(e) || callTo(v.connSend)(e)) {
					continue
				}
				// can the packet be a PUBCOMP on this path?
				at := e.ArgTypes[0]
				if typeIs(at, "packet", "Pubcomp", true) || isGeneric(at) {
					excluded := false
					for _, p := range t.Ev {
						if p.Kind == EvOutcome && p.DefCall != nil && p.DefCall.Kind == EvAssert && len(p.DefCall.Types) == 1 &&
							typeIs(p.DefCall.Types[0], "packet", "Pubcomp", true) && !p.Outcome && p.Pos < e.Pos {
							excluded = true
						}
						if p.Kind == EvTypeCase && p.Pos < e.Pos && !p.Default {
							hasPubcomp := false
							for _, tt := range p.Types {
								if typeIs(tt, "packet", "Pubcomp", true) {
									hasPubcomp = true
								}
							}
							if !hasPubcomp {
								excluded = true
							}
						}
					}
					if excluded {
						continue
					}
					nB++
					d := t.first(delIn)
					if d < 0 || d > i || t.errOutcome(t.Ev[d]) != -1 {
						condB = false
						if witness == nil {
							witness = t
						}
					}
				}
			}
		}
	}
	if nB == 0 {
		condB = false
	}
	name := "broker acker"
	pos := pubrel.Decl.Pos()
	if ackerFn != nil {
		name = ackerFn.Name
		pos = ackerFn.Decl.Pos()
		c.Touch(ackerFn.Name)
	}
	r.Check(name+":DeletePacket(Incoming)≺send(PUBCOMP)", condA || condB, pos, len(pin.Traces)+nB,
		fmt.Sprintf("closure side deletes before queueing: %v (%d enqueue paths); acker side deletes before send: %v (%d send paths). "+
			"Neither holds: a failed PUBCOMP write leaves the publish stored and a retransmitted PUBREL forwards it a second time", condA, nA, condB, nB), c.witness(witness)...)
	// RELEASE: deleting in the acker is not enough. Between the backend's acknowledgement and the acker's turn the
	// connection can fail: the closure's enqueue then takes its dying arm (or the acker leaves through its dying
	// arm) and the publish stays stored although the backend has accepted it, so the PUBREL retransmitted after the
	// session resumption hands it on a second time. The release has to happen in the acknowledgement closure
	// itself, before (and independent of) the enqueue.
	rr := c.Rule("C07/RELEASE", "TRACE", "PUBREL handler: the acknowledgement closure handed to Backend.Publish deletes the stored publish (DeletePacket(Incoming)→ok) before it queues the PUBCOMP, on every path of the closure that reaches the enqueue: once the backend accepted the message, no connection failure can leave it stored", 1)
	rr.Check(pubrel.Name+":ack closure releases the stored publish before queueing PUBCOMP", condA, pubrel.Decl.Pos(), nA,
		fmt.Sprintf("the ack closure queues the PUBCOMP on %d path(s) without having deleted the stored publish: if the connection fails after the backend accepted the message and before the acker deletes it (the enqueue or the acker takes the dying arm), the retransmitted PUBREL forwards the message again", nA))
}

func isGeneric(t types.Type) bool {
	n, ok := t.(*types.Named)
	return ok && n.Obj().Name() == "Generic" && n.Obj().Pkg() != nil && n.Obj().Pkg().Name() == "packet"
}
