package main

import (
	"flag"
	"fmt"
	"os"
	"runtime/debug"
	"sort"
	"strconv"
	"strings"
	"time"
)

type propFunc func(c *Ctx) (explanation string)

var props = map[string]propFunc{}

func register(id string, f propFunc) { props[id] = f }

func main() {
	repo := flag.String("repo", "/repo", "repository root")
	verif := flag.String("verif", "/verif", "verification root (known findings, seeded corpus)")
	out := flag.String("out", "", "directory that receives evidence/ (default: the verification root)")
	prop := flag.String("prop", "", "property id (C01..C20), a comma list, or all")
	tier := flag.String("tier", "quick", "quick|thorough")
	goos := flag.String("goos", "", "GOOS of the analysed build configuration (default: host)")
	goarch := flag.String("goarch", "", "GOARCH of the analysed build configuration (default: host)")
	summary := flag.Bool("summary", false, "print one machine-readable SUMMARY line per property (used by the thorough tier's child runs)")
	noself := flag.Bool("noselftest", false, "thorough: skip the seeded-change corpus")
	dump := flag.String("dump", "", "debug: dump the traces of a function (qualified name)")
	dumpFields := flag.Bool("dumpfields", false, "debug: print the unexported struct fields of the library packages (to regenerate a_known.go)")
	explain := flag.Bool("explain", false, "print every obligation")
	list := flag.Bool("list", false, "list registered properties")
	flag.Parse()
	if t := os.Getenv("VERIF_TIER"); t == "quick" || t == "thorough" {
		*tier = t
	}
	if *out == "" {
		*out = *verif
	}
	seed := 0
	if s := os.Getenv("VERIF_SEED"); s != "" {
		if n, err := strconv.Atoi(s); err == nil {
			seed = n
		}
	}
	var all []string
	for id := range props {
		all = append(all, id)
	}
	sort.Strings(all)
	if *list {
		fmt.Println(strings.Join(all, " "))
		return
	}
	var ids []string
	switch {
	case *prop == "all":
		ids = all
	case *prop != "":
		ids = strings.Split(*prop, ",")
	}
	for _, id := range ids {
		if _, ok := props[id]; !ok {
			fmt.Printf("unknown property %q\n", id)
			os.Exit(2)
		}
	}
	start := time.Now()
	p, err := Load(*repo, *tier == "thorough", *goos, *goarch)
	if err != nil {
		// a tree that does not type-check cannot be decided
		fmt.Printf("UNDECIDED load: %v\n", err)
		for _, id := range ids {
			os.MkdirAll(*out+"/evidence/violations", 0o755)
			path := fmt.Sprintf("%s/evidence/violations/%s-load.json", *out, id)
			os.WriteFile(path, []byte(fmt.Sprintf("{\"property\":%q,\"status\":\"undecided\",\"detail\":%q}\n", id, err.Error())), 0o644)
			fmt.Printf("VIOLATION property=%s replay=%s\n", id, path)
			if *summary {
				fmt.Printf("SUMMARY %s\n", mustJSON(runSummary{Prop: id, Violations: []sumViol{{Rule: id + "/LOAD", Construct: "load", Status: "undecided", Detail: err.Error()}}}))
			}
		}
		os.Exit(1)
	}
	fmt.Printf("loaded %d packages, %d files, %d functions from %s (module go %s%s) in %.1fs\n",
		len(p.Pkgs), p.Files, len(p.Funcs), *repo, p.GoVersion, cfgLabel(*goos, *goarch), time.Since(start).Seconds())
	if *dumpFields {
		for _, l := range p.structFields() {
			fmt.Println("FIELD\t" + l)
		}
		var ns []string
		for n := range p.Funcs {
			ns = append(ns, n)
		}
		sort.Strings(ns)
		for _, n := range ns {
			fmt.Println("FUNC\t" + n + "\t" + sigString(p.Funcs[n].Obj))
		}
		return
	}
	if *dump != "" {
		dumpTraces(p, *dump)
		return
	}
	if len(ids) == 0 {
		fmt.Println("no property given (-prop)")
		os.Exit(2)
	}
	exit := 0
	for _, id := range ids {
		pstart := time.Now()
		if len(ids) == 1 {
			pstart = start
		}
		c := NewCtx(p, id, *tier)
		c.Explain = *explain
		c.Verif, c.Out, c.Summary = *verif, *out, *summary
		code := func() (code int) {
			defer func() {
				if r := recover(); r != nil {
					fmt.Printf("UNDECIDED analysis panic: %v\n%s\n", r, debug.Stack())
					path := fmt.Sprintf("%s/evidence/violations/%s-panic.json", *out, id)
					os.MkdirAll(*out+"/evidence/violations", 0o755)
					os.WriteFile(path, []byte(fmt.Sprintf("{\"property\":%q,\"status\":\"undecided\",\"detail\":%q}\n", id, fmt.Sprint(r))), 0o644)
					fmt.Printf("VIOLATION property=%s replay=%s\n", id, path)
					if *summary {
						fmt.Printf("SUMMARY %s\n", mustJSON(runSummary{Prop: id, Violations: []sumViol{{Rule: id + "/PANIC", Construct: "analysis", Status: "undecided", Detail: fmt.Sprint(r)}}}))
					}
					code = 1
				}
			}()
			expl := props[id](c)
			if *explain {
				for _, o := range c.Obls {
					fmt.Printf("  [%s] %s %s @%s %s\n", o.Status, o.Rule, o.Construct, o.Pos, o.Detail)
				}
			}
			var extra map[string]interface{}
			if *tier == "thorough" && *goos == "" && *goarch == "" {
				extra = thoroughExtras(c, *repo, *verif, !*noself)
			}
			return c.Finish(seed, pstart, expl, extra)
		}()
		if code > exit {
			exit = code
		}
	}
	os.Exit(exit)
}

func cfgLabel(goos, goarch string) string {
	if goos == "" && goarch == "" {
		return ""
	}
	return ", " + goos + "/" + goarch
}

func dumpTraces(p *Program, name string) {
	fi := p.Func(name)
	if fi == nil {
		fmt.Println("no such function; known:")
		var ns []string
		for n := range p.Funcs {
			ns = append(ns, n)
		}
		sort.Strings(ns)
		for _, n := range ns {
			fmt.Println("  ", n)
		}
		return
	}
	in := p.TraceFunc(fi, TraceOpts{})
	for i, t := range in.Traces {
		fmt.Printf("--- trace %d\n", i)
		for _, s := range p.TraceStrings(t) {
			fmt.Println("   ", s)
		}
	}
	fmt.Printf("%d traces, over=%v unsupported=%v\n", len(in.Traces), in.Over, in.Unsupported)
}
