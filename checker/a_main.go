package main

import (
	"flag"
	"fmt"
	"os"
	"runtime/debug"
	"sort"
	"strconv"
	"strings"
	"time"
)

type propFunc func(c *Ctx) (explanation string)

var props = map[string]propFunc{}

func register(id string, f propFunc) { props[id] = f }

func main() {
	repo := flag.String("repo", "/repo", "repository root")
	verif := flag.String("verif", "/verif", "verification root (evidence, known findings)")
	prop := flag.String("prop", "", "property id (C01..C20)")
	tier := flag.String("tier", "quick", "quick|thorough")
	dump := flag.String("dump", "", "debug: dump the traces of a function (qualified name)")
	explain := flag.Bool("explain", false, "print every obligation")
	list := flag.Bool("list", false, "list registered properties")
	flag.Parse()
	if t := os.Getenv("VERIF_TIER"); t == "quick" || t == "thorough" {
		*tier = t
	}
	seed := 0
	if s := os.Getenv("VERIF_SEED"); s != "" {
		if n, err := strconv.Atoi(s); err == nil {
			seed = n
		}
	}
	if *list {
		var ids []string
		for id := range props {
			ids = append(ids, id)
		}
		sort.Strings(ids)
		fmt.Println(strings.Join(ids, " "))
		return
	}
	start := time.Now()
	p, err := Load(*repo, *tier == "thorough", "", "")
	if err != nil {
		// a tree that does not type-check cannot be decided
		fmt.Printf("UNDECIDED load: %v\n", err)
		if *prop != "" {
			os.MkdirAll(*verif+"/evidence/violations", 0o755)
			path := fmt.Sprintf("%s/evidence/violations/%s-load.json", *verif, *prop)
			os.WriteFile(path, []byte(fmt.Sprintf("{\"property\":%q,\"status\":\"undecided\",\"detail\":%q}\n", *prop, err.Error())), 0o644)
			fmt.Printf("VIOLATION property=%s replay=%s\n", *prop, path)
		}
		os.Exit(1)
	}
	fmt.Printf("loaded %d packages, %d files, %d functions from %s (module go %s) in %.1fs\n",
		len(p.Pkgs), p.Files, len(p.Funcs), *repo, p.GoVersion, time.Since(start).Seconds())
	if *dump != "" {
		dumpTraces(p, *dump)
		return
	}
	f, ok := props[*prop]
	if !ok {
		fmt.Printf("unknown property %q\n", *prop)
		os.Exit(2)
	}
	c := NewCtx(p, *prop, *tier)
	c.Explain = *explain
	code := func() (code int) {
		defer func() {
			if r := recover(); r != nil {
				fmt.Printf("UNDECIDED analysis panic: %v\n%s\n", r, debug.Stack())
				path := fmt.Sprintf("%s/evidence/violations/%s-panic.json", *verif, *prop)
				os.MkdirAll(*verif+"/evidence/violations", 0o755)
				os.WriteFile(path, []byte(fmt.Sprintf("{\"property\":%q,\"status\":\"undecided\",\"detail\":%q}\n", *prop, fmt.Sprint(r))), 0o644)
				fmt.Printf("VIOLATION property=%s replay=%s\n", *prop, path)
				code = 1
			}
		}()
		expl := f(c)
		if *explain {
			for _, o := range c.Obls {
				fmt.Printf("  [%s] %s %s @%s %s\n", o.Status, o.Rule, o.Construct, o.Pos, o.Detail)
			}
		}
		return c.Finish(*verif, seed, start, expl, nil)
	}()
	os.Exit(code)
}

func dumpTraces(p *Program, name string) {
	fi := p.Func(name)
	if fi == nil {
		fmt.Println("no such function; known:")
		var ns []string
		for n := range p.Funcs {
			ns = append(ns, n)
		}
		sort.Strings(ns)
		for _, n := range ns {
			fmt.Println("  ", n)
		}
		return
	}
	in := p.TraceFunc(fi, TraceOpts{})
	for i, t := range in.Traces {
		fmt.Printf("--- trace %d\n", i)
		for _, s := range p.TraceStrings(t) {
			fmt.Println("   ", s)
		}
	}
	fmt.Printf("%d traces, over=%v unsupported=%v\n", len(in.Traces), in.Over, in.Unsupported)
}
