package main

// ASSERT: every unchecked type assertion x.(T) must be discharged by a checkable justification.

import (
	"fmt"
	"go/ast"
	"go/token"
	"go/types"
	"sort"
	"strings"
)

type assertSite struct {
	fi   *FuncInfo
	expr *ast.TypeAssertExpr
	pkg  string
}

// uncheckedAsserts lists the single-value type assertions of the library packages.
func (c *Ctx) uncheckedAsserts(pkgs ...string) []assertSite {
	var out []assertSite
	for _, pk := range pkgs {
		for _, fi := range c.P.LibFuncsAll(pk) {
			if fi.Decl.Body == nil {
				continue
			}
			checked := map[*ast.TypeAssertExpr]bool{}
			ast.Inspect(fi.Decl.Body, func(m ast.Node) bool {
				switch y := m.(type) {
				case *ast.AssignStmt:
					if len(y.Lhs) == 2 && len(y.Rhs) == 1 {
						if ta, ok := ast.Unparen(y.Rhs[0]).(*ast.TypeAssertExpr); ok {
							checked[ta] = true
						}
					}
				case *ast.ValueSpec:
					if len(y.Names) == 2 && len(y.Values) == 1 {
						if ta, ok := ast.Unparen(y.Values[0]).(*ast.TypeAssertExpr); ok {
							checked[ta] = true
						}
					}
				case *ast.TypeSwitchStmt:
					ast.Inspect(y.Assign, func(k ast.Node) bool {
						if ta, ok := k.(*ast.TypeAssertExpr); ok && ta.Type == nil {
							checked[ta] = true
						}
						return true
					})
				}
				return true
			})
			ast.Inspect(fi.Decl.Body, func(m ast.Node) bool {
				if ta, ok := m.(*ast.TypeAssertExpr); ok && ta.Type != nil && !checked[ta] {
					out = append(out, assertSite{fi, ta, pk})
				}
				return true
			})
		}
	}
	sort.Slice(out, func(i, j int) bool { return out[i].expr.Pos() < out[j].expr.Pos() })
	return out
}

// constReturn: method m has the single body `return K` with K a constant; returns its value string.
func (c *Ctx) constReturn(f *types.Func) (string, bool) {
	fi := c.P.ByObj[f]
	if fi == nil || fi.Decl.Body == nil || len(fi.Decl.Body.List) != 1 {
		return "", false
	}
	r, ok := fi.Decl.Body.List[0].(*ast.ReturnStmt)
	if !ok || len(r.Results) != 1 {
		return "", false
	}
	tv, ok := fi.Pkg.TypesInfo.Types[r.Results[0]]
	if !ok || tv.Value == nil {
		return "", false
	}
	return tv.Value.ExactString(), true
}

func enclosing(root ast.Node, target ast.Node) []ast.Node {
	var path, best []ast.Node
	var visit func(n ast.Node) bool
	visit = func(n ast.Node) bool {
		if n == nil {
			return false
		}
		path = append(path, n)
		if n == target {
			best = append([]ast.Node{}, path...)
			return true
		}
		found := false
		ast.Inspect(n, func(m ast.Node) bool {
			if m == n || found || m == nil {
				return m == n
			}
			if visit(m) {
				found = true
			}
			return false
		})
		path = path[:len(path)-1]
		return found
	}
	visit(root)
	return best
}

// justifyAssert returns (justification, detail) or ("", reason why not).
func (c *Ctx) justifyAssert(s assertSite) (string, string) {
	info := s.fi.Pkg.TypesInfo
	h := &Interp{P: c.P, Info: info}
	T := info.TypeOf(s.expr.Type)
	op := ast.Unparen(s.expr.X)

	// J-TAG
	path := enclosing(s.fi.Decl.Body, s.expr)
	for i := len(path) - 1; i >= 0; i-- {
		cc, ok := path[i].(*ast.CaseClause)
		if !ok || i < 2 {
			continue
		}
		sw, ok := path[i-2].(*ast.SwitchStmt)
		if !ok || sw.Tag == nil {
			continue
		}
		call, ok := ast.Unparen(sw.Tag).(*ast.CallExpr)
		if !ok {
			continue
		}
		sel, ok := ast.Unparen(call.Fun).(*ast.SelectorExpr)
		if !ok || sel.Sel.Name != "Type" || h.objOf(sel.X) == nil || h.objOf(sel.X) != h.objOf(op) {
			continue
		}
		// T's Type method
		var tm *types.Func
		ms := types.NewMethodSet(T)
		for j := 0; j < ms.Len(); j++ {
			if ms.At(j).Obj().Name() == "Type" {
				tm, _ = ms.At(j).Obj().(*types.Func)
			}
		}
		if tm == nil {
			return "", "asserted type has no Type() method"
		}
		k, ok := c.constReturn(tm)
		if !ok {
			return "", "Type() of the asserted type is not a constant return"
		}
		if len(cc.List) != 1 {
			return "", "case clause with several tags"
		}
		tv, ok := info.Types[cc.List[0]]
		if !ok || tv.Value == nil || tv.Value.ExactString() != k {
			return "", fmt.Sprintf("case tag %s differs from %s.Type()=%s", c.P.exprStr(cc.List[0]), typeStr(T), k)
		}
		return "J-TAG", fmt.Sprintf("case %s and (%s).Type() both are %s", c.P.exprStr(cc.List[0]), typeStr(T), k)
	}

	// J-POOL
	if call, ok := op.(*ast.CallExpr); ok {
		if sel, ok := ast.Unparen(call.Fun).(*ast.SelectorExpr); ok && sel.Sel.Name == "Get" {
			if pv, ok := h.objOf(sel.X).(*types.Var); ok && !pv.IsField() && pv.Parent() == pv.Pkg().Scope() && typeStr(pv.Type()) == "sync.Pool" {
				// find the declaration
				okNew, okPut := false, true
				nPut := 0
				for _, f := range s.fi.Pkg.Syntax {
					ast.Inspect(f, func(m ast.Node) bool {
						switch y := m.(type) {
						case *ast.ValueSpec:
							for i, n := range y.Names {
								if info.Defs[n] == pv && i < len(y.Values) {
									if cl, ok := y.Values[i].(*ast.CompositeLit); ok {
										for _, el := range cl.Elts {
											if kv, ok := el.(*ast.KeyValueExpr); ok {
												if id, ok := kv.Key.(*ast.Ident); ok && id.Name == "New" {
													if fl, ok := kv.Value.(*ast.FuncLit); ok {
														all := true
														cnt := 0
														ast.Inspect(fl.Body, func(k ast.Node) bool {
															if r, ok := k.(*ast.ReturnStmt); ok && len(r.Results) == 1 {
																cnt++
																if !types.Identical(info.TypeOf(r.Results[0]), T) {
																	all = false
																}
															}
															return true
														})
														okNew = all && cnt > 0
													}
												}
											}
										}
									}
								}
							}
						case *ast.CallExpr:
							if ps, ok := ast.Unparen(y.Fun).(*ast.SelectorExpr); ok && ps.Sel.Name == "Put" && h.objOf(ps.X) == pv && len(y.Args) == 1 {
								nPut++
								if !types.Identical(info.TypeOf(y.Args[0]), T) {
									okPut = false
								}
							}
						}
						return true
					})
				}
				if okNew && okPut {
					return "J-POOL", fmt.Sprintf("pool %s: New returns %s and all %d Put arguments have that type", pv.Name(), typeStr(T), nPut)
				}
				return "", "sync.Pool contents not uniformly of the asserted type"
			}
		}
	}

	// trace-based justifications
	in := c.traces(s.fi)
	var site *Event
	var traces []*Trace
	for _, t := range in.Traces {
		for _, e := range t.Ev {
			if e.Kind == EvAssert && e.Node == ast.Node(s.expr) {
				site = e
				traces = append(traces, t)
				break
			}
		}
	}
	if site == nil {
		// maybe inside a function literal
		for _, lit := range funcLits(s.fi.Decl.Body) {
			lin := c.P.TraceLit(s.fi, lit, c.defOpts())
			for _, t := range lin.Traces {
				for _, e := range t.Ev {
					if e.Kind == EvAssert && e.Node == ast.Node(s.expr) {
						site = e
						traces = append(traces, t)
						break
					}
				}
			}
		}
	}
	if site == nil {
		return "", "assertion not reached by any enumerated path"
	}
	opObj := h.objOf(op)

	// definition of the operand on each trace
	defOf := func(t *Trace) (*Event, *ast.RangeStmt, int) {
		idx := -1
		for i, e := range t.Ev {
			if e.Kind == EvAssert && e.Node == ast.Node(s.expr) {
				idx = i
				break
			}
		}
		if call, ok := op.(*ast.CallExpr); ok {
			for i := idx - 1; i >= 0; i-- {
				if t.Ev[i].Kind == EvCall && t.Ev[i].Call == call {
					return t.Ev[i], nil, idx
				}
			}
		}
		for i := idx - 1; i >= 0; i-- {
			e := t.Ev[i]
			if e.Kind == EvAssign && e.LObj == opObj && opObj != nil {
				if call, ok := ast.Unparen(e.RHS).(*ast.CallExpr); ok {
					for j := i; j >= 0; j-- {
						if t.Ev[j].Kind == EvCall && t.Ev[j].Call == call {
							return t.Ev[j], nil, idx
						}
					}
				}
				return nil, nil, idx
			}
			if e.Kind == EvLoopBegin {
				if rs, ok := e.LoopStmt.(*ast.RangeStmt); ok && rs.Value != nil && h.objOf(rs.Value) == opObj && opObj != nil {
					// range over a variable defined by a call
					ro := h.objOf(rs.X)
					for j := i - 1; j >= 0; j-- {
						d := t.Ev[j]
						if d.Kind == EvAssign && d.LObj == ro && ro != nil {
							if call, ok := ast.Unparen(d.RHS).(*ast.CallExpr); ok {
								for k := j; k >= 0; k-- {
									if t.Ev[k].Kind == EvCall && t.Ev[k].Call == call {
										return t.Ev[k], rs, idx
									}
								}
							}
						}
					}
					return nil, rs, idx
				}
			}
		}
		return nil, nil, idx
	}

	kind := ""
	detail := ""
	for _, t := range traces {
		def, rs, idx := defOf(t)
		if def == nil {
			return "", "the operand's origin is not a recognised call on this path"
		}
		f, _ := def.Callee.(*types.Func)
		if f == nil {
			return "", "operand defined by a dynamic call"
		}
		switch {
		case f.Pkg() != nil && f.Pkg().Name() == "topic" && c.P.ByObj[f] != nil:
			// J-TREE
			sel, ok := ast.Unparen(def.Call.Fun).(*ast.SelectorExpr)
			if !ok {
				return "", "tree call without receiver"
			}
			field, _ := h.objOf(sel.X).(*types.Var)
			if field == nil || !field.IsField() {
				return "", "tree is not held in a field"
			}
			// stores into trees held in this field
			nStore := 0
			for _, pk := range c.P.All {
				for _, file := range pk.Syntax {
					if strings.HasSuffix(c.P.Fset.File(file.Pos()).Name(), "_test.go") {
						continue
					}
					bad := ""
					ast.Inspect(file, func(m ast.Node) bool {
						call, ok := m.(*ast.CallExpr)
						if !ok || len(call.Args) != 2 {
							return true
						}
						cs, ok := ast.Unparen(call.Fun).(*ast.SelectorExpr)
						if !ok || (cs.Sel.Name != "Set" && cs.Sel.Name != "Add") {
							return true
						}
						if s2 := pk.TypesInfo.Selections[cs]; s2 == nil {
							return true
						}
						if rsel, ok := ast.Unparen(cs.X).(*ast.SelectorExpr); ok {
							if s3 := pk.TypesInfo.Selections[rsel]; s3 != nil && s3.Obj() == field {
								nStore++
								if !types.Identical(pk.TypesInfo.TypeOf(call.Args[1]), T) {
									bad = typeStr(pk.TypesInfo.TypeOf(call.Args[1]))
								}
							}
						}
						return true
					})
					if bad != "" {
						return "", fmt.Sprintf("a value of type %s is stored in the tree of field %s, asserted type is %s", bad, field.Name(), typeStr(T))
					}
				}
			}
			if nStore == 0 {
				return "", "no store into the tree of field " + field.Name() + " found"
			}
			// possibly-nil single results need a nil check on the path
			if rs == nil && (f.Name() == "MatchFirst" || f.Name() == "SearchFirst") {
				checkedNil := false
				for _, e := range t.Ev[:idx] {
					if (e.Kind == EvOutcome || e.Kind == EvCond) && e.Var == opObj && e.Nilness > 0 {
						checkedNil = true
					}
				}
				if !checkedNil {
					return "", f.Name() + " may return nil and the assertion is not on the non-nil side"
				}
			}
			kind, detail = "J-TREE", fmt.Sprintf("tree in field %s only ever stores %s (%d store sites)", field.Name(), typeStr(T), nStore)
		case c.P.ByObj[f] != nil && f.Name() == "Session" && f.Pkg().Name() == "broker":
			// J-SESSION
			j, why := c.justifySession(s)
			if j == "" {
				return "", why
			}
			kind, detail = j, why
		case c.P.ByObj[f] != nil:
			// J-RESULT
			if t.errOutcome(def) != -1 {
				return "", "assertion on a call result whose error was not excluded on this path"
			}
			callee := c.P.ByObj[f]
			cin := c.traces(callee)
			for _, ct := range cin.Traces {
				if ct.Exit != ExitReturn || len(ct.Results) < 2 {
					continue
				}
				ev := ct.RVals[len(ct.RVals)-1]
				if ev.K == VNonNil {
					continue
				}
				rt := callee.Pkg.TypesInfo.TypeOf(ct.Results[0])
				if !types.Identical(rt, T) {
					return "", fmt.Sprintf("%s may return a %s without error; asserted type is %s", callee.Name, typeStr(rt), typeStr(T))
				}
			}
			kind, detail = "J-RESULT", fmt.Sprintf("every non-error return of %s yields a %s", callee.Name, typeStr(T))
		default:
			return "", "operand comes from " + FuncName(f) + ", which may yield nil or a foreign type (e.g. Future.Result() after Cancel(nil) or a timeout)"
		}
	}
	return kind, detail
}

// justifySession: the assertion client.Session().(*memorySession) inside a Backend method M is
// justified iff every in-repo call site of Backend.M lies in code that runs only after the connect
// handler succeeded (the session was stored).
func (c *Ctx) justifySession(s assertSite) (string, string) {
	v := c.vocab()
	m := s.fi.Obj
	iface := c.P.Method("broker", "Backend", m.Name())
	if iface == nil {
		return "", "enclosing function is not a Backend method"
	}
	post := c.postConnectOnly()
	var sites []string
	for _, fi := range c.P.LibFuncs("broker") {
		if fi.Decl.Body == nil {
			continue
		}
		calls := false
		check := func(in *Interp) {
			for _, t := range in.Traces {
				for _, e := range t.Ev {
					if callTo(iface)(e) || callTo(m)(e) {
						calls = true
					}
				}
			}
		}
		check(c.traces(fi))
		for _, lit := range funcLits(fi.Decl.Body) {
			check(c.P.TraceLit(fi, lit, c.defOpts()))
		}
		if !calls {
			continue
		}
		sites = append(sites, fi.Name)
		if !post[fi.Obj] {
			return "", fmt.Sprintf("Backend.%s is called from %s, which can run before a session was stored (e.g. the reaper after a failed Setup: state is 'connected' before Setup is called)", m.Name(), fi.Name)
		}
	}
	if len(sites) == 0 {
		return "", "no in-repo call site of Backend." + m.Name()
	}
	_ = v
	return "J-SESSION", fmt.Sprintf("all call sites of Backend.%s (%s) run only after the connect handler stored the session", m.Name(), strings.Join(sites, ", "))
}

// postConnectOnly: functions of package broker that run only after the connect handler succeeded.
func (c *Ctx) postConnectOnly() map[*types.Func]bool {
	if c.postConn != nil {
		return c.postConn
	}
	v := c.vocab()
	res := map[*types.Func]bool{}
	c.postConn = res
	pr := c.P.ByObj[v.bProcessor]
	conns := c.funcCalling("broker", v.bkSetup)
	if pr == nil || len(conns) != 1 {
		return res
	}
	conn := conns[0]
	h := &Interp{P: c.P, Info: pr.Pkg.TypesInfo}
	// callers map (static calls and method values handed to tomb.Go)
	callers := map[*types.Func]map[*types.Func]bool{}
	add := func(callee, caller *types.Func) {
		if callers[callee] == nil {
			callers[callee] = map[*types.Func]bool{}
		}
		callers[callee][caller] = true
	}
	afterConnect := map[*types.Func]bool{} // called from processor, always after connect→ok
	beforeConnect := map[*types.Func]bool{}
	for _, fi := range c.P.LibFuncsAll("broker") {
		if fi.Decl.Body == nil {
			continue
		}
		ast.Inspect(fi.Decl.Body, func(m ast.Node) bool {
			call, ok := m.(*ast.CallExpr)
			if !ok {
				return true
			}
			if f, ok := h.withInfo(fi).callee(&state{env: newEnv()}, call).(*types.Func); ok {
				if c.P.ByObj[f] != nil && f.Pkg().Name() == "broker" {
					add(f, fi.Obj)
				}
				if isTomb(f, "Go") && len(call.Args) == 1 {
					if sel, ok := ast.Unparen(call.Args[0]).(*ast.SelectorExpr); ok {
						if g, ok := fi.Pkg.TypesInfo.Uses[sel.Sel].(*types.Func); ok {
							add(g, fi.Obj)
						}
					}
				}
			}
			return true
		})
	}
	// classify processor's callees by position relative to the connect handler
	pin := c.traces(pr)
	for _, t := range pin.Traces {
		ci := t.first(callTo(conn.Obj))
		for i, e := range t.Ev {
			var g *types.Func
			if e.Kind == EvCall {
				if f, ok := e.Callee.(*types.Func); ok {
					if c.P.ByObj[f] != nil && f.Pkg().Name() == "broker" {
						g = f
					}
					if isTomb(f, "Go") && len(e.Call.Args) == 1 {
						if sel, ok := ast.Unparen(e.Call.Args[0]).(*ast.SelectorExpr); ok {
							g, _ = pr.Pkg.TypesInfo.Uses[sel.Sel].(*types.Func)
						}
					}
				}
			}
			if g == nil || g == conn.Obj || g == v.bDie {
				continue
			}
			if ci >= 0 && i > ci && t.errOutcome(t.Ev[ci]) == -1 {
				afterConnect[g] = true
			} else {
				beforeConnect[g] = true
			}
		}
	}
	var isPost func(f *types.Func, seen map[*types.Func]bool) bool
	isPost = func(f *types.Func, seen map[*types.Func]bool) bool {
		if seen[f] {
			return true
		}
		seen[f] = true
		cs := callers[f]
		if len(cs) == 0 {
			return false
		}
		for g := range cs {
			if g == pr.Obj {
				if !afterConnect[f] || beforeConnect[f] {
					return false
				}
				continue
			}
			if !isPost(g, seen) {
				return false
			}
		}
		return true
	}
	for _, fi := range c.P.LibFuncs("broker") {
		if fi.Obj.Exported() || fi.Obj == v.bDie {
			continue
		}
		if isPost(fi.Obj, map[*types.Func]bool{}) {
			res[fi.Obj] = true
		}
	}
	return res
}

func (in *Interp) withInfo(fi *FuncInfo) *Interp {
	return &Interp{P: in.P, Info: fi.Pkg.TypesInfo}
}

// assertRule runs the ASSERT engine over pkgs.
func (c *Ctx) assertRule(rule string, floor int, pkgs ...string) {
	r := c.Rule(rule, "ASSERT", "every unchecked type assertion is discharged by a checkable justification (J-TAG, J-POOL, J-TREE, J-RESULT, J-SESSION); anything else can panic", floor)
	ordinal := map[string]int{}
	for _, s := range c.uncheckedAsserts(pkgs...) {
		c.Touch(s.fi.Name)
		key := fmt.Sprintf("%s:assert %s", s.fi.Name, c.P.exprStr(s.expr))
		ordinal[key]++
		if ordinal[key] > 1 {
			key = fmt.Sprintf("%s#%d", key, ordinal[key])
		}
		j, detail := c.justifyAssert(s)
		if j != "" {
			r.Pass(key, s.expr.Pos(), 1, j+": "+detail)
		} else {
			r.Fail(key, s.expr.Pos(), 1, "unjustified unchecked type assertion (panics when the operand is nil or of another type): "+detail)
		}
	}
}

var _ = token.NoPos
