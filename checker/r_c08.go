package main

import (
	"fmt"
	"go/ast"
	"go/token"
	"go/types"
	"strings"
)

func init() { register("C08", propC08) }

const c08Explanation = "Static path analysis of the broker's outbound QoS>=1 pipeline: (STORESEND) in the dequeuer a PUBLISH with QoS>0 is sent only after NextID and a successful SavePacket(Outgoing); a dequeued message is never dropped between Dequeue and the save; " +
	"(ACKDEL) PUBACK/PUBCOMP delete the stored packet, PUBREC replaces it by the PUBREL before the PUBREL is sent; (RESEND) on CONNECT: accepted CONNACK ≺ AllPackets(Outgoing) ≺ per packet {Dup=true on publishes; send} ≺ Restore ≺ start of dequeuer; " +
	"(SP) session-present table over CleanSession x resumed; (CLEAN/RESUMEKEEP) Setup discards stored state when clean and otherwise returns the stored session untouched except for the temporary queue; (QUEUEKEEP) the stored queue is only created in the constructor; (OFFLINE) offline enqueue is non-blocking into the stored queue for QoS>0. " +
	"Decided on every path of the named functions; behaviour over all failure positions at runtime is not decided."

func propC08(c *Ctx) string {
	v := c.vocab()
	gate := c.Rule("C08/VOCAB", "TABLE", "rule vocabulary resolves", 1)
	if m := v.missing(); len(m) > 0 {
		gate.Undecided("vocabulary", 0, "unresolved: "+strings.Join(m, ", "))
		return c08Explanation
	}
	gate.Pass("vocabulary", 0, 1, "resolved")
	c08StoreSend(c, v, "C08")
	c08AckDel(c, v)
	c08Resend(c, v, "C08")
	c08SessionPresent(c, v)
	c08Setup(c, v)
	c08QueueKeep(c, v)
	c08Offline(c, v)
	// one message object is queued for every matching session: a QoS cap written into it (instead of a copy)
	// turns another session's QoS>0 delivery into an unrecorded QoS 0 one
	c06Cap(c, v)
	c06Immut(c, v)
	// retransmission replays what the session's packet store lists: the store must answer with the latest packet
	// saved under each id, from the store of the direction asked for
	c18Store(c)
	c18Dir(c)
	// a connection that dies during the handshake must still be terminated in the backend, or the stored session keeps
	// a dead owner and offline messages are handed to it
	c12SetupState(c, v, "C08")
	c.NotDecide("every failure position at runtime (crash points), repeated failures during resend",
		"that a custom Session really persists what SavePacket was given", "queue capacity limits (messages beyond SessionQueueSize are dropped by design)")
	c.Assume("instance-insensitive field keys", "Session interface contracts as documented in broker/client.go")
	return c08Explanation
}

// dequeuerFunc finds the goroutine function that calls Backend.Dequeue.
func (c *Ctx) funcCalling(pkg string, f *types.Func) []*FuncInfo {
	var out []*FuncInfo
	for _, fi := range c.P.LibFuncs(pkg) {
		if fi.Decl.Body == nil {
			continue
		}
		in := c.traces(fi)
		found := false
		for _, t := range in.Traces {
			if t.has(callTo(f)) {
				found = true
				break
			}
		}
		if found {
			out = append(out, fi)
		}
	}
	return out
}

func c08StoreSend(c *Ctx, v *vocab, prop string) {
	r := c.Rule(prop+"/STORESEND", "TRACE", "dequeuer: under QoS>0, NextID ≺ SavePacket(Outgoing, publish)→ok ≺ send(publish); a dequeued message is not dropped before it is stored", 4)
	fns := c.funcCalling("broker", v.bkDequeue)
	if len(fns) != 1 {
		r.Undecided("broker dequeuer", 0, fmt.Sprintf("expected one function calling Backend.Dequeue, found %d", len(fns)))
		return
	}
	fi := fns[0]
	mf := c.msgFields()
	for q := int64(0); q <= 2; q++ {
		in := c.P.TraceFunc(fi, TraceOpts{Init: map[types.Object]Val{mf.msgQOS: vInt(q)}, NonNil: c.defOpts().NonNil})
		key := fmt.Sprintf("%s@QOS=%d", fi.Name, q)
		if c.undecidedIfOver(r, in, key) {
			continue
		}
		var bad *Trace
		why := ""
		nsend := 0
		for _, t := range in.Traces {
			// message variable: result 0 of Dequeue
			var msgObj types.Object
			deq := -1
			for i, e := range t.Ev {
				if callTo(v.bkDequeue)(e) {
					deq = i
				}
				if deq >= 0 && msgObj == nil && e.Kind == EvAssign && e.LObj != nil && typeIs(e.LObj.Type(), "packet", "Message", true) {
					msgObj = e.LObj
				}
			}
			s := t.first(and(or(callTo(v.bSend), callTo(v.connSend)), argIs(0, "packet", "Publish")))
			if s >= 0 {
				nsend++
			}
			if q == 0 {
				continue
			}
			save := t.first(and(callTo(v.bsSave), argConstInt(0, v.outgoing), argIs(1, "packet", "Publish")))
			next := t.first(callTo(v.bsNext))
			if s >= 0 {
				if save < 0 || save > s || t.errOutcome(t.Ev[save]) != -1 {
					bad, why = t, "send(PUBLISH) without a preceding successful SavePacket(Outgoing)"
					break
				}
				if next < 0 || next > save {
					bad, why = t, "SavePacket(Outgoing) without a preceding NextID"
					break
				}
			}
			// dropped message: msg known non-nil at exit, no save on the path, exit not through die()
			if deq >= 0 && msgObj != nil && save < 0 {
				if mv, ok := t.Env.vals[msgObj]; ok && mv.K == VNonNil {
					if dq := t.Ev[deq]; t.errOutcome(dq) <= 0 && !t.has(callTo(v.bDie)) {
						bad, why = t, "a dequeued (non-nil) message leaves the dequeuer without being stored: it is lost for a persistent session"
						break
					}
				}
			}
		}
		r.Check(key, bad == nil && nsend > 0, fi.Decl.Pos(), len(in.Traces), why+fmt.Sprintf(" [paths with send(PUBLISH): %d]", nsend), c.witness(bad)...)
	}
	// the publish is a fresh packet that copies the message and receives the id
	in := c.traces(fi)
	pid := c.P.Field("packet", "Publish", "ID")
	okID := false
	for _, t := range in.Traces {
		for i, e := range t.Ev {
			if e.Kind == EvAssign && e.LObj == pid {
				if call, ok := ast.Unparen(e.RHS).(*ast.CallExpr); ok {
					for _, p := range t.Ev[:i] {
						if p.Call == call && callTo(v.bsNext)(p) {
							okID = true
						}
					}
				}
			}
		}
	}
	r.Check(fi.Name+":publish.ID=NextID()", okID, fi.Decl.Pos(), len(in.Traces), "the stored and sent PUBLISH must carry the id obtained from Session.NextID")
}

func c08AckDel(c *Ctx, v *vocab) {
	r := c.Rule("C08/ACKDEL", "TRACE", "PUBACK/PUBCOMP ⇒ DeletePacket(Outgoing,id)→ok; PUBREC ⇒ SavePacket(Outgoing,PUBREL(id))→ok ≺ send(PUBREL)", 4)
	for _, typ := range []string{"Puback", "Pubcomp"} {
		fi := c.handlerOf(r, "broker", typ)
		if fi == nil {
			continue
		}
		in := c.traces(fi)
		var bad *Trace
		n := 0
		for _, t := range in.Traces {
			if !t.success() {
				continue
			}
			n++
			d := t.first(and(callTo(v.bsDelete), argConstInt(0, v.outgoing)))
			if d < 0 || t.errOutcome(t.Ev[d]) != -1 {
				bad = t
				break
			}
			// the id is the handler's parameter
			sig := fi.Obj.Type().(*types.Signature)
			if sig.Params().Len() > 0 {
				if o := (&Interp{P: c.P, Info: fi.Pkg.TypesInfo}).objOf(t.Ev[d].Call.Args[1]); o != sig.Params().At(0) {
					bad = t
					break
				}
			}
		}
		r.Check(fi.Name+"@"+typ+":DeletePacket(Outgoing,id)", bad == nil && n > 0, fi.Decl.Pos(), len(in.Traces), "an acknowledged packet stays stored (it would be retransmitted for ever) or a foreign id is deleted", c.witness(bad)...)
	}
	fi := c.handlerOf(r, "broker", "Pubrec")
	if fi == nil {
		return
	}
	in := c.traces(fi)
	var bad *Trace
	n := 0
	for _, t := range in.Traces {
		s := t.first(and(or(callTo(v.bSend), callTo(v.connSend)), argIs(0, "packet", "Pubrel")))
		if s < 0 {
			if t.success() {
				bad = t
				break
			}
			continue
		}
		n++
		sv := t.first(and(callTo(v.bsSave), argConstInt(0, v.outgoing), argIs(1, "packet", "Pubrel")))
		if sv < 0 || sv > s || t.errOutcome(t.Ev[sv]) != -1 {
			bad = t
			break
		}
	}
	r.Check(fi.Name+":SavePacket(Outgoing,PUBREL)≺send(PUBREL)", bad == nil && n > 0, fi.Decl.Pos(), len(in.Traces),
		"the stored PUBLISH must be replaced by the PUBREL before the PUBREL is sent (else a resume offers the QoS 2 message again as PUBLISH)", c.witness(bad)...)
	f := c.P.Field("packet", "Pubrel", "ID")
	sig := fi.Obj.Type().(*types.Signature)
	found, okID := false, true
	for _, t := range in.Traces {
		for _, e := range t.Ev {
			if e.Kind == EvAssign && e.LObj == f {
				found = true
				if sig.Params().Len() == 0 || evRHSObj(&Interp{P: c.P, Info: fi.Pkg.TypesInfo}, e) != sig.Params().At(0) {
					okID = false
				}
			}
		}
	}
	r.Check(fi.Name+":Pubrel.ID=id", found && okID, fi.Decl.Pos(), len(in.Traces), "the PUBREL must carry the id of the PUBREC")
}

// c08Resend also serves C16 (token take per resent packet) through the returned traces.
func c08Resend(c *Ctx, v *vocab, prop string) {
	r := c.Rule(prop+"/RESEND", "TRACE", "processConnect: send(CONNACK accepted) ≺ AllPackets(Outgoing) ≺ loop{Dup=true on *Publish; send(pkt)} ≺ Restore; dequeuer starts after processConnect→ok", 4)
	fns := c.funcCalling("broker", v.bkSetup)
	if len(fns) != 1 {
		r.Undecided("broker connect handler", 0, fmt.Sprintf("expected one function calling Backend.Setup, found %d", len(fns)))
		return
	}
	fi := fns[0]
	in := c.traces(fi)
	if c.undecidedIfOver(r, in, fi.Name) {
		return
	}
	dup := c.P.Field("packet", "Publish", "Dup")
	var bad *Trace
	why := ""
	nLoop, nSucc := 0, 0
	for _, t := range in.Traces {
		if !t.success() {
			continue
		}
		nSucc++
		ca := t.first(and(or(callTo(v.bSend), callTo(v.connSend)), argIs(0, "packet", "Connack")))
		all := t.first(and(callTo(v.bsAll), argConstInt(0, v.outgoing)))
		rs := t.first(callTo(v.bkRestore))
		if ca < 0 || all < 0 || rs < 0 || !(ca < all && all < rs) || t.errOutcome(t.Ev[all]) != -1 {
			bad, why = t, "order CONNACK ≺ AllPackets(Outgoing)→ok ≺ Restore violated on a success path"
			break
		}
		// inside the resend loop
		for i := all; i < rs; i++ {
			e := t.Ev[i]
			if !(or(callTo(v.bSend), callTo(v.connSend))(e)) {
				continue
			}
			nLoop++
			if typeIs(e.ArgTypes[0], "packet", "Publish", true) {
				// Dup must have been set to true before, on this path
				set := false
				for _, p := range t.Ev[all:i] {
					if p.Kind == EvAssign && p.LObj == dup && p.RVal.K == VBool && p.RVal.B && !p.Conditional {
						set = true
					}
				}
				if !set {
					bad, why = t, "a stored PUBLISH is resent without Dup=true"
				}
			}
		}
		if bad != nil {
			break
		}
	}
	// there must be a path on which the resent packet is known to be a publish
	sawPublish := false
	for _, t := range in.Traces {
		for _, e := range t.Ev {
			if or(callTo(v.bSend), callTo(v.connSend))(e) && len(e.ArgTypes) > 0 && typeIs(e.ArgTypes[0], "packet", "Publish", true) {
				sawPublish = true
			}
		}
	}
	r.Check(fi.Name+":resend order", bad == nil && nSucc > 0 && nLoop > 0, fi.Decl.Pos(), len(in.Traces), why+fmt.Sprintf(" [success paths %d, resend sends %d]", nSucc, nLoop), c.witness(bad)...)
	r.Check(fi.Name+":Dup on resent PUBLISH", sawPublish && bad == nil, fi.Decl.Pos(), len(in.Traces), "the resend loop must distinguish *packet.Publish (type assertion / switch) and set Dup=true before sending it")
	wNo, nIt := iterationWithoutSend(in.Traces, and(callTo(v.bsAll), argConstInt(0, v.outgoing)), or(callTo(v.bSend), callTo(v.connSend)))
	r.Check(fi.Name+":every stored packet is resent", wNo == nil && nIt > 0, fi.Decl.Pos(), len(in.Traces),
		"an iteration of the resend loop completes without sending the stored packet (a stored PUBREL or PUBLISH is skipped on resume)", c.witness(wNo)...)
	// the resend loop iterates over exactly the AllPackets result
	okRange, badRange := false, false
	for _, t := range in.Traces {
		for i, e := range t.Ev {
			if e.Kind == EvLoopBegin {
				if rs, ok := e.LoopStmt.(*ast.RangeStmt); ok {
					ro := (&Interp{P: c.P, Info: fi.Pkg.TypesInfo}).objOf(rs.X)
					// the listing variable is assigned exactly once before the loop — by the AllPackets call; a
					// re-slice / filter in between (packets = packets[:n]) drops stored packets from the resend
					nAssign, fromAll := 0, false
					for _, p := range t.Ev[:i] {
						if p.Kind == EvAssign && p.LObj == ro && ro != nil {
							nAssign++
							if call, ok := ast.Unparen(p.RHS).(*ast.CallExpr); ok {
								for _, q := range t.Ev[:i] {
									if q.Call == call && callTo(v.bsAll)(q) {
										fromAll = true
									}
								}
							}
						}
					}
					if fromAll && nAssign == 1 {
						okRange = true
					} else if fromAll {
						badRange = true
					}
				}
			}
		}
	}
	r.Check(fi.Name+":range AllPackets(Outgoing)", okRange && !badRange, fi.Decl.Pos(), len(in.Traces), "the resend loop must range over the slice returned by Session.AllPackets(Outgoing), unfiltered and untruncated (every stored packet is retransmitted on resume, in the stored order)")
	// processor: dequeuer started after processConnect returned nil
	pr := c.P.ByObj[v.bProcessor]
	if pr == nil {
		r.Undecided("broker processor", 0, "not found")
		return
	}
	pin := c.traces(pr)
	okStart, nGo := true, 0
	var w *Trace
	for _, t := range pin.Traces {
		for i, e := range t.Ev {
			if e.Kind == EvCall && isTomb(e.Callee, "Go") {
				nGo++
				pc := -1
				for j, p := range t.Ev[:i] {
					if callTo(fi.Obj)(p) {
						pc = j
					}
				}
				if pc < 0 || t.errOutcome(t.Ev[pc]) != -1 {
					okStart = false
					w = t
				}
			}
		}
	}
	r.Check(pr.Name+":tomb.Go after processConnect→ok", okStart && nGo > 0, pr.Decl.Pos(), len(pin.Traces), "dequeuer/acker must be started only after the connect handler succeeded (stored packets are resent first)", c.witness(w)...)
}

func c08SessionPresent(c *Ctx, v *vocab) {
	r := c.Rule("C08/SP", "TRACE(table)", "CONNACK.SessionPresent == (!CleanSession && resumed) on every path that sends the accepted CONNACK", 4)
	fns := c.funcCalling("broker", v.bkSetup)
	if len(fns) != 1 {
		r.Undecided("broker connect handler", 0, "not unique")
		return
	}
	fi := fns[0]
	in0 := c.traces(fi)
	// resumed = result 1 of Setup
	var resumed types.Object
	for _, t := range in0.Traces {
		for i, e := range t.Ev {
			if callTo(v.bkSetup)(e) {
				k := 0
				for _, a := range t.Ev[i+1:] {
					if a.Kind == EvAssign && ast.Unparen(a.RHS) == ast.Expr(e.Call) {
						if k == 1 {
							resumed = a.LObj
						}
						k++
					} else if a.Kind != EvAssign {
						break
					}
				}
			}
		}
	}
	if resumed == nil {
		r.Undecided(fi.Name, fi.Decl.Pos(), "cannot identify the variable holding Setup's `resumed` result")
		return
	}
	clean := c.P.Field("packet", "Connect", "CleanSession")
	sp := c.P.Field("packet", "Connack", "SessionPresent")
	rc := c.P.Field("packet", "Connack", "ReturnCode")
	for _, cl := range []bool{false, true} {
		for _, rs := range []bool{false, true} {
			in := c.P.TraceFunc(fi, TraceOpts{Init: map[types.Object]Val{clean: vBool(cl)}, Force: map[types.Object]Val{resumed: vBool(rs)}, NonNil: c.defOpts().NonNil})
			key := fmt.Sprintf("%s@clean=%v,resumed=%v", fi.Name, cl, rs)
			want := !cl && rs
			var bad *Trace
			n := 0
			for _, t := range in.Traces {
				// the accepted CONNACK: last send of a Connack on a path that continues to AllPackets
				if !t.has(callTo(v.bsAll)) {
					continue
				}
				s := -1
				for i, e := range t.Ev {
					if or(callTo(v.bSend), callTo(v.connSend))(e) && argIs(0, "packet", "Connack")(e) {
						s = i
					}
				}
				if s < 0 {
					continue
				}
				n++
				last := Val{}
				codeOK := false
				for _, e := range t.Ev[:s] {
					if e.Kind == EvAssign && e.LObj == sp {
						last = e.RVal
					}
					if e.Kind == EvAssign && e.LObj == rc {
						codeOK = e.RVal.K == VInt && e.RVal.I == 0
					}
				}
				if last.K != VBool || last.B != want || !codeOK {
					bad = t
					break
				}
			}
			r.Check(key, bad == nil && n > 0, fi.Decl.Pos(), len(in.Traces), fmt.Sprintf("expected SessionPresent=%v and ReturnCode=accepted at the CONNACK send", want), c.witness(bad)...)
		}
	}
}

func c08Setup(c *Ctx, v *vocab) {
	r := c.Rule("C08/CLEAN", "TRACE", "MemoryBackend.Setup: clean ⇒ stored session deleted, resumed=false; !clean with a stored entry ⇒ that entry is returned with resumed=true, touched only by reuse() (temporary queue) and activeClient", 3)
	fi := c.mustFunc(r, "broker.(*MemoryBackend).Setup")
	if fi == nil {
		return
	}
	sig := fi.Obj.Type().(*types.Signature)
	if sig.Params().Len() != 3 {
		r.Undecided(fi.Name, fi.Decl.Pos(), "signature changed")
		return
	}
	cleanP := sig.Params().At(2)
	idP := sig.Params().At(1)
	stored := c.P.Field("broker", "MemoryBackend", "storedSessions")
	info := fi.Pkg.TypesInfo
	inl := func(f *types.Func) bool {
		return f.Pkg() != nil && f.Pkg().Name() == "broker" && f != v.bClose && !strings.HasPrefix(f.Name(), "Clos")
	}
	// clean = true, non-empty id
	in := c.P.TraceFunc(fi, TraceOpts{Init: map[types.Object]Val{cleanP: vBool(true), idP: {K: VNonEmpty}}, Inline: inl, MaxDepth: 2})
	if !c.undecidedIfOver(r, in, fi.Name+"@clean") {
		var bad *Trace
		n := 0
		for _, t := range in.Traces {
			if t.Exit != ExitReturn || len(t.RVals) != 3 || t.RVals[2].K != VNil {
				continue
			}
			n++
			del := t.first(func(e *Event) bool {
				if e.Kind != EvCall {
					return false
				}
				b, ok := e.Callee.(*types.Builtin)
				if !ok || b.Name() != "delete" {
					return false
				}
				return (&Interp{P: c.P, Info: info}).objOf(e.Call.Args[0]) == stored
			})
			if del < 0 || t.RVals[1].K != VBool || t.RVals[1].B {
				bad = t
				break
			}
		}
		r.Check(fi.Name+"@clean=true", bad == nil && n > 0, fi.Decl.Pos(), len(in.Traces), "a clean-session connect must delete the stored session and report resumed=false", c.witness(bad)...)
	}
	// clean = false
	in = c.P.TraceFunc(fi, TraceOpts{Init: map[types.Object]Val{cleanP: vBool(false), idP: {K: VNonEmpty}}, Inline: inl, MaxDepth: 2})
	if c.undecidedIfOver(r, in, fi.Name+"@!clean") {
		return
	}
	var bad *Trace
	why := ""
	nRes, nNew := 0, 0
	tq := c.P.Field("broker", "memorySession", "temporaryQueue")
	ac := c.P.Field("broker", "memorySession", "activeClient")
	for _, t := range in.Traces {
		if t.Exit != ExitReturn || len(t.RVals) != 3 || t.RVals[2].K != VNil {
			continue
		}
		// delete of stored sessions must not happen
		for _, e := range t.Ev {
			if e.Kind == EvCall {
				if b, ok := e.Callee.(*types.Builtin); ok && b.Name() == "delete" && (&Interp{P: c.P, Info: info}).objOf(e.Call.Args[0]) == stored {
					bad, why = t, "stored session deleted although clean=false"
				}
			}
		}
		ret0 := (&Interp{P: c.P, Info: info}).objOf(t.Results[0])
		// last definition of the returned variable
		var def *Event
		for _, e := range t.Ev {
			if e.Kind == EvAssign && e.LObj == ret0 && ret0 != nil {
				def = e
			}
		}
		fromMap := false
		if def != nil {
			if ix, ok := ast.Unparen(def.RHS).(*ast.IndexExpr); ok && (&Interp{P: c.P, Info: info}).objOf(ix.X) == stored {
				fromMap = true
			}
		}
		if t.RVals[1].K == VBool && t.RVals[1].B {
			nRes++
			if !fromMap {
				bad, why = t, "resumed=true but the returned session is not the entry of storedSessions"
			}
			// mutations of the session on the resume path
			for _, e := range t.Ev {
				if e.Kind == EvAssign && e.LObj != nil {
					if fv, ok := e.LObj.(*types.Var); ok && fv.IsField() && isFieldOf(c.P, fv, "broker", "memorySession") && fv != tq && fv != ac {
						bad, why = t, "resume path overwrites session field "+fv.Name()
					}
				}
				if e.Kind == EvCall && e.Depth > 0 {
					if f, ok := e.Callee.(*types.Func); ok && f.Pkg() != nil && (f.Pkg().Name() == "session" || f.Pkg().Name() == "topic") {
						switch f.Name() {
						case "Reset", "Clear", "Empty", "Remove", "Delete", "Set", "Add", "Save":
							bad, why = t, "resume path mutates stored session state through "+FuncName(f)
						}
					}
				}
			}
		} else if t.RVals[1].K == VBool {
			nNew++
			if fromMap {
				bad, why = t, "a stored session is returned but resumed=false (session-present would be wrong)"
			}
		} else {
			bad, why = t, "resumed result not a decidable constant"
		}
		if bad != nil {
			break
		}
	}
	r.Check(fi.Name+"@clean=false", bad == nil && nRes > 0 && nNew > 0, fi.Decl.Pos(), len(in.Traces), why+fmt.Sprintf(" [resume paths %d, fresh paths %d]", nRes, nNew), c.witness(bad)...)
	// a fresh persistent session is registered in storedSessions
	regOK := false
	for _, t := range in.Traces {
		if t.Exit == ExitReturn && len(t.RVals) == 3 && t.RVals[2].K == VNil && t.RVals[1].K == VBool && !t.RVals[1].B {
			for _, e := range t.Ev {
				if e.Kind == EvAssign {
					if ix, ok := ast.Unparen(e.LHS).(*ast.IndexExpr); ok && (&Interp{P: c.P, Info: info}).objOf(ix.X) == stored {
						regOK = true
					}
				}
			}
		}
	}
	r.Check(fi.Name+":fresh session stored", regOK, fi.Decl.Pos(), len(in.Traces), "a new persistent session must be entered into storedSessions (else nothing survives the disconnect)")
}

func isFieldOf(p *Program, f *types.Var, pkg, typ string) bool {
	n := p.Named(pkg, typ)
	if n == nil {
		return false
	}
	st, ok := n.Underlying().(*types.Struct)
	if !ok {
		return false
	}
	for i := 0; i < st.NumFields(); i++ {
		if st.Field(i) == f {
			return true
		}
	}
	return false
}

// writersOf lists all assignments (and composite literal initialisations) of a field in the library packages.
type writer struct {
	fn   string
	pos  ast.Node
	kind string
}

func (c *Ctx) writersOf(f *types.Var) []writer {
	var out []writer
	for _, pk := range c.P.All {
		for _, file := range pk.Syntax {
			if strings.HasSuffix(c.P.Fset.File(file.Pos()).Name(), "_test.go") {
				continue
			}
			for _, d := range file.Decls {
				fd, ok := d.(*ast.FuncDecl)
				name := "<package level>"
				if ok {
					if o, _ := pk.TypesInfo.Defs[fd.Name].(*types.Func); o != nil {
						name = FuncName(o)
					}
				}
				ast.Inspect(d, func(m ast.Node) bool {
					switch y := m.(type) {
					case *ast.AssignStmt:
						for _, l := range y.Lhs {
							if sel, ok := ast.Unparen(l).(*ast.SelectorExpr); ok {
								if s := pk.TypesInfo.Selections[sel]; s != nil && s.Obj() == f {
									out = append(out, writer{name, y, "assign"})
								}
							}
						}
					case *ast.IncDecStmt:
						if sel, ok := ast.Unparen(y.X).(*ast.SelectorExpr); ok {
							if s := pk.TypesInfo.Selections[sel]; s != nil && s.Obj() == f {
								out = append(out, writer{name, y, "incdec"})
							}
						}
					case *ast.CompositeLit:
						for _, el := range y.Elts {
							if kv, ok := el.(*ast.KeyValueExpr); ok {
								if id, ok := kv.Key.(*ast.Ident); ok && pk.TypesInfo.Uses[id] == f {
									out = append(out, writer{name, kv, "literal"})
								}
							}
						}
					case *ast.UnaryExpr:
						if y.Op.String() == "&" {
							if sel, ok := ast.Unparen(y.X).(*ast.SelectorExpr); ok {
								if s := pk.TypesInfo.Selections[sel]; s != nil && s.Obj() == f {
									out = append(out, writer{name, y, "address-taken"})
								}
							}
						}
					}
					return true
				})
			}
		}
	}
	return out
}

func c08QueueKeep(c *Ctx, v *vocab) {
	r := c.Rule("C08/QUEUEKEEP", "WHO", "memorySession.storedQueue is written only by the constructor's composite literal (reuse() must not re-create it: queued offline messages survive the resume)", 1)
	f := c.P.Field("broker", "memorySession", "storedQueue")
	if f == nil {
		r.Undecided("broker.memorySession.storedQueue", 0, "field not found")
		return
	}
	ws := c.writersOf(f)
	nlit := 0
	for _, w := range ws {
		if w.kind == "literal" {
			nlit++
			r.Pass(w.fn+":storedQueue literal", w.pos.Pos(), 1, "constructor initialisation")
		} else {
			r.Fail(w.fn+":storedQueue "+w.kind, w.pos.Pos(), 1, "the stored queue of a persistent session is replaced outside the constructor: messages queued while offline are dropped")
		}
	}
	if nlit == 0 {
		r.Undecided("storedQueue constructor", 0, "no composite-literal initialisation found")
	}
}

func c08Offline(c *Ctx, v *vocab) {
	r := c.Rule("C08/OFFLINE", "TRACE", "MemoryBackend.Publish: for QoS>0 every session-queue send goes to the stored queue; the send for an offline stored session (activeClient == nil) is non-blocking; no hand-over select escapes on the publisher's own state", 3)
	fi := c.mustFunc(r, "broker.(*MemoryBackend).Publish")
	if fi == nil {
		return
	}
	mf := c.msgFields()
	sq := c.P.Field("broker", "memorySession", "storedQueue")
	tq := c.P.Field("broker", "memorySession", "temporaryQueue")
	ac := c.P.Field("broker", "memorySession", "activeClient")
	info := fi.Pkg.TypesInfo
	queueOf := func(e *Event) *types.Var {
		if e.ChanField != nil {
			return e.ChanField
		}
		if fv, ok := e.ChanObj.(*types.Var); ok && fv.IsField() {
			return fv
		}
		if e.ChanLit != nil {
			var res *types.Var
			ast.Inspect(e.ChanLit.Body, func(m ast.Node) bool {
				if rt, ok := m.(*ast.ReturnStmt); ok && len(rt.Results) == 1 {
					if sel, ok := ast.Unparen(rt.Results[0]).(*ast.SelectorExpr); ok {
						if s := info.Selections[sel]; s != nil {
							res, _ = s.Obj().(*types.Var)
						}
					}
				}
				return true
			})
			return res
		}
		return nil
	}
	for q := int64(0); q <= 2; q++ {
		in := c.P.TraceFunc(fi, TraceOpts{Init: map[types.Object]Val{mf.msgQOS: vInt(q)}})
		key := fmt.Sprintf("%s@QOS=%d", fi.Name, q)
		if c.undecidedIfOver(r, in, key) {
			continue
		}
		want := tq
		if q > 0 {
			want = sq
		}
		var bad *Trace
		why := ""
		n := 0
		for _, t := range in.Traces {
			for _, e := range t.Ev {
				if !c.isQueueSend(fi)(e) {
					continue
				}
				n++
				if got := queueOf(e); got != want {
					bad, why = t, fmt.Sprintf("QoS %d message sent to %v, expected %s", q, got, want.Name())
				}
			}
		}
		r.Check(key+":queue selection", bad == nil && n > 0, fi.Decl.Pos(), len(in.Traces), why+fmt.Sprintf(" [queue sends on paths: %d]", n), c.witness(bad)...)
	}
	// offline: activeClient == nil ⇒ non-blocking
	in := c.P.TraceFunc(fi, TraceOpts{Init: map[types.Object]Val{ac: {K: VNil}}})
	var bad *Trace
	n := 0
	ss := c.P.Field("broker", "MemoryBackend", "storedSessions")
	for _, t := range in.Traces {
		for i, e := range t.Ev {
			if c.isQueueSend(fi)(e) && c.inRangeOver(fi, t, i, ss) {
				n++
				if e.Blocking {
					bad = t
				}
			}
		}
	}
	r.Check(fi.Name+"@activeClient=nil:non-blocking", bad == nil && n > 0, fi.Decl.Pos(), len(in.Traces), "a publish must never block on the queue of an offline session", c.witness(bad)...)
	// hand-over to an online receiver: the wait for room may be given up when the *receiver* goes away, never
	// because of the state of the publisher — a will is always published by a client that is already closing, so
	// an escape on the publisher's Closing()/Closed() turns "wait for room" into "skip if busy" for every will
	pub := fi.Obj.Type().(*types.Signature).Params().At(0)
	h := &Interp{P: c.P, Info: info}
	seen := map[*ast.SelectStmt]bool{}
	var badSel *ast.SelectStmt
	ns := 0
	all := c.traces(fi)
	for _, t := range all.Traces {
		for _, e := range t.Ev {
			if !c.isQueueSend(fi)(e) || e.Select == nil || seen[e.Select] {
				continue
			}
			seen[e.Select] = true
			ns++
			for _, cl := range e.Select.Body.List {
				cc, _ := cl.(*ast.CommClause)
				if cc == nil || cc.Comm == nil {
					continue
				}
				ast.Inspect(cc.Comm, func(m ast.Node) bool {
					u, ok := m.(*ast.UnaryExpr)
					if !ok || u.Op != token.ARROW {
						return true
					}
					ast.Inspect(u.X, func(k ast.Node) bool {
						if id, ok := k.(*ast.Ident); ok && h.objOf(id) == types.Object(pub) {
							badSel = e.Select
						}
						return true
					})
					return true
				})
			}
		}
	}
	pos := fi.Decl.Pos()
	if badSel != nil {
		pos = badSel.Pos()
	}
	r.Check(fi.Name+":hand-over waits do not depend on the publisher", badSel == nil && ns > 0, pos, ns, "a select that hands the message to a session queue has an escape on the publishing client: a will (always published by a closing client) is dropped whenever the receiver's queue is momentarily full")
}
