package main

import (
	"go/constant"
	"go/types"
)

// resolved objects of the broker / client packages used as rule vocabulary
type vocab struct {
	p *Program

	// broker
	bSend, bDie, bCleanup, bClose, bProcessor, bNewClient                                                         *types.Func
	bsSave, bsLookup, bsDelete, bsAll, bsNext                                                                     *types.Func // broker.Session
	bkAuth, bkSetup, bkRestore, bkSubscribe, bkUnsubscribe, bkPublish, bkDequeue, bkTerminate, bkLog              *types.Func
	fAckQueue, fPublishTokens, fSubscribeTokens, fDequeueTokens, fState, fWill, fSession, fClosed, fBTomb, fBConn *types.Var

	// client
	cSend, cDie, cCleanup, cEnd                                                           *types.Func
	csSave, csLookup, csDelete, csAll, csNext, csReset                                    *types.Func
	cfState, cfCallback, cfEarly, cfFutureStore, cfConnectFuture, cfTomb, cfConn, cfClean *types.Var

	// transport.Conn
	connSend, connReceive, connClose *types.Func

	incoming, outgoing int64
}

func (c *Ctx) vocab() *vocab {
	if c.voc != nil {
		return c.voc
	}
	p := c.P
	v := &vocab{p: p}
	c.voc = v
	m := p.Method
	v.bSend = m("broker", "Client", "send")
	v.bDie = m("broker", "Client", "die")
	v.bCleanup = m("broker", "Client", "cleanup")
	v.bClose = m("broker", "Client", "Close")
	v.bProcessor = m("broker", "Client", "processor")
	if f, ok := p.Global("broker", "NewClient").(*types.Func); ok {
		v.bNewClient = f
	}
	v.bsSave = m("broker", "Session", "SavePacket")
	v.bsLookup = m("broker", "Session", "LookupPacket")
	v.bsDelete = m("broker", "Session", "DeletePacket")
	v.bsAll = m("broker", "Session", "AllPackets")
	v.bsNext = m("broker", "Session", "NextID")
	v.bkAuth = m("broker", "Backend", "Authenticate")
	v.bkSetup = m("broker", "Backend", "Setup")
	v.bkRestore = m("broker", "Backend", "Restore")
	v.bkSubscribe = m("broker", "Backend", "Subscribe")
	v.bkUnsubscribe = m("broker", "Backend", "Unsubscribe")
	v.bkPublish = m("broker", "Backend", "Publish")
	v.bkDequeue = m("broker", "Backend", "Dequeue")
	v.bkTerminate = m("broker", "Backend", "Terminate")
	v.bkLog = m("broker", "Backend", "Log")
	f := p.Field
	v.fAckQueue = f("broker", "Client", "ackQueue")
	v.fPublishTokens = f("broker", "Client", "publishTokens")
	v.fSubscribeTokens = f("broker", "Client", "subscribeTokens")
	v.fDequeueTokens = f("broker", "Client", "dequeueTokens")
	v.fState = f("broker", "Client", "state")
	v.fWill = f("broker", "Client", "will")
	v.fSession = f("broker", "Client", "session")
	v.fClosed = f("broker", "Client", "closed")
	v.fBTomb = f("broker", "Client", "tomb")
	v.fBConn = f("broker", "Client", "conn")

	v.cSend = m("client", "Client", "send")
	v.cDie = m("client", "Client", "die")
	v.cCleanup = m("client", "Client", "cleanup")
	v.cEnd = m("client", "Client", "end")
	v.csSave = m("client", "Session", "SavePacket")
	v.csLookup = m("client", "Session", "LookupPacket")
	v.csDelete = m("client", "Session", "DeletePacket")
	v.csAll = m("client", "Session", "AllPackets")
	v.csNext = m("client", "Session", "NextID")
	v.csReset = m("client", "Session", "Reset")
	v.cfState = f("client", "Client", "state")
	v.cfCallback = f("client", "Client", "Callback")
	v.cfEarly = f("client", "Client", "earlyCallback")
	v.cfFutureStore = f("client", "Client", "futureStore")
	v.cfConnectFuture = f("client", "Client", "connectFuture")
	v.cfTomb = f("client", "Client", "tomb")
	v.cfConn = f("client", "Client", "conn")
	v.cfClean = f("client", "Client", "clean")

	v.connSend = m("transport", "Conn", "Send")
	v.connReceive = m("transport", "Conn", "Receive")
	v.connClose = m("transport", "Conn", "Close")

	v.incoming, v.outgoing = -1, -1
	if k, ok := p.Global("session", "Incoming").(*types.Const); ok {
		if i, ok := constant.Int64Val(k.Val()); ok {
			v.incoming = i
		}
	}
	if k, ok := p.Global("session", "Outgoing").(*types.Const); ok {
		if i, ok := constant.Int64Val(k.Val()); ok {
			v.outgoing = i
		}
	}
	return v
}

// missing reports vocabulary objects that could not be resolved.
func (v *vocab) missing() []string {
	var out []string
	chk := func(name string, o interface{}) {
		switch x := o.(type) {
		case *types.Func:
			if x == nil {
				out = append(out, name)
			}
		case *types.Var:
			if x == nil {
				out = append(out, name)
			}
		}
	}
	chk("broker.Client.send", v.bSend)
	chk("broker.Client.die", v.bDie)
	chk("broker.Client.cleanup", v.bCleanup)
	chk("broker.Session.SavePacket", v.bsSave)
	chk("broker.Session.LookupPacket", v.bsLookup)
	chk("broker.Session.DeletePacket", v.bsDelete)
	chk("broker.Session.AllPackets", v.bsAll)
	chk("broker.Session.NextID", v.bsNext)
	chk("broker.Backend.Publish", v.bkPublish)
	chk("broker.Backend.Setup", v.bkSetup)
	chk("broker.Backend.Terminate", v.bkTerminate)
	chk("broker.Backend.Dequeue", v.bkDequeue)
	chk("broker.Backend.Subscribe", v.bkSubscribe)
	chk("broker.Backend.Unsubscribe", v.bkUnsubscribe)
	chk("broker.Backend.Authenticate", v.bkAuth)
	chk("broker.Client.ackQueue", v.fAckQueue)
	chk("broker.Client.publishTokens", v.fPublishTokens)
	chk("broker.Client.subscribeTokens", v.fSubscribeTokens)
	chk("broker.Client.dequeueTokens", v.fDequeueTokens)
	chk("broker.Client.state", v.fState)
	chk("broker.Client.will", v.fWill)
	chk("broker.Client.session", v.fSession)
	chk("client.Client.send", v.cSend)
	chk("client.Client.die", v.cDie)
	chk("client.Client.cleanup", v.cCleanup)
	chk("client.Session.SavePacket", v.csSave)
	chk("client.Session.DeletePacket", v.csDelete)
	chk("client.Session.LookupPacket", v.csLookup)
	chk("client.Session.AllPackets", v.csAll)
	chk("client.Client.Callback", v.cfCallback)
	chk("client.Client.earlyCallback", v.cfEarly)
	chk("client.Client.futureStore", v.cfFutureStore)
	chk("transport.Conn.Send", v.connSend)
	chk("transport.Conn.Close", v.connClose)
	if v.incoming < 0 || v.outgoing < 0 {
		out = append(out, "session.Incoming/Outgoing")
	}
	return out
}

// isTomb: callee is method name of gopkg.in/tomb.v2.Tomb
func isTomb(o types.Object, name string) bool {
	f, ok := o.(*types.Func)
	return ok && f.Name() == name && f.Pkg() != nil && f.Pkg().Path() == "gopkg.in/tomb.v2"
}

func tombCall(name string) Pred {
	return func(e *Event) bool { return e.Kind == EvCall && isTomb(e.Callee, name) }
}

// chanOfMessages: the channel expression carries *packet.Message (a session queue)
func (c *Ctx) isQueueSend(fi *FuncInfo) Pred {
	return func(e *Event) bool {
		if e.Kind != EvSend {
			return false
		}
		t := fi.Pkg.TypesInfo.TypeOf(e.Chan)
		if t == nil {
			return false
		}
		ch, ok := t.Underlying().(*types.Chan)
		return ok && typeIs(ch.Elem(), "packet", "Message", true)
	}
}
