package main

import (
	"encoding/json"
	"fmt"
	"go/token"
	"go/types"
	"os"
	"path/filepath"
	"sort"
	"strings"
	"time"
)

// Obligation is one rule instance on one construct.
type Obligation struct {
	Property  string   `json:"property"`
	Rule      string   `json:"rule"`
	Construct string   `json:"construct"`
	Status    string   `json:"status"` // discharged | violated | undecided
	Pos       string   `json:"pos"`
	Detail    string   `json:"detail,omitempty"`
	Witness   []string `json:"witness,omitempty"`
	Work      int      `json:"work"` // paths / origins / locksets computed to decide it
	Known     bool     `json:"known_finding,omitempty"`
}

// RuleStat summarises one rule.
type RuleStat struct {
	Name      string `json:"rule"`
	Doc       string `json:"what"`
	Engine    string `json:"engine"`
	Floor     int    `json:"floor"`
	Instances int    `json:"instances"`
	Paths     int    `json:"paths_explored"`
	Violated  int    `json:"violated"`
	Undecided int    `json:"undecided"`
	Verdict   string `json:"verdict"`
}

// Ctx collects the obligations of one property run.
type Ctx struct {
	P           *Program
	Prop        string
	Tier        string
	Obls        []*Obligation
	Rules       []*RuleStat
	rules       map[string]*RuleStat
	NotDecided  []string
	Assumptions []string
	Analysed    map[string]bool // functions analysed
	Explain     bool
	Notes       []string
	Selftest    map[string]interface{}
	cache       map[string]*Interp
	voc         *vocab
	Verif       string // verification root: known findings, seeded corpus
	Out         string // receives evidence/
	Summary     bool   // print a SUMMARY line (child runs of the thorough tier)
	ChildViol   []sumViol
	postConn    map[*types.Func]bool
	passArg     map[*types.Func]int
}

func NewCtx(p *Program, prop, tier string) *Ctx {
	return &Ctx{P: p, Prop: prop, Tier: tier, rules: map[string]*RuleStat{}, Analysed: map[string]bool{}}
}

// Rule is a handle to record obligations of one rule.
type Rule struct {
	c  *Ctx
	st *RuleStat
}

// Rule declares a rule; floor is the minimum number of instances confirmed by hand.
func (c *Ctx) Rule(name, engine, doc string, floor int) *Rule {
	// a rule inherited from another property runs under this property's name (C06/CAP -> C08/CAP)
	if i := strings.Index(name, "/"); i > 0 && name[:i] != c.Prop && len(name[:i]) == 3 && name[0] == 'C' {
		name = c.Prop + name[i:]
	}
	full := name
	if st, ok := c.rules[full]; ok {
		return &Rule{c, st}
	}
	st := &RuleStat{Name: full, Doc: doc, Engine: engine, Floor: floor}
	c.rules[full] = st
	c.Rules = append(c.Rules, st)
	return &Rule{c, st}
}

func (r *Rule) add(construct, status string, pos token.Pos, work int, detail string, witness []string) *Obligation {
	o := &Obligation{Property: r.c.Prop, Rule: r.st.Name, Construct: construct, Status: status,
		Pos: r.c.P.Pos(pos), Detail: detail, Witness: witness, Work: work}
	r.c.Obls = append(r.c.Obls, o)
	r.st.Instances++
	r.st.Paths += work
	switch status {
	case "violated":
		r.st.Violated++
	case "undecided":
		r.st.Undecided++
	}
	return o
}

// Check records an obligation: discharged when ok, violated otherwise.
func (r *Rule) Check(construct string, ok bool, pos token.Pos, work int, detail string, witness ...string) {
	if ok {
		r.add(construct, "discharged", pos, work, detail, nil)
	} else {
		r.add(construct, "violated", pos, work, detail, witness)
	}
}

// Pass records a discharged obligation.
func (r *Rule) Pass(construct string, pos token.Pos, work int, detail string) {
	r.add(construct, "discharged", pos, work, detail, nil)
}

// Fail records a violated obligation.
func (r *Rule) Fail(construct string, pos token.Pos, work int, detail string, witness ...string) {
	r.add(construct, "violated", pos, work, detail, witness)
}

// Undecided records an obligation that cannot be decided on this tree (counts as violation).
func (r *Rule) Undecided(construct string, pos token.Pos, reason string) {
	r.add(construct, "undecided", pos, 0, "UNDECIDED: "+reason, nil)
}

func (c *Ctx) NotDecide(s ...string) { c.NotDecided = append(c.NotDecided, s...) }
func (c *Ctx) Assume(s ...string)    { c.Assumptions = append(c.Assumptions, s...) }
func (c *Ctx) Touch(fn string)       { c.Analysed[fn] = true }

// ---------------------------------------------------------------- known findings

type KnownFinding struct {
	Kind      string `json:"kind"` // known | fixed
	Property  string `json:"property"`
	Rule      string `json:"rule"`
	Construct string `json:"construct"`
	What      string `json:"what"`
	Commit    string `json:"commit,omitempty"`
}

type KnownFile struct {
	Comment  string         `json:"comment"`
	Findings []KnownFinding `json:"findings"`
}

func loadKnown(path string) (*KnownFile, error) {
	b, err := os.ReadFile(path)
	if err != nil {
		if os.IsNotExist(err) {
			return &KnownFile{}, nil
		}
		return nil, err
	}
	var k KnownFile
	if err := json.Unmarshal(b, &k); err != nil {
		return nil, err
	}
	return &k, nil
}

// ---------------------------------------------------------------- evidence

type evidence struct {
	PropertyID  string                 `json:"property_id"`
	Tier        string                 `json:"tier"`
	Seed        int                    `json:"seed"`
	Level       string                 `json:"level"`
	Coverage    map[string]interface{} `json:"coverage"`
	Assumptions []string               `json:"assumptions"`
	WallS       float64                `json:"wall_s"`
	Violations  int                    `json:"violations"`
}

// Finish applies floors, matches known findings, writes evidence and violation files, prints the
// interface lines and returns the exit code.
func (c *Ctx) Finish(seed int, start time.Time, explanation string, extraCov map[string]interface{}) int {
	verif, out := c.Verif, c.Out
	// floors
	for _, st := range c.Rules {
		if st.Instances < st.Floor {
			r := &Rule{c, st}
			r.add(fmt.Sprintf("%s:floor", st.Name), "undecided", token.NoPos, 0,
				fmt.Sprintf("UNDECIDED: rule matched %d instances, floor confirmed by hand is %d (anchor moved, renamed or removed)", st.Instances-0, st.Floor), nil)
			st.Instances-- // the floor pseudo-obligation is not an instance
		}
	}
	known, err := loadKnown(filepath.Join(verif, "known_findings.json"))
	if err != nil {
		fmt.Printf("cannot read known_findings.json: %v\n", err)
		known = &KnownFile{}
	}
	violDir := filepath.Join(out, "evidence", "violations")
	os.MkdirAll(violDir, 0o755)
	// remove stale violation files of this property
	if old, _ := filepath.Glob(filepath.Join(violDir, c.Prop+"-*.json")); len(old) > 0 {
		for _, f := range old {
			os.Remove(f)
		}
	}
	var sumV []sumViol
	nviol := 0
	nknown := 0
	discharged := 0
	distinct := map[string]bool{}
	var knownLines []string
	var samples []interface{}
	for _, o := range c.Obls {
		if o.Work > 0 {
			distinct[o.Rule+"|"+o.Construct] = true
		}
		if o.Status == "discharged" {
			discharged++
			continue
		}
		matched := false
		if o.Status == "violated" {
			for _, k := range known.Findings {
				if k.Kind == "known" && k.Property == c.Prop && k.Rule == o.Rule && k.Construct == o.Construct {
					matched = true
					o.Known = true
					line := fmt.Sprintf("KNOWN-FINDING: property=%s %s %s — %s", c.Prop, o.Rule, o.Construct, k.What)
					knownLines = append(knownLines, line)
					break
				}
			}
		}
		if matched {
			nknown++
			continue
		}
		nviol++
		sumV = append(sumV, sumViol{Rule: o.Rule, Construct: o.Construct, Status: o.Status, Pos: o.Pos, Detail: o.Detail})
		path := filepath.Join(violDir, fmt.Sprintf("%s-%d.json", c.Prop, nviol))
		b, _ := json.MarshalIndent(o, "", " ")
		os.WriteFile(path, b, 0o644)
		fmt.Printf("%s %s %s at %s: %s\n", strings.ToUpper(o.Status), o.Rule, o.Construct, o.Pos, o.Detail)
		for _, w := range o.Witness {
			fmt.Printf("    %s\n", w)
		}
		fmt.Printf("VIOLATION property=%s replay=%s\n", c.Prop, path)
	}
	for _, l := range knownLines {
		fmt.Println(l)
	}
	for _, st := range c.Rules {
		switch {
		case st.Undecided > 0:
			st.Verdict = "undecided"
		case st.Violated > 0:
			st.Verdict = "violated"
		default:
			st.Verdict = "pass"
		}
	}
	// samples: first obligation of every rule, with its detail
	seen := map[string]int{}
	for _, o := range c.Obls {
		if seen[o.Rule] >= 2 {
			continue
		}
		seen[o.Rule]++
		samples = append(samples, map[string]interface{}{"rule": o.Rule, "construct": o.Construct, "status": o.Status, "pos": o.Pos, "detail": o.Detail, "paths": o.Work})
	}
	var fns []string
	for f := range c.Analysed {
		fns = append(fns, f)
	}
	sort.Strings(fns)
	var pk []string
	for _, p := range c.P.All {
		pk = append(pk, p.PkgPath)
	}
	cov := map[string]interface{}{
		"explanation":         explanation,
		"evaluations":         len(c.Obls),
		"distinct_nontrivial": len(distinct),
		"rule":                "one evaluation = one obligation (rule instance on one construct of /repo's current source); an obligation is non-trivial when deciding it needed at least one path enumeration, origin trace, lockset or table extraction (work>0); distinct = distinct rule+construct keys",
		"samples":             samples,
		"obligations":         len(c.Obls),
		"discharged":          discharged,
		"known_findings":      nknown,
		"checker_cmd":         fmt.Sprintf("%s/check.sh %s %s", c.Verif, c.Prop, c.Tier),
		"trusted_base":        []string{"go/types, go/packages, go/ssa of golang.org/x/tools v0.29.0", "the reference tables frozen in the checker (DESIGN.md section 3)", "go toolchain parser/type-checker"},
		"rules":               c.Rules,
		"not_decided":         c.NotDecided,
		"packages":            pk,
		"files":               c.P.Files,
		"functions_analysed":  fns,
		"module_go_version":   c.P.GoVersion,
		"exhaustive":          false,
	}
	for k, v := range extraCov {
		cov[k] = v
	}
	if c.Selftest != nil {
		cov["selftest"] = c.Selftest
	}
	ev := evidence{PropertyID: c.Prop, Tier: c.Tier, Seed: seed, Level: "other", Coverage: cov,
		Assumptions: c.Assumptions, WallS: time.Since(start).Seconds(), Violations: nviol}
	if ev.Assumptions == nil {
		ev.Assumptions = []string{}
	}
	b, _ := json.MarshalIndent(ev, "", " ")
	os.MkdirAll(filepath.Join(out, "evidence"), 0o755)
	if err := os.WriteFile(filepath.Join(out, "evidence", c.Prop+".json"), b, 0o644); err != nil {
		fmt.Printf("cannot write evidence: %v\n", err)
		return 2
	}
	fmt.Printf("%s %s: %d obligations, %d discharged, %d known findings, %d violations; %d rules; %d functions analysed; %.1fs\n",
		c.Prop, c.Tier, len(c.Obls), discharged, nknown, nviol, len(c.Rules), len(fns), time.Since(start).Seconds())
	for _, st := range c.Rules {
		fmt.Printf("  rule %-22s %-9s instances=%d floor=%d paths=%d\n", st.Name, st.Verdict, st.Instances, st.Floor, st.Paths)
	}
	if c.Summary {
		fmt.Printf("SUMMARY %s\n", mustJSON(runSummary{Prop: c.Prop, Obligations: len(c.Obls), Discharged: discharged, Known: nknown, Violations: sumV, Rules: c.Rules}))
	}
	if nviol > 0 {
		return 1
	}
	return 0
}

// runSummary is the machine-readable result of one property run (child runs of the thorough tier).
type runSummary struct {
	Prop        string      `json:"prop"`
	Obligations int         `json:"obligations"`
	Discharged  int         `json:"discharged"`
	Known       int         `json:"known"`
	Violations  []sumViol   `json:"violations"`
	Rules       []*RuleStat `json:"rules,omitempty"`
}

type sumViol struct {
	Rule      string `json:"rule"`
	Construct string `json:"construct"`
	Status    string `json:"status"`
	Pos       string `json:"pos"`
	Detail    string `json:"detail"`
}

func mustJSON(v interface{}) string {
	b, err := json.Marshal(v)
	if err != nil {
		return "{}"
	}
	return string(b)
}
