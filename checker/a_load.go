package main

import (
	"fmt"
	"go/ast"
	"go/parser"
	"go/token"
	"go/types"
	"os"
	"path/filepath"
	"sort"
	"strings"

	"golang.org/x/tools/go/packages"
	"golang.org/x/tools/go/ssa"
	"golang.org/x/tools/go/ssa/ssautil"
)

const modPath = "github.com/256dpi/gomqtt"

// library packages analysed in every tier (relative to the module root)
var libPkgs = []string{"packet", "topic", "session", "broker", "client", "client/future", "transport"}

// extra caller packages added in the thorough tier
var extraPkgs = []string{"cmd/...", "spec", "transport/flow"}

// FuncInfo is one source function (declared function or method) of the analysed packages.
type FuncInfo struct {
	Name string // qualified: broker.(*Client).processPubrel
	Decl *ast.FuncDecl
	Obj  *types.Func
	Pkg  *packages.Package
}

// Program is the type-checked view of /repo's current working tree.
type Program struct {
	Repo      string
	Fset      *token.FileSet
	Pkgs      map[string]*packages.Package // keyed by path relative to module ("broker")
	All       []*packages.Package          // library packages first, in libPkgs order
	Funcs     map[string]*FuncInfo
	ByObj     map[*types.Func]*FuncInfo
	GoVersion string
	Files     int
	infoOf    map[*ast.File]*packages.Package

	ssaProg *ssa.Program
	ssaPkgs map[string]*ssa.Package
	allPkgs []*packages.Package // including deps, for SSA
	Extra   bool
	keyTab  map[pathKey]*types.Var
	keyInfo map[types.Object]pathKey
	GOARCH  string
	GOOS    string

	NewFuncs     map[*types.Func]bool          // unexported library functions that are not in knownFuncs (a_alias.go)
	Alias        map[types.Object]types.Object // local / parameter aliases (a_alias.go)
	AliasExpr    map[types.Object]ast.Expr     // named local -> the expression it names
	RenamedFunc  map[string]string             // listed function that is gone -> its unique replacement (a_alias.go)
	RenamedField map[string]*types.Var         // "pkg.Type.field" that is gone -> its unique replacement
}

func shortPkg(path string) string {
	p := strings.TrimPrefix(path, modPath+"/")
	return p
}

func pkgLabel(p *types.Package) string {
	if p == nil {
		return ""
	}
	return p.Name()
}

// Load type-checks the library packages of repo (and optionally the extra callers).
func Load(repo string, extra bool, goos, goarch string) (*Program, error) {
	os.Unsetenv("GOWORK")
	env := append(os.Environ(), "GOFLAGS=-mod=mod", "GOPROXY=off", "GOSUMDB=off", "GOTOOLCHAIN=local", "GOWORK=off")
	if goos != "" {
		env = append(env, "GOOS="+goos, "CGO_ENABLED=0")
	}
	if goarch != "" {
		env = append(env, "GOARCH="+goarch)
	}
	absRepo, _ := filepath.Abs(repo)
	cfg := &packages.Config{
		Mode:  packages.LoadAllSyntax | packages.NeedModule,
		Dir:   repo,
		Env:   env,
		Tests: false,
		// the repository's own non-test files are canonicalised after parsing (a_canon.go)
		ParseFile: func(fset *token.FileSet, filename string, src []byte) (*ast.File, error) {
			f, err := parser.ParseFile(fset, filename, src, parser.AllErrors|parser.ParseComments)
			if err == nil && f != nil && strings.HasPrefix(filename, absRepo+string(filepath.Separator)) && !strings.HasSuffix(filename, "_test.go") {
				canonicalize(fset, f)
			}
			return f, err
		},
	}
	var patterns []string
	for _, p := range libPkgs {
		patterns = append(patterns, "./"+p)
	}
	if extra {
		for _, p := range extraPkgs {
			patterns = append(patterns, "./"+p)
		}
	}
	pkgs, err := packages.Load(cfg, patterns...)
	if err != nil {
		return nil, err
	}
	prog := &Program{Repo: repo, Pkgs: map[string]*packages.Package{}, Funcs: map[string]*FuncInfo{},
		ByObj: map[*types.Func]*FuncInfo{}, infoOf: map[*ast.File]*packages.Package{}, Extra: extra, GOOS: goos, GOARCH: goarch}
	var errs []string
	packages.Visit(pkgs, nil, func(p *packages.Package) {
		for _, e := range p.Errors {
			errs = append(errs, fmt.Sprintf("%s: %v", p.PkgPath, e))
		}
		prog.allPkgs = append(prog.allPkgs, p)
	})
	if len(errs) > 0 {
		sort.Strings(errs)
		return nil, fmt.Errorf("type-check errors (%d): %s", len(errs), strings.Join(errs, "; "))
	}
	for _, p := range pkgs {
		if prog.Fset == nil {
			prog.Fset = p.Fset
		}
		if !strings.HasPrefix(p.PkgPath, modPath) {
			continue
		}
		rel := shortPkg(p.PkgPath)
		prog.Pkgs[rel] = p
		if p.Module != nil && p.Module.GoVersion != "" {
			prog.GoVersion = p.Module.GoVersion
		}
	}
	for _, rel := range libPkgs {
		p := prog.Pkgs[rel]
		if p == nil {
			return nil, fmt.Errorf("library package %s not loaded", rel)
		}
		prog.All = append(prog.All, p)
	}
	var rest []string
	for rel := range prog.Pkgs {
		found := false
		for _, l := range libPkgs {
			if l == rel {
				found = true
			}
		}
		if !found {
			rest = append(rest, rel)
		}
	}
	sort.Strings(rest)
	for _, rel := range rest {
		prog.All = append(prog.All, prog.Pkgs[rel])
	}
	for _, p := range prog.All {
		for _, f := range p.Syntax {
			name := filepath.Base(prog.Fset.File(f.Pos()).Name())
			if strings.HasSuffix(name, "_test.go") {
				continue
			}
			prog.Files++
			prog.infoOf[f] = p
			for _, d := range f.Decls {
				fd, ok := d.(*ast.FuncDecl)
				if !ok {
					continue
				}
				obj, _ := p.TypesInfo.Defs[fd.Name].(*types.Func)
				if obj == nil {
					continue
				}
				fi := &FuncInfo{Name: FuncName(obj), Decl: fd, Obj: obj, Pkg: p}
				prog.Funcs[fi.Name] = fi
				prog.ByObj[obj] = fi
			}
		}
	}
	if len(prog.Pkgs) < len(libPkgs) {
		return nil, fmt.Errorf("only %d packages loaded", len(prog.Pkgs))
	}
	prog.buildAliases()
	return prog, nil
}

// FuncName renders a *types.Func as pkg.(*Recv).Name / pkg.Name.
func FuncName(f *types.Func) string {
	if f == nil {
		return "<nil>"
	}
	sig, _ := f.Type().(*types.Signature)
	pk := ""
	if f.Pkg() != nil {
		pk = f.Pkg().Name()
	}
	if sig != nil && sig.Recv() != nil {
		t := sig.Recv().Type()
		ptr := false
		if p, ok := t.(*types.Pointer); ok {
			t = p.Elem()
			ptr = true
		}
		tn := ""
		if n, ok := t.(*types.Named); ok {
			tn = n.Obj().Name()
			if n.Obj().Pkg() != nil {
				pk = n.Obj().Pkg().Name()
			}
		} else {
			tn = t.String()
		}
		if ptr {
			return fmt.Sprintf("%s.(*%s).%s", pk, tn, f.Name())
		}
		return fmt.Sprintf("%s.(%s).%s", pk, tn, f.Name())
	}
	return pk + "." + f.Name()
}

// Func returns the function with the qualified name, or nil.
func (p *Program) Func(name string) *FuncInfo {
	if fi := p.Funcs[name]; fi != nil {
		return fi
	}
	if n, ok := p.RenamedFunc[name]; ok {
		return p.Funcs[n]
	}
	return nil
}

// Pos renders a position relative to the repo root.
func (p *Program) Pos(pos token.Pos) string {
	if !pos.IsValid() {
		return "-"
	}
	ps := p.Fset.Position(pos)
	rel, err := filepath.Rel(p.Repo, ps.Filename)
	if err != nil || strings.HasPrefix(rel, "..") {
		rel = ps.Filename
	}
	return fmt.Sprintf("%s:%d", rel, ps.Line)
}

// Named looks up a named type of a library package ("broker","Client").
func (p *Program) Named(pkg, name string) *types.Named {
	pk := p.Pkgs[pkg]
	if pk == nil {
		return nil
	}
	o := pk.Types.Scope().Lookup(name)
	if o == nil {
		return nil
	}
	n, _ := o.Type().(*types.Named)
	return n
}

// Field returns the field object of a struct type.
func (p *Program) Field(pkg, typ, field string) *types.Var {
	n := p.Named(pkg, typ)
	if n == nil {
		return nil
	}
	st, ok := n.Underlying().(*types.Struct)
	if !ok {
		return nil
	}
	for i := 0; i < st.NumFields(); i++ {
		if st.Field(i).Name() == field {
			return st.Field(i)
		}
	}
	return p.RenamedField[pkg+"."+typ+"."+field]
}

// Method returns a declared method (pointer or value receiver) or interface method.
func (p *Program) Method(pkg, typ, name string) *types.Func {
	n := p.Named(pkg, typ)
	if n == nil {
		return nil
	}
	if it, ok := n.Underlying().(*types.Interface); ok {
		for i := 0; i < it.NumMethods(); i++ {
			if it.Method(i).Name() == name {
				return it.Method(i)
			}
		}
		return nil
	}
	for i := 0; i < n.NumMethods(); i++ {
		if n.Method(i).Name() == name {
			return n.Method(i)
		}
	}
	for _, old := range []string{pkg + ".(*" + typ + ")." + name, pkg + ".(" + typ + ")." + name} {
		if nn, ok := p.RenamedFunc[old]; ok {
			if fi := p.Funcs[nn]; fi != nil {
				return fi.Obj
			}
		}
	}
	return nil
}

// Global returns a package level object.
func (p *Program) Global(pkg, name string) types.Object {
	pk := p.Pkgs[pkg]
	if pk == nil {
		return nil
	}
	return pk.Types.Scope().Lookup(name)
}

// InfoFor returns the types.Info that covers node's file.
func (p *Program) PkgOfPos(pos token.Pos) *packages.Package {
	for _, pk := range p.All {
		for _, f := range pk.Syntax {
			if f.Pos() <= pos && pos <= f.End() {
				return pk
			}
		}
	}
	return nil
}

// LibFuncs lists all functions of one library package sorted by name.
func (p *Program) LibFuncs(pkg string) []*FuncInfo {
	var out []*FuncInfo
	for _, f := range p.Funcs {
		// NEW helpers are seen inlined in their callers, not as functions of their own (a_alias.go)
		if shortPkg(f.Pkg.PkgPath) == pkg && !p.NewFuncs[f.Obj] {
			out = append(out, f)
		}
	}
	sort.Slice(out, func(i, j int) bool { return out[i].Decl.Pos() < out[j].Decl.Pos() })
	return out
}

// LibFuncsAll is LibFuncs plus the NEW helpers: for rules that inspect each function's syntax on its own
// (type assertions, slice expressions) rather than its paths.
func (p *Program) LibFuncsAll(pkg string) []*FuncInfo {
	var out []*FuncInfo
	for _, f := range p.Funcs {
		if shortPkg(f.Pkg.PkgPath) == pkg {
			out = append(out, f)
		}
	}
	sort.Slice(out, func(i, j int) bool { return out[i].Decl.Pos() < out[j].Decl.Pos() })
	return out
}

// SSA builds (once) the SSA program for everything loaded.
func (p *Program) SSA() (*ssa.Program, map[string]*ssa.Package) {
	if p.ssaProg != nil {
		return p.ssaProg, p.ssaPkgs
	}
	var roots []*packages.Package
	for _, pk := range p.All {
		roots = append(roots, pk)
	}
	prog, pkgs := ssautil.AllPackages(roots, ssa.InstantiateGenerics)
	prog.Build()
	p.ssaProg = prog
	p.ssaPkgs = map[string]*ssa.Package{}
	for i, pk := range roots {
		if pkgs[i] != nil {
			p.ssaPkgs[shortPkg(pk.PkgPath)] = pkgs[i]
		}
	}
	return p.ssaProg, p.ssaPkgs
}

// SSAFunc finds the ssa.Function of a source function.
func (p *Program) SSAFunc(fi *FuncInfo) *ssa.Function {
	prog, _ := p.SSA()
	return prog.FuncValue(fi.Obj)
}
