package main

import (
	"fmt"
	"go/ast"
	"go/constant"
	"go/token"
	"go/types"
	"sort"
	"strings"

	"golang.org/x/tools/go/ssa"
)

func init() {
	register("C01", propC01)
	register("C02", propC02)
	register("C03", propC03)
}

// packetTypes: the named types of package packet that implement packet.Generic, by Type() constant.
type pktType struct {
	name   string
	named  *types.Named
	k      string // constant value of Type()
	typeFn *types.Func
}

func (c *Ctx) packetTypes() []pktType {
	pk := c.P.Pkgs["packet"]
	gen := c.P.Named("packet", "Generic")
	if pk == nil || gen == nil {
		return nil
	}
	it := gen.Underlying().(*types.Interface)
	var out []pktType
	for _, n := range pk.Types.Scope().Names() {
		tn, ok := pk.Types.Scope().Lookup(n).(*types.TypeName)
		if !ok {
			continue
		}
		named, ok := tn.Type().(*types.Named)
		if !ok {
			continue
		}
		if _, isStruct := named.Underlying().(*types.Struct); !isStruct {
			continue
		}
		if !types.Implements(types.NewPointer(named), it) {
			continue
		}
		pt := pktType{name: n, named: named}
		pt.typeFn = c.P.Method("packet", n, "Type")
		if pt.typeFn != nil {
			if k, ok := c.constReturn(pt.typeFn); ok {
				pt.k = k
			}
		}
		out = append(out, pt)
	}
	sort.Slice(out, func(i, j int) bool { return out[i].name < out[j].name })
	return out
}

// ------------------------------------------------------------------ C01

const c01Explanation = "Static analysis of the codec's size agreement and dispatch tables: (SIZE) for every packet type and every valuation of the guard variables (QoS; Will present; Username/Password empty or not; protocol version) the number of bytes accounted for by Encode — computed symbolically along its success paths through summaries extracted from the write helpers' own bodies — equals Len(), Len() has the shape 1+VARINT(L)+L with L the type's own len(), and the remaining-length/total-length arguments of encodeHeader are those two values; " +
	"(HDR) every Encode/Decode reaches encodeHeader/decodeHeader with the constant its own Type() returns, Type.New and Types() map the 14 constants to the matching constructors, default flags are 2 exactly for PUBREL/SUBSCRIBE/UNSUBSCRIBE and only PUBLISH is exempt from the flag check; (CONST) varint thresholds, the 4-byte cap, detection window 2..5 and the 65535/2-byte length prefix agree. " +
	"Byte values against the specification, equality after decode and success for every well-formed value are not decided."

func propC01(c *Ctx) string {
	c01Size(c)
	c01Hdr(c)
	c01FieldUse(c)
	c01FieldMix(c)
	c01Const(c, "C01/CONST")
	c01HdrBound(c, "C01/HDRBOUND")
	c.NotDecide("byte values against an independent reference codec (layout per spec)", "field-for-field equality after decode", "that encoding succeeds for every well-formed value", "binary.PutUvarint writes varintLen(n) bytes for n <= maxVarint (standard library fact, pinned by the CONST thresholds)")
	c.Assume("write helpers fill exactly the bytes they report (summaries are extracted from their bodies; copy() into a buffer checked to be >= Len())")
	return c01Explanation
}

type valuation struct {
	name string
	init map[types.Object]Val
}

func (c *Ctx) valuationsFor(pt pktType) []valuation {
	f := func(n string) *types.Var { return c.P.Field("packet", pt.name, n) }
	mf := c.msgFields()
	switch pt.name {
	case "Publish":
		var out []valuation
		for q := int64(0); q <= 2; q++ {
			out = append(out, valuation{fmt.Sprintf("QOS=%d", q), map[types.Object]Val{mf.msgQOS: vInt(q)}})
		}
		return out
	case "Connect":
		var out []valuation
		for _, ver := range []int64{0, 3, 4} {
			for _, will := range []bool{false, true} {
				for _, up := range [][2]bool{{false, false}, {true, false}, {true, true}} {
					init := map[types.Object]Val{f("Version"): vInt(ver)}
					wv := Val{K: VNil}
					if will {
						wv = Val{K: VNonNil}
						init[mf.msgTopic] = Val{K: VNonEmpty}
						init[mf.msgQOS] = vInt(1)
					}
					init[f("Will")] = wv
					uv, pv := Val{K: VEmpty}, Val{K: VEmpty}
					if up[0] {
						uv = Val{K: VNonEmpty}
					}
					if up[1] {
						pv = Val{K: VNonEmpty}
					}
					init[f("Username")], init[f("Password")] = uv, pv
					init[f("CleanSession")] = vBool(true)
					out = append(out, valuation{fmt.Sprintf("Version=%d,Will=%s,Username=%s,Password=%s", ver, wv, uv, pv), init})
				}
			}
		}
		return out
	}
	return []valuation{{"any", map[types.Object]Val{}}}
}

func c01Size(c *Ctx) {
	r := c.Rule("C01/SIZE", "SIZE", "per packet type and guard valuation: bytes accounted by Encode == Len(); Len() == 1+VARINT(L)+L with L the type's remaining length", 33)
	pts := c.packetTypes()
	if len(pts) != 14 {
		r.Undecided("packet types", 0, fmt.Sprintf("expected 14 types implementing packet.Generic, found %d", len(pts)))
	}
	for _, pt := range pts {
		enc := c.P.ByObj[c.P.Method("packet", pt.name, "Encode")]
		ln := c.P.ByObj[c.P.Method("packet", pt.name, "Len")]
		if enc == nil || ln == nil {
			r.Undecided("packet."+pt.name, 0, "Encode/Len not found")
			continue
		}
		c.Touch(enc.Name)
		c.Touch(ln.Name)
		for _, vl := range c.valuationsFor(pt) {
			key := fmt.Sprintf("packet.(*%s)@%s", pt.name, vl.name)
			mk := func(fi *FuncInfo) *sizeCtx {
				return &sizeCtx{c: c, fi: fi, h: &Interp{P: c.P, Info: fi.Pkg.TypesInfo}, vars: map[types.Object]Lin{}, init: vl.init,
					elemOf: map[types.Object]string{}, plen: map[types.Object]Lin{}, recv: fi.Obj.Type().(*types.Signature).Recv()}
			}
			encForm := c.summary(mk(enc), enc)
			lenForm := c.summary(mk(ln), ln)
			// shape of Len: 1 + VARINT(X) + X
			shapeOK, L := false, ""
			if lenForm.Bad == "" {
				for a, k := range lenForm.Atoms {
					if strings.HasPrefix(a, "VARINT(") && k == 1 {
						inner := strings.TrimSuffix(strings.TrimPrefix(a, "VARINT("), ")")
						rest := lenForm.add(linAtom(a).neg()).add(linConst(-1))
						if rest.String() == inner {
							shapeOK, L = true, inner
						}
					}
				}
			}
			ok := encForm.equal(lenForm) && shapeOK
			r.Check(key, ok, enc.Decl.Pos(), 2, fmt.Sprintf("Encode accounts for [%s]; Len() = [%s]; remaining length L = [%s]", encForm, lenForm, L))
		}
	}
	// encodeHeader arguments: rl = own len(), tl = own Len()
	rh := c.Rule("C01/HDRARGS", "TRACE", "every encodeHeader call passes the type's own remaining length and total length (header.go refuses buffers shorter than Len()): tl == 1+VARINT(rl)+rl under every valuation", 8)
	encH, _ := c.P.Global("packet", "encodeHeader").(*types.Func)
	for _, fi := range c.P.LibFuncs("packet") {
		if fi.Decl.Body == nil || encH == nil {
			continue
		}
		in := c.traces(fi)
		h := &Interp{P: c.P, Info: fi.Pkg.TypesInfo}
		var site *Event
		var st *Trace
		for _, t := range in.Traces {
			for _, e := range t.Ev {
				if callTo(encH)(e) && site == nil {
					site, st = e, t
				}
			}
		}
		if site == nil {
			continue
		}
		vals := []valuation{{"any", map[types.Object]Val{}}}
		sig := fi.Obj.Type().(*types.Signature)
		if sig.Recv() != nil {
			for _, pt := range pts {
				if typeIs(sig.Recv().Type(), "packet", pt.name, true) {
					vals = c.valuationsFor(pt)
				}
			}
		}
		ok := true
		detail := ""
		for _, vl := range vals {
			mk := &sizeCtx{c: c, fi: fi, h: h, vars: map[types.Object]Lin{}, init: vl.init, elemOf: map[types.Object]string{}, plen: map[types.Object]Lin{}, t: st}
			if sig.Recv() != nil {
				mk.recv = sig.Recv()
			}
			rlF, tlF := mk.eval(site.Call.Args[2]), mk.eval(site.Call.Args[3])
			want := linConst(1).add(linAtom("VARINT(" + rlF.String() + ")")).add(rlF)
			if rlF.Bad != "" || !tlF.equal(want) {
				ok = false
				detail = fmt.Sprintf("@%s: rl=[%s] tl=[%s], expected tl=[%s]", vl.name, rlF, tlF, want)
			}
		}
		rh.Check(fi.Name+":encodeHeader(rl,tl)", ok, site.Pos, len(vals), detail)
	}
}

func c01Hdr(c *Ctx) {
	r := c.Rule("C01/HDR", "TABLE", "type constant agreement: Encode→encodeHeader(…,K), Decode→decodeHeader(…,K), Type.New(K)→constructor of the type whose Type() is K, Types() lists the 14 constants, defaultFlags==2 iff K∈{PUBREL,SUBSCRIBE,UNSUBSCRIBE}, only PUBLISH exempt from the flag check", 60)
	pts := c.packetTypes()
	encH, _ := c.P.Global("packet", "encodeHeader").(*types.Func)
	decH, _ := c.P.Global("packet", "decodeHeader").(*types.Func)
	if encH == nil || decH == nil {
		r.Undecided("encodeHeader/decodeHeader", 0, "not found")
		return
	}
	// constant of the type argument reaching the header function from method m
	reach := func(fi *FuncInfo, target *types.Func) (string, bool) {
		in := c.traces(fi)
		h := &Interp{P: c.P, Info: fi.Pkg.TypesInfo}
		val := ""
		ok := false
		for _, t := range in.Traces {
			for _, e := range t.Ev {
				if e.Kind != EvCall {
					continue
				}
				f, isF := e.Callee.(*types.Func)
				if !isF || len(e.Call.Args) == 0 {
					continue
				}
				last := e.Call.Args[len(e.Call.Args)-1]
				tv, has := fi.Pkg.TypesInfo.Types[last]
				if f == target {
					if has && tv.Value != nil {
						val, ok = tv.Value.ExactString(), true
					}
					continue
				}
				// wrapper: passes its last parameter on to the target
				w := c.P.ByObj[f]
				if w == nil || w.Pkg != fi.Pkg || !has || tv.Value == nil {
					continue
				}
				wsig := f.Type().(*types.Signature)
				if wsig.Params().Len() == 0 {
					continue
				}
				lastP := wsig.Params().At(wsig.Params().Len() - 1)
				win := c.traces(w)
				wh := &Interp{P: c.P, Info: w.Pkg.TypesInfo}
				passes := false
				for _, wt := range win.Traces {
					for _, we := range wt.Ev {
						if callTo(target)(we) && wh.objOf(we.Call.Args[len(we.Call.Args)-1]) == lastP {
							passes = true
						}
					}
				}
				if passes {
					val, ok = tv.Value.ExactString(), true
				}
			}
		}
		_ = h
		return val, ok
	}
	ks := map[string]string{}
	for _, pt := range pts {
		if pt.k == "" {
			r.Undecided("packet.(*"+pt.name+").Type", 0, "not a constant return")
			continue
		}
		ks[pt.k] = pt.name
		for _, m := range []struct {
			meth string
			tgt  *types.Func
		}{{"Encode", encH}, {"Decode", decH}} {
			fi := c.P.ByObj[c.P.Method("packet", pt.name, m.meth)]
			if fi == nil {
				r.Undecided("packet.(*"+pt.name+")."+m.meth, 0, "not found")
				continue
			}
			k, ok := reach(fi, m.tgt)
			r.Check(fmt.Sprintf("packet.(*%s).%s:header type", pt.name, m.meth), ok && k == pt.k, fi.Decl.Pos(), 1, fmt.Sprintf("header type constant %q, Type() returns %q", k, pt.k))
		}
	}
	// Type.New, defaultFlags per constant
	newFn := c.P.ByObj[c.P.Method("packet", "Type", "New")]
	dfFn := c.P.ByObj[c.P.Method("packet", "Type", "defaultFlags")]
	if newFn == nil || dfFn == nil {
		r.Undecided("packet.Type.New/defaultFlags", 0, "not found")
		return
	}
	flag2 := map[string]bool{"Pubrel": true, "Subscribe": true, "Unsubscribe": true}
	for k := int64(0); k <= 15; k++ {
		recv := newFn.Obj.Type().(*types.Signature).Recv()
		in := c.P.TraceFunc(newFn, TraceOpts{Force: map[types.Object]Val{recv: vInt(k)}})
		want := ks[fmt.Sprint(k)]
		got := ""
		for _, t := range in.Traces {
			if t.Exit == ExitReturn && len(t.Results) == 2 {
				if call, ok := ast.Unparen(t.Results[0]).(*ast.CallExpr); ok {
					if f, ok := (&Interp{P: c.P, Info: newFn.Pkg.TypesInfo}).callee(&state{env: newEnv()}, call).(*types.Func); ok {
						if p, ok := f.Type().(*types.Signature).Results().At(0).Type().(*types.Pointer); ok {
							if n, ok := p.Elem().(*types.Named); ok {
								got = n.Obj().Name()
							}
						}
					}
				}
			}
		}
		r.Check(fmt.Sprintf("packet.(Type).New@%d", k), got == want && len(in.Traces) == 1, newFn.Decl.Pos(), len(in.Traces), fmt.Sprintf("New() yields %q, the type whose Type() is %d is %q", got, k, want))
		if want == "" {
			continue
		}
		drecv := dfFn.Obj.Type().(*types.Signature).Recv()
		din := c.P.TraceFunc(dfFn, TraceOpts{Force: map[types.Object]Val{drecv: vInt(k)}})
		okF := len(din.Traces) == 1
		for _, t := range din.Traces {
			wantF := int64(0)
			if flag2[want] {
				wantF = 2
			}
			if len(t.RVals) != 1 || t.RVals[0].K != VInt || t.RVals[0].I != wantF {
				okF = false
			}
		}
		r.Check(fmt.Sprintf("packet.(Type).defaultFlags@%s", want), okF || want == "Publish", dfFn.Decl.Pos(), len(din.Traces), "MQTT 3.1.1 table 2.2: flags 0010 for PUBREL, SUBSCRIBE, UNSUBSCRIBE, 0000 otherwise")
	}
	// Types()
	if tf := c.P.Func("packet.Types"); tf != nil {
		c.Touch(tf.Name)
		vals := map[string]bool{}
		ast.Inspect(tf.Decl.Body, func(m ast.Node) bool {
			if cl, ok := m.(*ast.CompositeLit); ok {
				for _, el := range cl.Elts {
					if tv, ok := tf.Pkg.TypesInfo.Types[el]; ok && tv.Value != nil {
						vals[tv.Value.ExactString()] = true
					}
				}
			}
			return true
		})
		same := len(vals) == len(ks)
		for k := range ks {
			if !vals[k] {
				same = false
			}
		}
		r.Check("packet.Types:lists the 14 constants", same && len(vals) == 14, tf.Decl.Pos(), 1, fmt.Sprintf("%d constants listed", len(vals)))
	}
	// decodeHeader: flag check for every type but PUBLISH
	dh := c.P.ByObj[decH]
	sig := decH.Type().(*types.Signature)
	tP := sig.Params().At(1)
	for k, name := range ks {
		var kv int64
		fmt.Sscan(k, &kv)
		in := c.P.TraceFunc(dh, TraceOpts{Force: map[types.Object]Val{tP: vInt(kv)}})
		checks := false
		for _, t := range in.Traces {
			for _, e := range t.Ev {
				if e.Kind == EvCond {
					if b, ok := ast.Unparen(e.Cond).(*ast.BinaryExpr); ok && b.Op == token.NEQ {
						if id, ok := ast.Unparen(b.X).(*ast.Ident); ok && strings.Contains(id.Name, "flag") {
							checks = true
						}
					}
				}
			}
		}
		r.Check("packet.decodeHeader@"+name+":flag check", checks == (name != "Publish"), dh.Decl.Pos(), len(in.Traces), "fixed-header flags are validated for every type except PUBLISH (whose flags carry dup/qos/retain)")
	}
}

func c01Const(c *Ctx, rule string) {
	r := c.Rule(rule, "TABLE", "varintLen thresholds 2^7/2^14/2^21/maxVarint=2^28-1; readVarint clamps to 4 bytes; detection window 2..5 bytes; length prefix limit 65535 with 2-byte width", 12)
	vl := c.P.Func("packet.varintLen")
	if vl == nil {
		r.Undecided("packet.varintLen", 0, "not found")
	} else {
		c.Touch(vl.Name)
		p := vl.Obj.Type().(*types.Signature).Params().At(0)
		for _, tc := range [][2]int64{{0, 1}, {127, 1}, {128, 2}, {16383, 2}, {16384, 3}, {2097151, 3}, {2097152, 4}, {268435455, 4}, {268435456, 0}} {
			in := c.P.TraceFunc(vl, TraceOpts{Force: map[types.Object]Val{p: vInt(tc[0])}})
			ok := len(in.Traces) == 1 && len(in.Traces[0].RVals) == 1 && in.Traces[0].RVals[0].K == VInt && in.Traces[0].RVals[0].I == tc[1]
			r.Check(fmt.Sprintf("packet.varintLen@%d", tc[0]), ok, vl.Decl.Pos(), len(in.Traces), fmt.Sprintf("expected %d", tc[1]))
		}
	}
	r.Check("packet.maxVarint", c.constInt("packet", "maxVarint") == 268435455, 0, 1, "maximum remaining length 268435455")
	// readVarint: a remaining length occupies 1..4 bytes — every successful path of readVarint consumes between
	// one and four bytes, whatever the implementation looks like (LIN engine, path summaries)
	if rv := c.P.Func("packet.readVarint"); rv != nil {
		c.Touch(rv.Name)
		la := c.P.newLin()
		sum := la.summary(rv.Obj, false)
		ok, nOK := sum != nil && len(sum.undec) == 0, 0
		why := ""
		if sum != nil {
			for _, p := range sum.paths {
				if len(p.results) != 3 || p.results[2] == nil || p.results[2].kind != lkErr || p.results[2].nil_ != -1 {
					continue // error path (or undetermined): nothing is accepted there
				}
				nOK++
				if p.results[1] == nil || p.results[1].kind != lkInt || !la.prove(p.cons, p.results[1].lin.sub(leConst(1))) || !la.prove(p.cons, leConst(4).sub(p.results[1].lin)) {
					ok, why = false, "a successful path may consume fewer than 1 or more than 4 bytes"
				}
			}
		}
		r.Check("packet.readVarint:4-byte clamp", ok && nOK > 0, rv.Decl.Pos(), nOK, "a remaining length is at most 4 bytes (== largest varintLen): "+why)
	} else {
		r.Undecided("packet.readVarint", 0, "not found")
	}
	// Decoder.Read detection window: the header is looked at with Peek(n), n = 2, 3, 4, 5 in this order (2 = the
	// smallest packet, 5 = type byte + 4 length bytes), and detection gives up only beyond 5 — decided with the LIN
	// engine on whatever loop form the function uses
	if rd := c.P.ByObj[c.P.Method("packet", "Decoder", "Read")]; rd != nil {
		c.Touch(rd.Name)
		ovErr := c.P.Global("packet", "ErrDetectionOverflow")
		isPeek := func(callee types.Object) bool {
			f, ok := callee.(*types.Func)
			return ok && f.FullName() == "(*bufio.Reader).Peek"
		}
		var peekVar types.Object
		first := c.P.newLin()
		first.OnCall = func(a *linAnalysis, st *lstate, fn string, call *ast.CallExpr, callee types.Object, args []*lval) {
			if fn == rd.Name && isPeek(callee) && len(call.Args) == 1 {
				if id, ok := ast.Unparen(call.Args[0]).(*ast.Ident); ok {
					peekVar = rd.Pkg.TypesInfo.ObjectOf(id)
				}
			}
		}
		first.summary(rd.Obj, true)
		la := c.P.newLin()
		nPeek, peekOK, nOv, ovOK := 0, true, 0, true
		la.OnCall = func(a *linAnalysis, st *lstate, fn string, call *ast.CallExpr, callee types.Object, args []*lval) {
			if fn != rd.Name || !isPeek(callee) || len(args) != 1 {
				return
			}
			nPeek++
			if args[0].kind != lkInt || !a.prove(st.cons, args[0].lin.sub(leConst(2))) || !a.prove(st.cons, leConst(5).sub(args[0].lin)) {
				peekOK = false
			}
		}
		la.OnReturn = func(a *linAnalysis, st *lstate, fn string, ret *ast.ReturnStmt) {
			if fn != rd.Name {
				return
			}
			for _, res := range ret.Results {
				if id, ok := ast.Unparen(res).(*ast.Ident); ok && rd.Pkg.TypesInfo.ObjectOf(id) == ovErr && ovErr != nil {
					nOv++
					v := st.env[peekVar]
					if peekVar == nil || v == nil || v.kind != lkInt || !a.prove(st.cons, v.lin.sub(leConst(6))) {
						ovOK = false
					}
				}
			}
		}
		sum := la.summary(rd.Obj, true)
		start, step := false, false
		for _, lf := range la.Loops {
			if lf.Fn == rd.Name && lf.Var == peekVar && peekVar != nil {
				start = lf.EntryOK && lf.Entry == 2
				step = lf.StepOne
			}
		}
		und := sum == nil || len(sum.undec) > 0 || peekVar == nil
		r.Check("packet.(*Decoder).Read:detection 2..5", !und && nPeek > 0 && peekOK && nOv > 0 && ovOK && start && step, rd.Decl.Pos(), la.Paths,
			fmt.Sprintf("header detection must Peek 2,3,4,5 bytes in this order and give up only beyond 5: Peek sites %d (all within 2..5: %v), starts at 2: %v, grows by one per attempt: %v, overflow returns %d (only when the length exceeds 5: %v)", nPeek, peekOK, start, step, nOv, ovOK))
	}
	// length prefix: writeLPBytes accepts exactly the lengths 0..65535 (given a large enough buffer) and consumes
	// 2 + len bytes — decided on the path summaries of the function (LIN), whatever the checks look like
	if wl := c.P.Func("packet.writeLPBytes"); wl != nil {
		c.Touch(wl.Name)
		la := c.P.newLin()
		sum := la.summary(wl.Obj, false)
		lim, width := false, false
		why := ""
		if sum != nil && len(sum.undec) == 0 && len(sum.params) >= 2 && sum.params[0].kind == lkSeq && sum.params[1].kind == lkSeq {
			bufLen, dataLen := sum.params[0].ln, sum.params[1].ln
			lim, width = true, true
			nOK := 0
			for _, p := range sum.paths {
				if len(p.results) != 2 || p.results[1] == nil || p.results[1].kind != lkErr {
					lim, why = false, "a path with untracked results"
					continue
				}
				errNil := p.results[1].nil_
				// (1) with 0 <= len <= 65535 and room for 2+len bytes no path may fail
				small := append(append([]LE{}, p.cons...), leConst(65535).sub(dataLen), bufLen.sub(dataLen).sub(leConst(2)))
				bs := 100000
				if !infeasible(small, &bs) && errNil != -1 {
					lim, why = false, "a length within 0..65535 can be refused although the buffer is large enough"
				}
				// (2) with len >= 65536 no path may succeed
				big := append(append([]LE{}, p.cons...), dataLen.sub(leConst(65536)))
				bb := 100000
				if !infeasible(big, &bb) && errNil != 1 {
					lim, why = false, "a length above 65535 can be accepted (the 2-byte prefix cannot hold it)"
				}
				// (3) a successful path consumes exactly 2 + len bytes
				if errNil == -1 {
					nOK++
					n := p.results[0]
					full := append(append([]LE{}, p.cons...), bufLen.sub(dataLen).sub(leConst(2)))
					// (exact equality with 2 + len is the SIZE rule's business: copy() is modelled as "at most")
					if n == nil || n.kind != lkInt || !la.prove(full, n.lin.sub(leConst(2))) || !la.prove(full, dataLen.add(leConst(2)).sub(n.lin)) {
						width, why = false, "a successful path does not account for a 2-byte prefix plus at most len bytes"
					}
				}
			}
			if nOK == 0 {
				lim, why = false, "no successful path"
			}
		} else {
			why = "writeLPBytes could not be summarised"
		}
		r.Check("packet.writeLPBytes:65535 limit, 2-byte prefix", lim && width, wl.Decl.Pos(), 1, "strings/bytes longer than 65535 are refused, everything up to 65535 is accepted, and the prefix is 2 bytes wide: "+why)
	}
	if rl := c.P.Func("packet.readLPBytes"); rl != nil {
		c.Touch(rl.Name)
		width := false
		ast.Inspect(rl.Decl.Body, func(m ast.Node) bool {
			if call, ok := m.(*ast.CallExpr); ok && len(call.Args) == 3 {
				if tv, has := rl.Pkg.TypesInfo.Types[call.Args[1]]; has && tv.Value != nil && tv.Value.ExactString() == "2" {
					width = true
				}
			}
			return true
		})
		r.Check("packet.readLPBytes:2-byte prefix", width, rl.Decl.Pos(), 1, "the reader uses the writer's prefix width")
	}
}

// ------------------------------------------------------------------ C02

const c02Explanation = "Static analysis of the decoders: (OWN, SSA origin tracing) every value stored into a []byte or string field of a decoded packet is fresh (make+copy, or a []byte→string conversion), never a sub-slice of the input buffer and never produced through unsafe; unsafe is used only by packet.cast, whose callers are write helpers; " +
	"(ADMIT) for every valuation (topic empty/non-empty, QoS) under which Publish.Encode / Connect.Encode(will) has no success path, the decoder has none either (an admitted application message can be re-encoded); (EXTENT) after decodeHeader every decoder confines its reads to the header-declared extent (buffer re-sliced to hl+rl, or a constant number of bytes after rl was compared with that constant, or a loop bounded by rl); (INTBOUNDS) slice bounds in package packet are computed in int. " +
	"(BOUNDS/CONSUMED/TERMINATES, LIN engine: relational abstract interpretation over linear inequalities with callee summaries, inductive loop invariants and Fourier–Motzkin refutation) for EVERY input buffer: no index, slice, make/Grow size or encoding/binary precondition reachable from a Decode method, DetectPacket or Decoder.Read can be out of range, every Decode returns 0 <= n <= len(src) on success and on error, and every loop there has a linear ranking function. " +
	"Accept-equivalence with a reference decoder is not decided."

func propC02(c *Ctx) string {
	c02Own(c)
	c02Admit(c, "C02/ADMIT")
	c02Extent(c)
	c02IntBounds(c)
	c02Bounds(c, "C02")
	c02Pool(c, "C02/POOL")
	c01Const(c, "C02/CONST")
	c01HdrBound(c, "C02/HDRBOUND")
	c.NotDecide("accept ≡ reference decoder with identical fields",
		"semantic validation details (reserved bits, flag consistency) beyond the encoder/decoder agreement on application messages",
		"panics other than out-of-range index/slice, negative make/Grow sizes and encoding/binary preconditions (nil dereference, failed type assertion: see C14/ASSERT; explicit panic(): see C14/PANIC)")
	c.Assume("Go's []byte→string conversion copies", "decodeHeader guarantees rl <= len(src)-hl (checked in header.go, relied on by EXTENT; proved by BOUNDS)",
		"LIN: machine-integer overflow is not modelled (every tracked quantity is bounded by a buffer length or by 2^28); contracts of encoding/binary (UintN needs N/8 bytes, Uvarint returns n <= len(buf) and a value < 2^(7*len(buf))), bytes.Buffer (Reset: len 0; Grow(n): cap >= len+n, panics for n < 0), copy, append, make as listed in a_lin2.go")
	return c02Explanation
}

func c02Own(c *Ctx) {
	r := c.Rule("C02/OWN", "ORIGIN(SSA)", "every store into a []byte/string field of a packet type inside Decode and its helpers has a FRESH origin; unsafe only in packet.cast, called only from write helpers", 10)
	prog, _ := c.P.SSA()
	pk := c.P.Pkgs["packet"]
	if pk == nil {
		r.Undecided("packet", 0, "not loaded")
		return
	}
	// functions reachable from Decode methods
	var roots []*ssa.Function
	for _, pt := range c.packetTypes() {
		if m := c.P.Method("packet", pt.name, "Decode"); m != nil {
			if fn := prog.FuncValue(m); fn != nil {
				roots = append(roots, fn)
			}
		}
	}
	seen := map[*ssa.Function]bool{}
	stack := append([]*ssa.Function{}, roots...)
	for len(stack) > 0 {
		fn := stack[len(stack)-1]
		stack = stack[:len(stack)-1]
		if fn == nil || seen[fn] || fn.Pkg == nil || fn.Pkg.Pkg != pk.Types {
			continue
		}
		seen[fn] = true
		for _, b := range fn.Blocks {
			for _, ins := range b.Instrs {
				if call, ok := ins.(*ssa.Call); ok {
					if sc := call.Common().StaticCallee(); sc != nil {
						stack = append(stack, sc)
					}
				}
			}
		}
	}
	owners := map[string]bool{"Message": true, "Subscription": true}
	for _, pt := range c.packetTypes() {
		owners[pt.name] = true
	}
	var fns []*ssa.Function
	for fn := range seen {
		fns = append(fns, fn)
	}
	sort.Slice(fns, func(i, j int) bool { return fns[i].Pos() < fns[j].Pos() })
	ord := map[string]int{}
	for _, fn := range fns {
		if o, ok := fn.Object().(*types.Func); ok {
			c.Touch(FuncName(o))
		}
		for _, b := range fn.Blocks {
			for _, ins := range b.Instrs {
				st, ok := ins.(*ssa.Store)
				if !ok {
					continue
				}
				fa, ok := st.Addr.(*ssa.FieldAddr)
				if !ok {
					continue
				}
				f := fieldOf(fa.X.Type(), fa.Field)
				if f == nil || f.Pkg() != pk.Types {
					continue
				}
				owner := ""
				ot0 := fa.X.Type()
				if pp, ok := ot0.Underlying().(*types.Pointer); ok {
					ot0 = pp.Elem()
				}
				if nn, ok := ot0.(*types.Named); ok {
					owner = nn.Obj().Name()
				}
				if !owners[owner] {
					continue
				}
				isBytes := false
				if sl, ok := f.Type().Underlying().(*types.Slice); ok {
					if bb, ok := sl.Elem().Underlying().(*types.Basic); ok && bb.Kind() == types.Byte {
						isBytes = true
					}
				}
				if !isBytes && !isString(f.Type()) {
					continue
				}
				ot := c.P.newOriginTracer()
				ot.pruneConst = true
				os := ot.origins(st.Val, nil, 0)
				bad := ""
				for _, o := range os {
					switch o.Kind {
					case OFresh:
					case OField:
						if o.Field != f { // appending to the field itself keeps ownership
							bad = o.String()
						}
					default:
						bad = o.String()
					}
				}
				name := fn.Name()
				if o, ok := fn.Object().(*types.Func); ok {
					name = FuncName(o)
				}
				key := fmt.Sprintf("%s:store %s", name, f.Name())
				ord[key]++
				if ord[key] > 1 {
					key = fmt.Sprintf("%s#%d", key, ord[key])
				}
				r.Check(key, bad == "", st.Pos(), ot.work, "the decoded packet does not own this field: origin "+bad+" — reuse of the input buffer (Decoder.Read returns it to a pool) changes the packet afterwards; origins: "+strings.Join(originStrings(os), ", "))
			}
		}
	}
	// unsafe inventory
	ru := c.Rule("C02/UNSAFE", "WHO", "package unsafe is used only in packet.cast; cast is called only from write helpers (never on a decode path)", 2)
	for _, p := range c.P.All {
		for _, f := range p.Syntax {
			if strings.HasSuffix(c.P.Fset.File(f.Pos()).Name(), "_test.go") {
				continue
			}
			for _, d := range f.Decls {
				fd, ok := d.(*ast.FuncDecl)
				if !ok || fd.Body == nil {
					continue
				}
				uses := false
				ast.Inspect(fd.Body, func(m ast.Node) bool {
					if sel, ok := m.(*ast.SelectorExpr); ok {
						if id, ok := sel.X.(*ast.Ident); ok {
							if pn, ok := p.TypesInfo.Uses[id].(*types.PkgName); ok && pn.Imported().Path() == "unsafe" {
								uses = true
							}
						}
					}
					return true
				})
				if uses {
					name := fd.Name.Name
					if o, _ := p.TypesInfo.Defs[fd.Name].(*types.Func); o != nil {
						name = FuncName(o)
					}
					ru.Check(name+":uses unsafe", name == "packet.cast", fd.Pos(), 1, "unsafe conversions outside packet.cast")
				}
			}
		}
	}
	castFn, _ := c.P.Global("packet", "cast").(*types.Func)
	if castFn != nil {
		for _, fi := range c.P.LibFuncsAll("packet") {
			if fi.Decl.Body == nil {
				continue
			}
			calls := false
			ast.Inspect(fi.Decl.Body, func(m ast.Node) bool {
				if call, ok := m.(*ast.CallExpr); ok {
					if f, _ := (&Interp{P: c.P, Info: fi.Pkg.TypesInfo}).callee(&state{env: newEnv()}, call).(*types.Func); f == castFn {
						calls = true
					}
				}
				return true
			})
			if calls {
				fn := prog.FuncValue(fi.Obj)
				ru.Check(fi.Name+":calls cast", !seen[fn] && strings.HasPrefix(fi.Obj.Name(), "write"), fi.Decl.Pos(), 1, "the zero-copy string→bytes view must only feed writers")
			}
		}
	}
}

// c02Admit also serves C14/ADMIT.
func c02Admit(c *Ctx, rule string) {
	r := c.Rule(rule, "TRACE(table)", "decoder admits ⊆ encoder admits for application messages: under a valuation (topic empty/non-empty × QoS) where Publish.Encode / Connect.Encode (will) has no success path, Publish.Decode / Connect.Decode (will) has none", 10)
	mf := c.msgFields()
	willF := c.P.Field("packet", "Connect", "Will")
	for _, tn := range []string{"Publish", "Connect"} {
		enc := c.P.ByObj[c.P.Method("packet", tn, "Encode")]
		dec := c.P.ByObj[c.P.Method("packet", tn, "Decode")]
		if enc == nil || dec == nil {
			r.Undecided("packet."+tn, 0, "Encode/Decode not found")
			continue
		}
		c.Touch(enc.Name)
		c.Touch(dec.Name)
		// aliases of the topic on the decode side: variables stored into Message.Topic
		force0 := map[types.Object]bool{mf.msgTopic: true}
		din0 := c.traces(dec)
		dh := &Interp{P: c.P, Info: dec.Pkg.TypesInfo}
		for _, t := range din0.Traces {
			for _, e := range t.Ev {
				if e.Kind == EvAssign && e.LObj == mf.msgTopic && e.RHS != nil {
					if o := evRHSObj(dh, e); o != nil {
						force0[o] = true
					}
				}
			}
		}
		for _, topicEmpty := range []bool{true, false} {
			for q := int64(0); q <= 3; q++ {
				tv := Val{K: VNonEmpty}
				if topicEmpty {
					tv = Val{K: VEmpty}
				}
				key := fmt.Sprintf("packet.(*%s)@Topic=%s,QOS=%d", tn, tv, q)
				// encoder
				einit := map[types.Object]Val{mf.msgTopic: tv, mf.msgQOS: vInt(q)}
				if tn == "Connect" {
					einit[willF] = Val{K: VNonNil}
					einit[c.P.Field("packet", "Connect", "Version")] = vInt(4)
					einit[c.P.Field("packet", "Connect", "CleanSession")] = vBool(true)
				}
				ein := c.P.TraceFunc(enc, TraceOpts{Init: einit})
				encOK := false
				for _, t := range ein.Traces {
					if t.Exit == ExitReturn && len(t.Results) == 2 {
						if tvv, ok := enc.Pkg.TypesInfo.Types[t.Results[1]]; ok && tvv.IsNil() {
							encOK = true
						}
					}
				}
				// under an admitted valuation with every other field well-formed the encoder must not refuse the message
				// for a reason of its own (a constructed error in Encode itself): a validation the decoder does not have
				// makes an admitted message unforwardable
				if !topicEmpty && q <= 2 {
					winit := map[types.Object]Val{}
					for k, v := range einit {
						winit[k] = v
					}
					if idf := c.P.Field("packet", tn, "ID"); idf != nil {
						winit[idf] = vInt(1)
					}
					if tn == "Connect" {
						winit[c.P.Field("packet", "Connect", "ClientID")] = Val{K: VNonEmpty}
						winit[c.P.Field("packet", "Connect", "Username")] = Val{K: VEmpty}
						winit[c.P.Field("packet", "Connect", "Password")] = Val{K: VEmpty}
					}
					win := c.P.TraceFunc(enc, TraceOpts{Init: winit})
					var own *Trace
					reason := ""
					for _, t := range win.Traces {
						if t.Exit != ExitReturn || len(t.Results) != 2 {
							continue
						}
						call, isCall := ast.Unparen(t.Results[1]).(*ast.CallExpr)
						if !isCall {
							continue
						}
						if f, ok := typeutilCallee(enc.Pkg.TypesInfo, call).(*types.Func); !ok || (f.Name() != "makeError" && f.Pkg() != nil && f.Pkg().Name() == "packet" && f.Name() == "insufficientBufferSize") {
							continue
						}
						own = t
						for _, e := range t.Ev {
							if e.Kind == EvCond && e.Cond != nil {
								reason = c.P.exprStr(e.Cond) + fmt.Sprintf(" = %v", e.Outcome)
							}
						}
					}
					r.Check(key+":encoder has no refusal of its own", own == nil && len(win.Traces) > 0, enc.Decl.Pos(), len(win.Traces),
						"the encoder refuses a well-formed application message under a condition outside the admit table ("+reason+"): the decoder admits it, forwarding it fails", shortWitness(c.witness(own))...)
				}
				// decoder
				force := map[types.Object]Val{mf.msgQOS: vInt(q)}
				for o := range force0 {
					force[o] = tv
				}
				if tn == "Connect" {
					// the will QoS is decoded into a local first: force every variable of type QOS too
					ast.Inspect(dec.Decl.Body, func(m ast.Node) bool {
						if id, ok := m.(*ast.Ident); ok {
							if o := dec.Pkg.TypesInfo.Defs[id]; o != nil && typeStr(o.Type()) == "packet.QOS" {
								force[o] = vInt(q)
							}
						}
						return true
					})
				}
				din := c.P.TraceFunc(dec, TraceOpts{Force: force})
				if c.undecidedIfOver(r, din, key) {
					continue
				}
				var admit *Trace
				for _, t := range din.Traces {
					if t.Exit != ExitReturn || len(t.Results) != 2 {
						continue
					}
					if tvv, ok := dec.Pkg.TypesInfo.Types[t.Results[1]]; !ok || !tvv.IsNil() {
						continue
					}
					if tn == "Connect" {
						// only paths that decode a will
						hasWill := false
						for _, e := range t.Ev {
							if e.Kind == EvAssign && e.LObj == willF && e.RVal.K == VNonNil {
								hasWill = true
							}
						}
						if !hasWill {
							continue
						}
					}
					admit = t
				}
				ok := encOK || admit == nil
				var w []string
				if !ok {
					w = c.witness(admit)
					if len(w) > 14 {
						w = append(w[:4], w[len(w)-8:]...)
					}
				}
				r.Check(key, ok, dec.Decl.Pos(), len(din.Traces)+len(ein.Traces),
					fmt.Sprintf("encoder admits=%v, decoder admits=%v: the decoder accepts an application message that can not be encoded again for forwarding (the encode error closes the connection of every subscriber it is forwarded to)", encOK, admit != nil), w...)
			}
		}
	}
}

func c02Extent(c *Ctx) {
	r := c.Rule("C02/EXTENT", "TRACE", "in every function that calls decodeHeader(src,K)→(hl,flags,rl,err): later reads stay inside the declared extent — src is re-sliced to [:hl+rl] before any field read, or rl is compared with a constant N and exactly N bytes are read, or the reads are a loop bounded by rl-N after N bytes", 8)
	decH, _ := c.P.Global("packet", "decodeHeader").(*types.Func)
	if decH == nil {
		r.Undecided("packet.decodeHeader", 0, "not found")
		return
	}
	readFns := map[string]bool{"readUint": true, "readUint8": true, "readLPString": true, "readLPBytes": true, "readVarint": true}
	for _, fi := range c.P.LibFuncs("packet") {
		if fi.Decl.Body == nil || fi.Obj == decH {
			continue
		}
		in := c.traces(fi)
		calls := false
		for _, t := range in.Traces {
			if t.has(callTo(decH)) {
				calls = true
			}
		}
		if !calls {
			continue
		}
		h := &Interp{P: c.P, Info: fi.Pkg.TypesInfo}
		sig := fi.Obj.Type().(*types.Signature)
		srcP := sig.Params().At(0)
		var bad *Trace
		why := ""
		nsucc := 0
		loopOK := false
		for _, t := range in.Traces {
			if di := t.first(callTo(decH)); di >= 0 && di+1 < len(t.Ev) {
				if as, ok := t.Ev[di+1].Node.(*ast.AssignStmt); ok && len(as.Lhs) == 4 {
					if rl := h.objOf(as.Lhs[2]); rl != nil && c.loopBoundedByRl(fi, t, di, rl) {
						loopOK = true
					}
				}
			}
		}
		for _, t := range in.Traces {
			if t.Exit != ExitReturn || len(t.Results) != 2 {
				continue
			}
			if tv, ok := fi.Pkg.TypesInfo.Types[t.Results[1]]; !ok || !tv.IsNil() {
				// `return hl, err` forms: success unless err is known non-nil / a constructed error
				o := h.objOf(t.Results[1])
				if o == nil || t.Env.vals[o].K == VNonNil {
					continue
				}
			}
			nsucc++
			di := t.first(callTo(decH))
			// variables bound to hl (result 0) and rl (result 2)
			var hlV, rlV types.Object
			k := 0
			for _, a := range t.Ev[di+1:] {
				if a.Kind == EvAssign && ast.Unparen(a.RHS) == ast.Expr(t.Ev[di].Call) {
					if k == 0 {
						hlV = a.LObj
					}
					if k == 2 {
						rlV = a.LObj
					}
					k++
				} else if a.Kind != EvAssign {
					break
				}
			}
			// positional: the AssignStmt's Lhs
			if as, ok := t.Ev[di+1].Node.(*ast.AssignStmt); ok && len(as.Lhs) == 4 {
				hlV, rlV = h.objOf(as.Lhs[0]), h.objOf(as.Lhs[2])
			}
			// reads after the header
			sliced := false
			nRead, constBytes, loopReads := 0, int64(0), false
			for i := di + 1; i < len(t.Ev); i++ {
				e := t.Ev[i]
				if e.Kind == EvAssign && e.LObj == srcP {
					if sl, ok := ast.Unparen(e.RHS).(*ast.SliceExpr); ok && h.objOf(sl.X) == srcP && sl.Low == nil && sl.High != nil {
						if b, ok := ast.Unparen(sl.High).(*ast.BinaryExpr); ok && b.Op == token.ADD {
							x, y := h.objOf(b.X), h.objOf(b.Y)
							if hlV != nil && rlV != nil && ((x == hlV && y == rlV) || (x == rlV && y == hlV)) && nRead == 0 {
								sliced = true
							}
						}
					}
				}
				if e.Kind == EvCall {
					if f, ok := e.Callee.(*types.Func); ok && f.Pkg() != nil && f.Pkg().Name() == "packet" && readFns[f.Name()] {
						nRead++
						if len(t.loopsAt(i)) > 0 {
							loopReads = true
						}
						switch f.Name() {
						case "readUint":
							if e.ArgVals[1].K == VInt {
								constBytes += e.ArgVals[1].I
							} else {
								constBytes = -1 << 30
							}
						case "readUint8":
							constBytes++
						default:
							constBytes = -1 << 30
						}
					}
				}
			}
			if nRead == 0 || sliced {
				continue
			}
			// constant form: rl tested against a constant equal to the bytes read
			rlConst := int64(-1)
			if rlV != nil {
				if v, ok := t.Env.vals[rlV]; ok && v.K == VInt {
					rlConst = v.I
				}
			}
			if rlConst >= 0 && constBytes == rlConst && !loopReads {
				continue
			}
			// loop form: N bytes, then `for i := 0; i < B; i++ { readUint8 }` with B := rl - N
			if loopReads && rlV != nil && c.loopBoundedByRl(fi, t, di, rlV) {
				continue
			}
			if !loopReads && loopOK && constBytes >= 0 {
				continue // the zero-iteration variant of a loop bounded by rl
			}
			if rlV == nil {
				bad, why = t, "the remaining length returned by decodeHeader is discarded: the packet reads whatever follows it in the buffer"
			} else {
				bad, why = t, fmt.Sprintf("%d field reads after the header are not confined to the declared extent hl+rl (the buffer is not re-sliced; rl is not pinned to the %d bytes read)", nRead, constBytes)
			}
		}
		r.Check(fi.Name+":reads confined to hl+rl", bad == nil && nsucc > 0, fi.Decl.Pos(), len(in.Traces), why, shortWitness(c.witness(bad))...)
	}
}

func shortWitness(w []string) []string {
	if len(w) > 16 {
		return append(append([]string{}, w[:6]...), w[len(w)-8:]...)
	}
	return w
}

func c02IntBounds(c *Ctx) {
	r := c.Rule("C02/INTBOUNDS", "TABLE", "every slice bound and index expression on a byte buffer in package packet has type int (a narrower unsigned type wraps around for 65534/65535-byte fields)", 20)
	pk := c.P.Pkgs["packet"]
	if pk == nil {
		return
	}
	intT := types.Typ[types.Int]
	for _, fi := range c.P.LibFuncsAll("packet") {
		if fi.Decl.Body == nil {
			continue
		}
		n, bad := 0, ""
		var pos token.Pos
		ast.Inspect(fi.Decl.Body, func(m ast.Node) bool {
			sl, ok := m.(*ast.SliceExpr)
			if !ok {
				return true
			}
			for _, b := range []ast.Expr{sl.Low, sl.High, sl.Max} {
				if b == nil {
					continue
				}
				n++
				t := pk.TypesInfo.TypeOf(b)
				if t == nil {
					continue
				}
				if bt, ok := t.Underlying().(*types.Basic); ok && (bt.Info()&types.IsUntyped != 0 || types.Identical(t, intT)) {
					continue
				}
				bad, pos = c.P.exprStr(b)+" has type "+typeStr(t), b.Pos()
			}
			return true
		})
		if n > 0 {
			c.Touch(fi.Name)
			r.Check(fi.Name+":slice bounds are int", bad == "", pos, n, bad)
		}
	}
}

// ------------------------------------------------------------------ C03

const c03Explanation = "Static analysis of stream framing: (LIMIT) in Decoder.Read the comparison of the detected length with the read limit precedes buffer growth, the pool slice and io.ReadFull on every path, and under (limit>0, length>limit) none of them is reached; (NOPKT) every path of Decoder.Read / BaseConn.Receive that saw an error returns a nil packet; the only packet-returning path passed Decode→ok; " +
	"(SHIP) Encoder.Write hands exactly the slice it encoded — buffer.Bytes()[0:Len()] after Grow(Len()) — to the one buffered writer and writes nothing else; (DETECT) detection window constants; (WSPROG) wsStream.Read drops its message reader only when that reader reported io.EOF. Invariance under fragmentation, exact wire bytes under async flushing and WebSocket stitching depend on bufio/mercury/gorilla and are not decided."

func propC03(c *Ctx) string {
	c03Limit(c)
	c03NoPkt(c)
	c03Ship(c)
	c03WS(c)
	c03WSLimit(c)
	c02Pool(c, "C03/POOL")
	c01Const(c, "C03/DETECT")
	// Encoder.Write ships buf[:Len()] of a pooled buffer: if Len() and Encode disagree, stale bytes go on the wire
	c01Size(c)
	c.NotDecide("identical packets under every fragmentation/coalescing of the byte stream (behaviour of bufio.Reader, io.ReadFull)", "wire bytes == concatenation of encodings under async flush timing (mercury.Writer)", "WebSocket message stitching beyond the reader-switch rule (gorilla/websocket)")
	c.Assume("bufio.Reader.Peek/io.ReadFull semantics", "mercury.Writer is a FIFO byte stream")
	return c03Explanation
}

// c03WSLimit: the read limit is a per-packet limit enforced by Decoder.Read on the byte stream. A WebSocket
// message may carry several packets (and a packet may span messages), so a message-size limit on the carrier
// refuses coalesced packets that are each within the limit. Zero-count rule over package transport; the target
// method is resolved through the package's own import of gorilla/websocket (unresolved => undecided).
func c03WSLimit(c *Ctx) {
	r := c.Rule("C03/WSLIMIT", "WHO", "package transport never imposes a message-size limit on the WebSocket carrier ((*websocket.Conn).SetReadLimit with a possibly positive argument): the packet read limit is enforced per packet by the stream decoder only", 1)
	tp := c.P.Pkgs["transport"]
	if tp == nil {
		r.Undecided("transport", 0, "package not loaded")
		return
	}
	var target *types.Func
	for _, imp := range tp.Types.Imports() {
		if strings.HasSuffix(imp.Path(), "gorilla/websocket") {
			if tn, ok := imp.Scope().Lookup("Conn").(*types.TypeName); ok {
				if named, ok := tn.Type().(*types.Named); ok {
					for i := 0; i < named.NumMethods(); i++ {
						if named.Method(i).Name() == "SetReadLimit" {
							target = named.Method(i)
						}
					}
				}
			}
		}
	}
	if target == nil {
		r.Undecided("transport:websocket.Conn.SetReadLimit", 0, "the WebSocket library's message limit method does not resolve (library replaced?): the rule cannot be instantiated")
		return
	}
	n := 0
	for _, f := range tp.Syntax {
		if strings.HasSuffix(c.P.Fset.File(f.Pos()).Name(), "_test.go") {
			continue
		}
		ast.Inspect(f, func(m ast.Node) bool {
			call, ok := m.(*ast.CallExpr)
			if !ok {
				return true
			}
			if fn, ok := typeutilCallee(tp.TypesInfo, call).(*types.Func); ok && fn == target {
				n++
				nonPositive := false
				if len(call.Args) == 1 {
					if tv, ok := tp.TypesInfo.Types[call.Args[0]]; ok && tv.Value != nil {
						if v, ok := constant.Int64Val(tv.Value); ok && v <= 0 {
							nonPositive = true
						}
					}
				}
				r.Check("transport:websocket.Conn.SetReadLimit call", nonPositive, call.Pos(), 1,
					"a message-size limit is set on the WebSocket carrier: a message that coalesces several packets, each within the packet read limit, is refused and all its packets are lost")
			}
			return true
		})
	}
	if n == 0 {
		r.Pass("transport:no websocket message limit", 0, 1, "zero call sites of "+target.FullName()+" in package transport (target method resolved through the package's import)")
	}
}

func c03Limit(c *Ctx) {
	r := c.Rule("C03/LIMIT", "TRACE", "Decoder.Read: limit check ≺ buffer.Grow / pool slice / io.ReadFull on every path; under (limit>0 ∧ length>limit) none of them is reached and ErrReadLimitExceeded is returned; the compared limit is loaded after the packet arrived", 4)
	fi := c.P.ByObj[c.P.Method("packet", "Decoder", "Read")]
	if fi == nil {
		r.Undecided("packet.(*Decoder).Read", 0, "not found")
		return
	}
	c.Touch(fi.Name)
	errLim := c.P.Global("packet", "ErrReadLimitExceeded")
	h := &Interp{P: c.P, Info: fi.Pkg.TypesInfo}
	isAlloc := func(e *Event) bool {
		if e.Kind != EvCall {
			return false
		}
		f, ok := e.Callee.(*types.Func)
		if !ok {
			return false
		}
		full := f.FullName()
		return full == "(*bytes.Buffer).Grow" || full == "io.ReadFull" || full == "(*sync.Pool).Get" || full == "io.ReadAtLeast"
	}
	// the limit variable: loaded with atomic.LoadInt64(&d.limit); the length: result 0 of DetectPacket
	in0 := c.traces(fi)
	var limV, lenV types.Object
	limF := c.P.Field("packet", "Decoder", "limit")
	for _, t := range in0.Traces {
		for i, e := range t.Ev {
			if e.Kind == EvCall && e.Callee != nil && e.Callee.Name() == "DetectPacket" {
				if as, ok := t.Ev[i+1].Node.(*ast.AssignStmt); ok && len(as.Lhs) >= 1 {
					lenV = h.objOf(as.Lhs[0])
				}
			}
			if e.Kind == EvAssign && e.RHS != nil {
				if call, ok := ast.Unparen(e.RHS).(*ast.CallExpr); ok && len(call.Args) == 1 {
					if u, ok := ast.Unparen(call.Args[0]).(*ast.UnaryExpr); ok && h.objOf(u.X) == limF {
						limV = e.LObj
					}
				}
			}
		}
	}
	if limV == nil || lenV == nil {
		r.Undecided(fi.Name, fi.Decl.Pos(), "cannot identify the loaded limit / detected length variables")
		return
	}
	// the comparison event: an undecided or decided condition mentioning both variables
	mentions := func(e ast.Expr) bool {
		a, b := false, false
		ast.Inspect(e, func(m ast.Node) bool {
			if id, ok := m.(*ast.Ident); ok {
				if o := h.objOf(id); o == limV {
					a = true
				} else if o == lenV {
					b = true
				}
			}
			return true
		})
		return a && b
	}
	// (1) order on all paths: the if statement containing the comparison precedes every allocation
	var cmpPos token.Pos
	ast.Inspect(fi.Decl.Body, func(m ast.Node) bool {
		if is, ok := m.(*ast.IfStmt); ok && mentions(is.Cond) && !cmpPos.IsValid() {
			cmpPos = is.Pos()
		}
		return true
	})
	okOrder := cmpPos.IsValid()
	var w *Trace
	for _, t := range in0.Traces {
		a := t.first(isAlloc)
		if a < 0 {
			continue
		}
		// the comparison must have been evaluated before: some cond event at the comparison
		seen := false
		for _, e := range t.Ev[:a] {
			if (e.Kind == EvCond || e.Kind == EvOutcome) && e.Cond != nil && cmpPos.IsValid() && e.Pos >= cmpPos && mentions0(h, e.Cond, limV, lenV) {
				seen = true
			}
		}
		if !seen {
			okOrder, w = false, t
		}
	}
	r.Check(fi.Name+":limit check≺allocation", okOrder, fi.Decl.Pos(), len(in0.Traces), "a packet is buffered before its length was compared with the read limit", shortWitness(c.witness(w))...)
	// (2) under limit>0 and length>limit: evaluate with an oracle
	oracle := func(in *Interp, st *state, e ast.Expr) (Val, bool) {
		b, ok := ast.Unparen(e).(*ast.BinaryExpr)
		if !ok {
			return unknown, false
		}
		hasLim, hasLen := false, false
		ast.Inspect(b, func(m ast.Node) bool {
			if id, ok := m.(*ast.Ident); ok {
				if o := in.objOf(id); o == limV {
					hasLim = true
				} else if o == lenV {
					hasLen = true
				}
			}
			return true
		})
		switch {
		case hasLim && hasLen:
			// evaluate the comparison with length=100, limit=10
			x, y := sideVal(in, b.X, limV, lenV), sideVal(in, b.Y, limV, lenV)
			if x != nil && y != nil {
				return vBool(cmpInts(b.Op, *x, *y)), true
			}
		case hasLim && !hasLen:
			x, y := sideVal(in, b.X, limV, lenV), sideVal(in, b.Y, limV, lenV)
			if x != nil && y != nil {
				return vBool(cmpInts(b.Op, *x, *y)), true
			}
		case hasLen && !hasLim:
			x, y := sideVal(in, b.X, limV, lenV), sideVal(in, b.Y, limV, lenV)
			if x != nil && y != nil {
				return vBool(cmpInts(b.Op, *x, *y)), true
			}
		}
		return unknown, false
	}
	in := c.P.TraceFunc(fi, TraceOpts{Oracle: oracle})
	okOver, nOver := true, 0
	w = nil
	for _, t := range in.Traces {
		if !t.has(func(e *Event) bool { return e.Kind == EvCall && e.Callee != nil && e.Callee.Name() == "DetectPacket" }) {
			continue
		}
		// only paths on which detection succeeded (length > 0 under the oracle)
		if t.has(isAlloc) {
			okOver, w = false, t
		}
		if t.Exit == ExitReturn && len(t.Results) == 2 && h.objOf(t.Results[1]) == errLim {
			nOver++
		}
	}
	r.Check(fi.Name+"@limit>0,length>limit", okOver && nOver > 0, fi.Decl.Pos(), len(in.Traces), "an over-limit packet reaches the buffer allocation / ReadFull, or is not refused with ErrReadLimitExceeded", shortWitness(c.witness(w))...)
	// (3) limit 0 disables the check
	oracle0 := func(in *Interp, st *state, e ast.Expr) (Val, bool) {
		if o := in.objOf(e); o == limV && o != nil {
			return vInt(0), true
		}
		return unknown, false
	}
	in2 := c.P.TraceFunc(fi, TraceOpts{Oracle: oracle0})
	ok0 := true
	for _, t := range in2.Traces {
		if t.Exit == ExitReturn && len(t.Results) == 2 && h.objOf(t.Results[1]) == errLim {
			ok0 = false
		}
	}
	r.Check(fi.Name+"@limit=0", ok0, fi.Decl.Pos(), len(in2.Traces), "a zero limit means unlimited")
	// (4) the limit that is compared is the limit configured when the packet arrives: no blocking read of the
	// underlying stream lies between the (atomic) load of the limit and the comparison. A load hoisted above the
	// Peek that waits for the next packet applies a stale limit to a packet that arrives after SetReadLimit.
	isStreamRead := func(e *Event) bool {
		if e.Kind != EvCall {
			return false
		}
		f, ok := e.Callee.(*types.Func)
		if !ok {
			return false
		}
		full := f.FullName()
		if full == "io.ReadFull" || full == "io.ReadAtLeast" {
			return true
		}
		if sig, ok := f.Type().(*types.Signature); ok && sig.Recv() != nil {
			if typeIs(sig.Recv().Type(), "bufio", "Reader", true) {
				return true
			}
		}
		return false
	}
	okFresh, nCmp := true, 0
	w = nil
	for _, t := range in0.Traces {
		cmp := -1
		for i, e := range t.Ev {
			if (e.Kind == EvCond || e.Kind == EvOutcome) && e.Cond != nil && mentions0(h, e.Cond, limV, nil) {
				cmp = i
				break
			}
		}
		if cmp < 0 {
			continue
		}
		nCmp++
		load := -1
		for i := cmp - 1; i >= 0; i-- {
			if e := t.Ev[i]; e.Kind == EvAssign && e.LObj == limV {
				load = i
				break
			}
		}
		if load < 0 {
			okFresh, w = false, t
			continue
		}
		for _, e := range t.Ev[load:cmp] {
			if isStreamRead(e) {
				okFresh, w = false, t
			}
		}
	}
	r.Check(fi.Name+":limit loaded after the packet arrived", okFresh && nCmp > 0, fi.Decl.Pos(), len(in0.Traces),
		"the limit is loaded before a blocking read of the stream and compared afterwards: a limit configured while the decoder waits is not applied to the packet that arrives next", shortWitness(c.witness(w))...)
}

func mentions0(h *Interp, e ast.Expr, a, b types.Object) bool {
	x, y := false, false
	ast.Inspect(e, func(m ast.Node) bool {
		if id, ok := m.(*ast.Ident); ok {
			if o := h.objOf(id); o == a {
				x = true
			} else if o == b {
				y = true
			}
		}
		return true
	})
	return x || y
}

// sideVal evaluates one side of a comparison under limit=10, length=100.
func sideVal(in *Interp, e ast.Expr, limV, lenV types.Object) *int64 {
	e = ast.Unparen(e)
	if call, ok := e.(*ast.CallExpr); ok && len(call.Args) == 1 {
		if tv, ok := in.Info.Types[call.Fun]; ok && tv.IsType() {
			return sideVal(in, call.Args[0], limV, lenV)
		}
	}
	if o := in.objOf(e); o != nil {
		if o == limV {
			v := int64(10)
			return &v
		}
		if o == lenV {
			v := int64(100)
			return &v
		}
	}
	if tv, ok := in.Info.Types[e]; ok && tv.Value != nil {
		if v, ok := constVal(tv); ok && v.K == VInt {
			return &v.I
		}
	}
	return nil
}

func c03NoPkt(c *Ctx) {
	r := c.Rule("C03/NOPKT", "TRACE", "Decoder.Read and BaseConn.Receive: an error return carries a nil packet; a packet is returned only after Decode→ok (resp. stream.Read→ok and resetTimeout→ok); Decode only sees a completely read buffer", 3)
	for _, name := range []string{"packet.(*Decoder).Read", "transport.(*BaseConn).Receive"} {
		fi := c.mustFunc(r, name)
		if fi == nil {
			continue
		}
		in := c.traces(fi)
		var bad *Trace
		why := ""
		nPkt := 0
		for _, t := range in.Traces {
			if t.Exit != ExitReturn || len(t.RVals) != 2 {
				continue
			}
			pv, ev := t.RVals[0], t.RVals[1]
			pktNil := pv.K == VNil
			errNil := ev.K == VNil
			if !errNil && !pktNil {
				bad, why = t, "a path returns a (possibly) non-nil error together with a packet"
			}
			if !pktNil {
				nPkt++
				// every error-returning call on the path was tested and found ok
				for _, e := range t.Ev {
					if e.Kind == EvCall {
						if f, ok := e.Callee.(*types.Func); ok {
							sg := f.Type().(*types.Signature)
							if sg.Results().Len() > 0 && isErrType(sg.Results().At(sg.Results().Len()-1).Type()) && t.errOutcome(e) == 1 {
								bad, why = t, "a packet is returned although "+FuncName(f)+" failed"
							}
							if (f.Name() == "Decode" || f.Name() == "Read" || f.Name() == "ReadFull") && t.errOutcome(e) != -1 && sg.Results().Len() > 0 {
								bad, why = t, "a packet is returned without checking the result of "+FuncName(f)
							}
						}
					}
				}
			}
		}
		r.Check(name+":error⇒nil packet", bad == nil && nPkt > 0, fi.Decl.Pos(), len(in.Traces), why, shortWitness(c.witness(bad))...)
		if name != "packet.(*Decoder).Read" {
			continue
		}
		// a packet is only decoded from a buffer that was filled completely: the slice handed to Decode is the
		// slice handed to io.ReadFull (or io.ReadAtLeast with min == len) whose error was tested — a read that can
		// return fewer bytes without an error (Read, ReadFrom, Copy) would decode stale bytes after a truncated stream
		h := &Interp{P: c.P, Info: fi.Pkg.TypesInfo}
		var w *Trace
		nDec := 0
		for _, t := range in.Traces {
			for i, e := range t.Ev {
				f, ok := e.Callee.(*types.Func)
				if e.Kind != EvCall || !ok || f.Name() != "Decode" || len(e.Call.Args) != 1 {
					continue
				}
				nDec++
				bufObj := h.objOf(e.Call.Args[0])
				full := false
				for _, p := range t.Ev[:i] {
					pf, ok := p.Callee.(*types.Func)
					if p.Kind != EvCall || !ok || len(p.Call.Args) < 2 {
						continue
					}
					if (pf.FullName() == "io.ReadFull" || pf.FullName() == "io.ReadAtLeast") && h.objOf(p.Call.Args[1]) == bufObj && bufObj != nil && t.errOutcome(p) == -1 {
						full = true
					}
				}
				if !full {
					w = t
				}
			}
		}
		r.Check(name+":Decode only after the whole packet was read", w == nil && nDec > 0, fi.Decl.Pos(), len(in.Traces),
			"the buffer handed to Decode is not the buffer of a successful io.ReadFull: a stream that ends inside a packet can yield a packet (decoded from stale bytes)", shortWitness(c.witness(w))...)
	}
}

func c03Ship(c *Ctx) {
	r := c.Rule("C03/SHIP", "TRACE+ORIGIN", "Encoder.Write: Grow(pkt.Len()) ≺ buf := buffer.Bytes()[0:pkt.Len()] ≺ pkt.Encode(buf)→ok ≺ writer.Write(buf)/WriteAndFlush(buf) on the single buffered writer; nothing else is written", 2)
	fi := c.P.ByObj[c.P.Method("packet", "Encoder", "Write")]
	if fi == nil {
		r.Undecided("packet.(*Encoder).Write", 0, "not found")
		return
	}
	c.Touch(fi.Name)
	in := c.traces(fi)
	h := &Interp{P: c.P, Info: fi.Pkg.TypesInfo}
	writerF := c.P.Field("packet", "Encoder", "writer")
	var bad *Trace
	why := ""
	nShip := 0
	for _, t := range in.Traces {
		var encBuf types.Object
		encIdx := -1
		for i, e := range t.Ev {
			if e.Kind != EvCall || e.Callee == nil {
				continue
			}
			f, _ := e.Callee.(*types.Func)
			if f == nil {
				continue
			}
			if f.Name() == "Encode" && len(e.Call.Args) == 1 {
				encBuf, encIdx = h.objOf(e.Call.Args[0]), i
			}
			// any write-like call
			if strings.HasPrefix(f.Name(), "Write") || f.Name() == "ReadFrom" {
				sel, ok := ast.Unparen(e.Call.Fun).(*ast.SelectorExpr)
				if !ok || h.objOf(sel.X) != writerF {
					bad, why = t, "bytes are written through something other than the encoder's buffered writer: "+c.P.exprStr(e.Call.Fun)+" (they can overtake or interleave with buffered packets)"
					continue
				}
				nShip++
				if encIdx < 0 || t.errOutcome(t.Ev[encIdx]) != -1 || len(e.Call.Args) != 1 || h.objOf(e.Call.Args[0]) != encBuf || encBuf == nil {
					bad, why = t, "the slice written is not the slice that was encoded (after a successful Encode)"
				}
			}
		}
		// the encoded slice is buffer.Bytes()[0:pkt.Len()]
		if encBuf != nil {
			okSlice := false
			for _, e := range t.Ev[:encIdx] {
				if e.Kind == EvAssign && e.LObj == encBuf {
					src := e.RHS
					if e.RetExpr != nil {
						src = e.RetExpr // the slice is cut by a helper that is interpreted in place
					}
					if sl, ok := ast.Unparen(src).(*ast.SliceExpr); ok && sl.High != nil {
						hi := sl.High
						if po := h.objOf(hi); po != nil {
							if ax, ok := t.Env.argEx[po]; ok {
								hi = ax // the helper's parameter stands for this argument
							}
						}
						sl = &ast.SliceExpr{X: sl.X, Low: sl.Low, High: hi}
						hv := h.objOf(sl.High)
						// High is the variable holding pkt.Len(), or the call itself
						for _, p := range t.Ev {
							if p.Kind == EvAssign && p.LObj == hv && hv != nil {
								if call, ok := ast.Unparen(p.RHS).(*ast.CallExpr); ok {
									if s2, ok := ast.Unparen(call.Fun).(*ast.SelectorExpr); ok && s2.Sel.Name == "Len" {
										okSlice = true
									}
								}
							}
						}
						if call, ok := ast.Unparen(sl.High).(*ast.CallExpr); ok {
							if s2, ok := ast.Unparen(call.Fun).(*ast.SelectorExpr); ok && s2.Sel.Name == "Len" {
								okSlice = true
							}
						}
					}
				}
			}
			if !okSlice {
				bad, why = t, "the encode buffer is not buffer.Bytes()[0:pkt.Len()]"
			}
		}
	}
	r.Check(fi.Name+":ships the encoded slice", bad == nil && nShip >= 2, fi.Decl.Pos(), len(in.Traces), why, shortWitness(c.witness(bad))...)
	// BaseConn.Send uses the stream's Write only
	if bs := c.P.Func("transport.(*BaseConn).Send"); bs != nil {
		c.Touch(bs.Name)
		bin := c.traces(bs)
		ok := true
		for _, t := range bin.Traces {
			for _, e := range t.Ev {
				if e.Kind == EvCall && e.Callee != nil && strings.HasPrefix(e.Callee.Name(), "Write") {
					if f, isF := e.Callee.(*types.Func); !isF || FuncName(f) != "packet.(*Encoder).Write" {
						ok = false
					}
				}
			}
		}
		r.Check(bs.Name+":only stream.Write", ok, bs.Decl.Pos(), len(bin.Traces), "a connection sends packets only through its stream encoder")
	}
}

func c03WS(c *Ctx) {
	r := c.Rule("C03/WSPROG", "TRACE", "wsStream.Read: the current message reader is dropped (set to nil) only on a path where its Read reported io.EOF, and after EOF it is always dropped before the loop continues", 1)
	fi := c.P.Func("transport.(*wsStream).Read")
	if fi == nil {
		r.Undecided("transport.(*wsStream).Read", 0, "not found")
		return
	}
	c.Touch(fi.Name)
	in := c.traces(fi)
	h := &Interp{P: c.P, Info: fi.Pkg.TypesInfo}
	readerF := c.P.Field("transport", "wsStream", "reader")
	var bad *Trace
	why := ""
	nDrop := 0
	isEOF := func(e *Event) (bool, bool) {
		if e.Kind != EvCond && e.Kind != EvOutcome {
			return false, false
		}
		b, ok := ast.Unparen(e.Cond).(*ast.BinaryExpr)
		if !ok {
			return false, false
		}
		for _, s := range []ast.Expr{b.X, b.Y} {
			if o := h.objOf(s); o != nil && o.Pkg() != nil && o.Pkg().Path() == "io" && o.Name() == "EOF" {
				return true, (b.Op == token.EQL) == e.Outcome
			}
		}
		return false, false
	}
	for _, t := range in.Traces {
		eof := false
		for _, e := range t.Ev {
			if is, truth := isEOF(e); is {
				eof = truth
			}
			if e.Kind == EvAssign && e.LObj == readerF && e.RVal.K == VNil {
				nDrop++
				if !eof {
					bad, why = t, "the message reader is dropped without having reported io.EOF: the rest of a partially read WebSocket message is discarded"
				}
			}
		}
		// EOF seen ⇒ dropped before loop back / return
		sawEOF, dropped := false, false
		for _, e := range t.Ev {
			if is, truth := isEOF(e); is && truth {
				sawEOF, dropped = true, false
			}
			if e.Kind == EvAssign && e.LObj == readerF && e.RVal.K == VNil {
				dropped = true
			}
		}
		if sawEOF && !dropped && t.Exit == ExitLoopBack {
			bad, why = t, "after io.EOF the reader is kept: the loop spins on EOF"
		}
	}
	r.Check(fi.Name+":reader=nil iff io.EOF", bad == nil && nDrop > 0, fi.Decl.Pos(), len(in.Traces), why, shortWitness(c.witness(bad))...)
}

// loopBoundedByRl: all reads after the header are constant-width reads summing to N followed by a
// counting loop of one-byte reads whose bound is a variable defined as rl - N.
func (c *Ctx) loopBoundedByRl(fi *FuncInfo, t *Trace, di int, rlV types.Object) bool {
	h := &Interp{P: c.P, Info: fi.Pkg.TypesInfo}
	before := int64(0)
	var loop *ast.ForStmt
	for i := di + 1; i < len(t.Ev); i++ {
		e := t.Ev[i]
		if e.Kind != EvCall {
			continue
		}
		f, ok := e.Callee.(*types.Func)
		if !ok || f.Pkg() == nil || f.Pkg().Name() != "packet" {
			continue
		}
		loops := t.loopsAt(i)
		switch f.Name() {
		case "readUint":
			if len(loops) > 0 || e.ArgVals[1].K != VInt {
				return false
			}
			before += e.ArgVals[1].I
		case "readUint8":
			if len(loops) == 0 {
				before++
				continue
			}
			fs, ok := loops[len(loops)-1].(*ast.ForStmt)
			if !ok || len(loops) != 1 {
				return false
			}
			loop = fs
		case "readLPString", "readLPBytes":
			return false
		}
	}
	if loop == nil || loop.Cond == nil {
		return false
	}
	b, ok := ast.Unparen(loop.Cond).(*ast.BinaryExpr)
	if !ok || b.Op != token.LSS {
		return false
	}
	if _, isInc := loop.Post.(*ast.IncDecStmt); !isInc {
		return false
	}
	bound := h.objOf(b.Y)
	for _, e := range t.Ev {
		if e.Kind == EvAssign && e.LObj == bound && bound != nil {
			if sub, ok := ast.Unparen(e.RHS).(*ast.BinaryExpr); ok && sub.Op == token.SUB && h.objOf(sub.X) == rlV {
				if tv, ok := fi.Pkg.TypesInfo.Types[sub.Y]; ok && tv.Value != nil {
					if v, ok := constVal(tv); ok && v.K == VInt && v.I == before {
						return true
					}
				}
			}
		}
	}
	return false
}

// ---------------------------------------------------------------- C02/BOUNDS, C02/CONSUMED (LIN engine)

// c02Bounds decides, for every input buffer, that no index / slice / make / library precondition on the
// decode side of package packet can fail, and that every Decode returns 0 <= n <= len(src).
func c02Bounds(c *Ctx, prefix string) {
	rb := c.Rule(prefix+"/BOUNDS", "LIN", "every index, slice, make size and encoding/binary precondition reachable from a Decode method or DetectPacket is proved in range for all inputs (relational abstract interpretation over linear inequalities, callee summaries, inductive loop invariants)", 40)
	rc := c.Rule(prefix+"/CONSUMED", "LIN", "every return of every Decode method reports 0 <= n <= len(src): never more bytes consumed than supplied, on success and on error", 14)
	la := c.P.newLin()
	type root struct {
		f    *types.Func
		name string
	}
	var roots []root
	for _, pt := range c.packetTypes() {
		if m := c.P.Method("packet", pt.name, "Decode"); m != nil {
			roots = append(roots, root{m, "packet.(*" + pt.name + ").Decode"})
		}
	}
	if g, ok := c.P.Global("packet", "DetectPacket").(*types.Func); ok {
		roots = append(roots, root{g, "packet.DetectPacket"})
	}
	if m := c.P.Method("packet", "Decoder", "Read"); m != nil {
		roots = append(roots, root{m, "packet.(*Decoder).Read"})
	}
	if len(roots) < 16 {
		rb.Undecided("decode roots", 0, fmt.Sprintf("only %d of the 14 Decode methods + DetectPacket + Decoder.Read found", len(roots)))
	}
	rt := c.Rule(prefix+"/TERMINATES", "LIN", "every loop reachable from a Decode method, DetectPacket or Decoder.Read has a linear ranking function (decreases by >= 1 on every back edge, bounded below there); no recursion on the decode side", 4)
	for _, rt := range roots {
		sum := la.summary(rt.f, true)
		if sum == nil {
			rb.Undecided(rt.name, 0, "no body")
			continue
		}
		c.Touch(rt.name)
		if !strings.HasSuffix(rt.name, ".Decode") {
			continue
		}
		// parameter 0 is the receiver, 1 the source buffer
		if len(sum.params) < 2 || sum.params[1].kind != lkSeq {
			rc.Undecided(rt.name+":n<=len(src)", sum.fi.Decl.Pos(), "unexpected signature")
			continue
		}
		srcLen := sum.params[1].ln
		bad := ""
		for i, p := range sum.paths {
			if len(p.results) < 1 || p.results[0] == nil || p.results[0].kind != lkInt {
				bad = fmt.Sprintf("path %d returns an untracked count", i)
				break
			}
			n := p.results[0].lin
			if !la.prove(p.cons, n) {
				bad = fmt.Sprintf("path %d of %d: n >= 0 not provable", i+1, len(sum.paths))
				break
			}
			if !la.prove(p.cons, srcLen.sub(n)) {
				bad = fmt.Sprintf("path %d of %d: n <= len(src) not provable", i+1, len(sum.paths))
				break
			}
		}
		rc.Check(rt.name+":0<=n<=len(src)", bad == "" && len(sum.paths) > 0, sum.fi.Decl.Pos(), len(sum.paths),
			"a path may report more bytes consumed than were supplied (or a negative count): "+bad)
	}
	// helper functions reached through summaries
	for f, s := range la.sums {
		_ = f
		c.Touch(s.fi.Name)
	}
	ord := map[string]int{}
	sort.SliceStable(la.Obls, func(i, j int) bool {
		if la.Obls[i].Fn != la.Obls[j].Fn {
			return la.Obls[i].Fn < la.Obls[j].Fn
		}
		return la.Obls[i].Pos < la.Obls[j].Pos
	})
	for _, o := range la.Obls {
		k := o.Fn + ":" + o.What
		ord[k]++
		key := k
		if ord[k] > 1 {
			key = fmt.Sprintf("%s#%d", k, ord[k])
		}
		switch {
		case o.Term:
			rt.Check(key, o.Proved, o.Pos, 1, "no linear ranking function among ±v, w−v, v−w was found: the loop may not terminate for some input")
		case !o.Proved:
			rb.Fail(key, o.Pos, 1, "not provable for all inputs: a buffer exists (as far as the analysis can tell) for which this operation is out of range and panics")
		case o.Pending:
			rb.Pass(key, o.Pos, 1, "not provable inside the helper alone; proved at every call site after substituting the arguments")
		default:
			rb.Pass(key, o.Pos, 1, "proved from the path constraints (Fourier–Motzkin refutation)")
		}
	}
	seen := map[string]bool{}
	for _, u := range la.Undec {
		if !seen[u] {
			seen[u] = true
			rb.Undecided("unsupported construct: "+u, 0, u)
		}
	}
	c.Notes = append(c.Notes, fmt.Sprintf("LIN: %d functions summarised, %d paths, %d obligations, %d Fourier–Motzkin combination steps", len(la.sums), la.Paths, len(la.Obls), la.FM))
}

// c02Pool: the pooled buffer is shared by every Decoder and Encoder of the process. It may go back to the pool only
// when nothing uses its bytes any more: pool.Put is deferred, or no Decode / Encode / Write of the buffer follows it on
// the path (a packet decoded from a buffer that is already back in the pool can be overwritten mid-decode by another
// connection: the decoded packet no longer depends on its own bytes only).
func c02Pool(c *Ctx, rule string) {
	r := c.Rule(rule, "TRACE", "packet.Decoder.Read / Encoder.Write: the pooled buffer is returned (sync.Pool.Put) only after its last use — by defer, or with no Decode/Encode/Write after the Put on any path", 2)
	for _, name := range []string{"packet.(*Decoder).Read", "packet.(*Encoder).Write"} {
		fi := c.mustFunc(r, name)
		if fi == nil {
			continue
		}
		in := c.traces(fi)
		var bad *Trace
		nPut := 0
		for _, t := range in.Traces {
			for i, e := range t.Ev {
				f, ok := e.Callee.(*types.Func)
				if e.Kind != EvCall || !ok || f.FullName() != "(*sync.Pool).Put" {
					continue
				}
				nPut++
				if e.Deferred {
					continue
				}
				for _, p := range t.Ev[i+1:] {
					if pf, ok := p.Callee.(*types.Func); ok && p.Kind == EvCall {
						switch pf.Name() {
						case "Decode", "Encode", "Write", "WriteAndFlush", "ReadFull":
							bad = t
						}
					}
				}
			}
		}
		r.Check(name+":Put after last use", bad == nil && nPut > 0, fi.Decl.Pos(), len(in.Traces),
			"the buffer goes back to the shared pool while its bytes are still being decoded / written", shortWitness(c.witness(bad))...)
	}
}

// ---------------------------------------------------------------- C01/FIELDUSE

// c01FieldUse: every field of a packet value influences its encoding: on every successful path of Encode each
// exported field is read — except the two dependencies MQTT itself prescribes (the packet id of a PUBLISH is present
// only for QoS > 0; the will's fields only when there is a will). A field whose contribution is made to depend on
// ANOTHER field (the session-present bit only for an accepted CONNACK) is silently dropped for some values: the
// decoder, which reads it unconditionally, yields a different packet.
func c01FieldUse(c *Ctx) {
	r := c.Rule("C01/FIELDUSE", "TRACE", "every exported field of each of the 14 packet types is read on every successful path of its Encode (allowed dependencies: Publish.ID only for QoS > 0, Connect.Will.* only with a will)", 14)
	mf := c.msgFields()
	willF := c.P.Field("packet", "Connect", "Will")
	msgT := c.P.Named("packet", "Message")
	for _, pt := range c.packetTypes() {
		enc := c.P.ByObj[c.P.Method("packet", pt.name, "Encode")]
		st, _ := pt.named.Underlying().(*types.Struct)
		if enc == nil || st == nil {
			r.Undecided("packet.(*"+pt.name+").Encode", 0, "not found")
			continue
		}
		c.Touch(enc.Name)
		want := map[*types.Var]string{}
		for i := 0; i < st.NumFields(); i++ {
			f := st.Field(i)
			if !f.Exported() {
				continue
			}
			ft := f.Type()
			if p, ok := ft.(*types.Pointer); ok {
				ft = p.Elem()
			}
			if msgT != nil && types.Identical(ft, msgT) {
				ms := msgT.Underlying().(*types.Struct)
				for j := 0; j < ms.NumFields(); j++ {
					want[ms.Field(j)] = pt.name + "." + f.Name() + "." + ms.Field(j).Name()
				}
				continue
			}
			want[f] = pt.name + "." + f.Name()
		}
		if len(want) == 0 {
			r.Pass("packet.(*"+pt.name+").Encode", enc.Decl.Pos(), 1, "no fields")
			continue
		}
		acc := map[*types.Var]bool{}
		for f := range want {
			acc[f] = true
		}
		init := map[types.Object]Val{}
		if pt.name == "Connect" && willF != nil {
			init[willF] = Val{K: VNonNil}
			acc[willF] = true
		}
		var inits []map[types.Object]Val
		if pt.name == "Publish" {
			for q := int64(0); q <= 2; q++ {
				inits = append(inits, map[types.Object]Val{mf.msgQOS: vInt(q)})
			}
		} else {
			inits = append(inits, init)
		}
		var bad *Trace
		why := ""
		nsucc := 0
		for _, ini := range inits {
			in := c.P.TraceFunc(enc, TraceOpts{Init: ini, Access: acc, Inline: func(f *types.Func) bool {
				// same-package unexported helpers that take the packet (or its fields) apart are followed
				return f.Pkg() != nil && f.Pkg().Name() == "packet" && !f.Exported() && (strings.HasSuffix(f.Name(), "Encode") || strings.HasPrefix(f.Name(), "encode"))
			}, MaxDepth: 2})
			if in.Over {
				r.Undecided("packet.(*"+pt.name+").Encode", enc.Decl.Pos(), "path budget exhausted")
				continue
			}
			for _, t := range in.Traces {
				if t.Exit != ExitReturn || t.retErr() != -1 {
					continue // only paths known to return a nil error
				}
				nsucc++
				read := map[*types.Var]bool{}
				for _, e := range t.Ev {
					if e.Kind == EvAccess && !e.Write {
						if fv, ok := e.LObj.(*types.Var); ok {
							read[fv] = true
						}
					}
				}
				for f, label := range want {
					if read[f] {
						continue
					}
					if pt.name == "Publish" && f.Name() == "ID" {
						if q, ok := ini[mf.msgQOS]; ok && q.K == VInt && q.I == 0 {
							continue
						}
					}
					if bad == nil {
						bad, why = t, label
					}
				}
			}
		}
		r.Check("packet.(*"+pt.name+").Encode", bad == nil && nsucc > 0, enc.Decl.Pos(), nsucc,
			"field "+why+" is not read on a successful path of Encode: its value is dropped depending on another field, and decoding the bytes yields a different packet", shortWitness(c.witness(bad))...)
	}
}

// ---------------------------------------------------------------- C01/FIELDMIX

// c01FieldMix: in Encode, how one field is written must not depend on another field. A condition (with the
// conditions of the enclosing ifs) that mentions two different fields of the packet — neither a container of the
// other (Will / Will.Topic) — is admissible only as a validation, i.e. when the guarded branch refuses the packet with
// an error. Anything else writes different bytes for the same value of a field depending on a second field, which the
// decoder (reading each field from its own bits) cannot undo: the round trip yields a different packet.
func c01FieldMix(c *Ctx) {
	r := c.Rule("C01/FIELDMIX", "TABLE", "Encode: no non-refusing branch is guarded by conditions over two unrelated fields of the packet (each field's encoding depends on that field only; cross-field conditions are validations that return an error)", 14)
	for _, pt := range c.packetTypes() {
		enc := c.P.ByObj[c.P.Method("packet", pt.name, "Encode")]
		if enc == nil || enc.Decl.Body == nil || enc.Decl.Recv == nil || len(enc.Decl.Recv.List) == 0 || len(enc.Decl.Recv.List[0].Names) == 0 {
			r.Undecided("packet.(*"+pt.name+").Encode", 0, "not found")
			continue
		}
		info := enc.Pkg.TypesInfo
		recv := info.Defs[enc.Decl.Recv.List[0].Names[0]]
		// field paths below the receiver mentioned by an expression: "Will", "Will.Topic", "Message.QOS", "ID"
		paths := func(e ast.Expr) map[string]bool {
			out := map[string]bool{}
			ast.Inspect(e, func(m ast.Node) bool {
				sel, ok := m.(*ast.SelectorExpr)
				if !ok {
					return true
				}
				// walk down to the receiver
				var names []string
				cur := ast.Expr(sel)
				for {
					s, ok := ast.Unparen(cur).(*ast.SelectorExpr)
					if !ok {
						break
					}
					if fv, ok := info.ObjectOf(s.Sel).(*types.Var); !ok || !fv.IsField() {
						return true
					}
					names = append([]string{s.Sel.Name}, names...)
					cur = s.X
				}
				if id, ok := ast.Unparen(cur).(*ast.Ident); ok && info.ObjectOf(id) == recv && len(names) > 0 {
					out[strings.Join(names, ".")] = true
					return false
				}
				return true
			})
			return out
		}
		related := func(a, b string) bool {
			return a == b || strings.HasPrefix(a, b+".") || strings.HasPrefix(b, a+".")
		}
		refuses := func(b *ast.BlockStmt) bool {
			if b == nil || len(b.List) == 0 {
				return false
			}
			ret, ok := b.List[len(b.List)-1].(*ast.ReturnStmt)
			if !ok || len(ret.Results) != 2 {
				return false
			}
			tv, ok := info.Types[ret.Results[1]]
			return ok && !tv.IsNil()
		}
		bad := ""
		var badPos token.Pos
		nIf := 0
		var walk func(n ast.Node, outer map[string]bool)
		walk = func(n ast.Node, outer map[string]bool) {
			ast.Inspect(n, func(m ast.Node) bool {
				is, ok := m.(*ast.IfStmt)
				if !ok || m == n {
					return true
				}
				nIf++
				here := paths(is.Cond)
				all := map[string]bool{}
				for k := range outer {
					all[k] = true
				}
				for k := range here {
					all[k] = true
				}
				var ks []string
				for k := range all {
					ks = append(ks, k)
				}
				sort.Strings(ks)
				mixed := ""
				for i := range ks {
					for j := i + 1; j < len(ks); j++ {
						if !related(ks[i], ks[j]) && (here[ks[i]] || here[ks[j]]) {
							mixed = ks[i] + " / " + ks[j]
						}
					}
				}
				elseBlock, _ := is.Else.(*ast.BlockStmt)
				if mixed != "" && !refuses(is.Body) && !refuses(elseBlock) && bad == "" {
					bad, badPos = mixed, is.Pos()
				}
				walk(is.Body, all)
				if is.Else != nil {
					walk(is.Else, outer)
				}
				return false
			})
		}
		walk(enc.Decl.Body, map[string]bool{})
		pos := enc.Decl.Pos()
		if bad != "" {
			pos = badPos
		}
		r.Check("packet.(*"+pt.name+").Encode", bad == "", pos, nIf+1,
			"a branch that does not refuse the packet is guarded by conditions over the unrelated fields "+bad+": the bytes written for one of them depend on the other, the decoder reads each from its own bits")
	}
}

// c01HdrBound: decodeHeader serves every packet type, and a legal remaining length is any value up to maxVarint
// (readVarint enforces that). The only bound decodeHeader itself may put on the decoded remaining length is the
// length of the buffer it was given: a comparison of the remaining length with a constant in 1..maxVarint-1 refuses
// well-formed packets that Encode produces (a SUBSCRIBE with one 65535-byte filter has remaining length 65540).
func c01HdrBound(c *Ctx, prefix string) {
	r := c.Rule(prefix, "TABLE", "decodeHeader bounds the decoded remaining length by the buffer only: it is never compared with a constant below maxVarint", 1)
	fi := c.mustFunc(r, "packet.decodeHeader")
	rv, _ := c.P.Global("packet", "readVarint").(*types.Func)
	if fi == nil || rv == nil {
		return
	}
	info := fi.Pkg.TypesInfo
	h := &Interp{P: c.P, Info: info}
	maxV := int64(268435455)
	if k := c.P.Global("packet", "maxVarint"); k != nil {
		if cst, ok := k.(*types.Const); ok {
			if v, ok := constant.Int64Val(constant.ToInt(cst.Val())); ok {
				maxV = v
			}
		}
	}
	derived := map[types.Object]bool{}
	strip := func(e ast.Expr) ast.Expr {
		for {
			e = ast.Unparen(e)
			call, ok := e.(*ast.CallExpr)
			if !ok || len(call.Args) != 1 {
				return e
			}
			if tv, ok := info.Types[call.Fun]; !ok || !tv.IsType() {
				return e
			}
			e = call.Args[0]
		}
	}
	for changed := true; changed; {
		changed = false
		ast.Inspect(fi.Decl.Body, func(m ast.Node) bool {
			as, ok := m.(*ast.AssignStmt)
			if !ok {
				return true
			}
			if len(as.Rhs) == 1 && len(as.Lhs) >= 1 {
				if call, ok := ast.Unparen(as.Rhs[0]).(*ast.CallExpr); ok {
					if f, _ := typeutilCallee(info, call).(*types.Func); f == rv {
						if o := h.lhsObj(as.Lhs[0]); o != nil && !derived[o] {
							derived[o], changed = true, true
						}
						return true
					}
				}
			}
			for i, l := range as.Lhs {
				if i < len(as.Rhs) {
					if o := h.objOf(strip(as.Rhs[i])); o != nil && derived[o] {
						if lo := h.lhsObj(l); lo != nil && !derived[lo] {
							derived[lo], changed = true, true
						}
					}
				}
			}
			return true
		})
	}
	n, bad := 0, ""
	var pos token.Pos = fi.Decl.Pos()
	ast.Inspect(fi.Decl.Body, func(m ast.Node) bool {
		be, ok := m.(*ast.BinaryExpr)
		if !ok {
			return true
		}
		switch be.Op {
		case token.LSS, token.GTR, token.LEQ, token.GEQ, token.EQL, token.NEQ:
		default:
			return true
		}
		for _, pr := range [][2]ast.Expr{{be.X, be.Y}, {be.Y, be.X}} {
			o := h.objOf(strip(pr[0]))
			if o == nil || !derived[o] {
				continue
			}
			n++
			if tv, ok := info.Types[pr[1]]; ok && tv.Value != nil {
				if k, ok := constant.Int64Val(constant.ToInt(tv.Value)); ok && k > 0 && k < maxV {
					bad, pos = c.P.exprStr(be)+" compares the remaining length with the constant "+fmt.Sprint(k), be.Pos()
				}
			}
		}
		return true
	})
	r.Check(fi.Name+":remaining length bounded by the buffer only", bad == "" && n > 0 && len(derived) > 0, pos, n, bad+": well-formed packets of other types with a longer body (long filters, many return codes, a large CONNECT) are refused although Encode produces them")
}
