#!/bin/bash
# usage: check.sh <property id> <quick|thorough>
# Decides one property on /repo's current working tree by static analysis (see DESIGN.md).
set -u
ID="${1:?property id}"; TIER="${2:-quick}"
HERE="$(cd "$(dirname "$0")" && pwd)"
export GOFLAGS=-mod=mod GOPROXY=off GOSUMDB=off GOTOOLCHAIN=local
unset GOWORK
REPO="${VERIF_REPO:-/repo}"
if [ ! -x "$HERE/bin/gomqttcheck" ] || [ -n "$(find "$HERE/checker" -name '*.go' -newer "$HERE/bin/gomqttcheck" 2>/dev/null | head -1)" ]; then
  (cd "$HERE/checker" && go build -o "$HERE/bin/gomqttcheck" .) || { echo "cannot build checker"; exit 2; }
fi
exec "$HERE/bin/gomqttcheck" -repo "$REPO" -verif "$HERE" -prop "$ID" -tier "$TIER"
